#!/bin/sh
# usage: ./check.sh <property id> [quick|thorough]
# Static analysis of /repo's current working tree for one property.
# exit 0: property's structural clauses hold (known findings printed);
# exit 1: VIOLATION line(s); exit 2: no verdict (load failure, undecided, anchor missing).
set -u
cd "$(dirname "$0")"
VERIF=$(pwd)
export GOFLAGS=-mod=mod GOPROXY=off GOSUMDB=off GOTOOLCHAIN=local
unset GOWORK
ID=$1
TIER=${2:-${VERIF_TIER:-quick}}
REPO=${VERIF_REPO:-/repo}
BIN=$VERIF/bin/yqcheck
if [ ! -x "$BIN" ] || [ -n "$(find "$VERIF/checker" -name '*.go' -newer "$BIN" 2>/dev/null | head -1)" ]; then
  (cd "$VERIF/checker" && go build -o "$BIN" .) || { echo "FATAL: cannot build checker"; exit 2; }
fi
exec "$BIN" -repo "$REPO" -verif "$VERIF" -property "$ID" -tier "$TIER" -evidence "$VERIF/evidence/$ID.json"
