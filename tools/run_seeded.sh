#!/bin/bash
# usage: run_seeded.sh [-a] [seeded-name ...]   (default: all under /verif/seeded)
# Applies each seeded change to a scratch worktree of /repo HEAD (never to /repo itself),
# runs the check of the property it breaks (with -a: every claimed check) against it,
# reports which rule fires, and removes the worktree.
export GOFLAGS=-mod=mod GOPROXY=off GOSUMDB=off GOTOOLCHAIN=local; unset GOWORK
ALL=0; [ "$1" = "-a" ] && { ALL=1; shift; }
NAMES="$@"; [ -z "$NAMES" ] && NAMES=$(ls /verif/seeded)
CLAIMED=$(python3 -c "import json;print(' '.join(c['property_id'] for c in json.load(open('/verif/MANIFEST.json'))['checks']))")
(cd /verif/checker && go build -o /verif/bin/yqcheck .) || exit 2
for n in $NAMES; do
  d=/verif/seeded/$n; pid=${n%%-*}
  W=$(mktemp -d /tmp/seedrun.XXXXXX)
  git -C /repo worktree add -q --detach $W/wt HEAD
  if ! git -C $W/wt apply $d/patch.diff 2>/dev/null && ! git -C $W/wt apply --3way $d/patch.diff 2>/dev/null; then
    echo "$n: patch does not apply"; git -C /repo worktree remove --force $W/wt; rm -rf $W; continue
  fi
  props=$pid; [ $ALL = 1 ] && props=$CLAIMED
  res=""
  for p in $props; do
    case " $CLAIMED " in *" $p "*) ;; *) res="$res $p:unclaimed"; continue;; esac
    out=$(/verif/bin/yqcheck -repo $W/wt -verif /verif -property $p -tier quick -evidence $W/ev.json 2>&1); rc=$?
    rules=$(echo "$out" | grep -B1 '^VIOLATION' | grep -v '^VIOLATION' | grep -v '^--' | sed 's/^ *//' | cut -c1-150 | head -3 | tr '\n' ';')
    [ $rc = 2 ] && rules="$rules $(echo "$out" | grep -E '^(FATAL|UNDECIDED)' | head -2 | cut -c1-200 | tr '\n' ';')"
    res="$res $p:exit$rc"; [ -n "$rules" ] && res="$res [$rules]"
  done
  echo "$n:$res"
  git -C /repo worktree remove --force $W/wt; rm -rf $W
done
