#!/bin/bash
# usage: confirm_seed.sh <src dir with patch.diff + demo.sh> <name e.g. C12-m1>
# Confirms a seeded change in a scratch worktree of /repo HEAD: patch applies, builds,
# full suite passes, demo passes on clean and fails on patched. Prints a summary line.
export GOFLAGS=-mod=mod GOPROXY=off GOSUMDB=off GOTOOLCHAIN=local; unset GOWORK
SRC=$1; NAME=$2
W=$(mktemp -d /tmp/confirm.XXXXXX)
trap 'git -C /repo worktree remove --force $W/wt >/dev/null 2>&1; rm -rf $W' EXIT
git -C /repo worktree add -q --detach $W/wt HEAD || exit 3
cd $W/wt
go build -o $W/yq-clean . || { echo "$NAME: clean build failed"; exit 3; }
if ! git apply $SRC/patch.diff 2>$W/apply.err; then
  if ! git apply --3way $SRC/patch.diff 2>>$W/apply.err; then echo "$NAME: PATCH-DOES-NOT-APPLY $(head -2 $W/apply.err | tr '\n' ' ')"; exit 4; fi
fi
go build ./... 2>$W/build.err || { echo "$NAME: patched build failed: $(head -3 $W/build.err)"; exit 5; }
SUITE=$(go test -vet=off -count=1 ./... 2>&1 | grep -c -E '^(FAIL|---)' )
go build -o $W/yq-mut . || exit 5
if [ -f $SRC/demo.sh ]; then
  (cd $W && bash $SRC/demo.sh $W/yq-clean >$W/clean.out 2>&1); C=$?
  (cd $W && bash $SRC/demo.sh $W/yq-mut >$W/mut.out 2>&1); M=$?
else C=na; M=na; fi
echo "$NAME: suite_fail_lines=$SUITE demo_clean_exit=$C demo_mut_exit=$M"
[ "$SUITE" = 0 ] && [ "$C" = 0 ] && [ "$M" != 0 ] && echo "$NAME: CONFIRMED"
