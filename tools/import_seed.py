#!/usr/bin/env python3
# usage: import_seed.py <src dir (…/m1)> <name Cxx-mN> <round>  — copies a confirmed seeded change into /verif/seeded
import sys, os, shutil, json, re, subprocess
src, name, rnd = sys.argv[1], sys.argv[2], sys.argv[3]
dst = f'/verif/seeded/{name}'
os.makedirs(dst, exist_ok=True)
for f in os.listdir(src):
    p = os.path.join(src, f)
    if os.path.isfile(p) and os.path.getsize(p) < 200_000 and not f.startswith('yq'):
        shutil.copy(p, os.path.join(dst, f))
notes = open(os.path.join(dst, 'notes.md')).read() if os.path.exists(os.path.join(dst, 'notes.md')) else ''
# first "change" paragraph
m = re.search(r'(?is)(?:^|\n)#+\s*(?:the\s+)?change[^\n]*\n+(.+?)(?:\n#+\s|\Z)', notes)
change = (m.group(1).strip() if m else notes.strip()[:600])
change = re.sub(r'\s+', ' ', change)[:700]
head = subprocess.check_output(['git', '-C', '/repo', 'rev-parse', '--short', 'HEAD']).decode().strip()
meta = {
 'property': name.split('-')[0],
 'change': 'see notes.md: ' + change,
 'needs_to_manifest': 'see notes.md (trigger section)',
 'origin': f'round {rnd}: independent sub-agent given only the property text, a scratch worktree and the one-line list of earlier ideas to avoid',
 'confirmed': f'tools/confirm_seed.sh on a scratch worktree of /repo {head}: patch applies, go build ok, full go test 0 failures, demo.sh exits 0 on the clean binary and non-zero on the patched one',
 'detected_by': None,
}
json.dump(meta, open(os.path.join(dst, 'meta.json'), 'w'), indent=1, ensure_ascii=False)
print(name, 'imported:', change[:100])
