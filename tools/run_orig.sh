#!/bin/bash
# usage: run_orig.sh <property>... : runs checks against a scratch worktree of the ORIGINAL snapshot (cc6f0b8, before any fix: commit)
export GOFLAGS=-mod=mod GOPROXY=off GOSUMDB=off GOTOOLCHAIN=local; unset GOWORK
W=$(mktemp -d /tmp/orig.XXXXXX); git -C /repo worktree add -q --detach $W/wt cc6f0b8
for p in "$@"; do /verif/bin/yqcheck -repo $W/wt -verif /verif -property $p -evidence $W/e.json | grep -E -B1 "^VIOLATION|^FATAL|^UNDECIDED|^KNOWN|^==" | grep -v "^VIOLATION" | grep -v '^--' | cut -c1-260; done
git -C /repo worktree remove --force $W/wt; rm -rf $W
