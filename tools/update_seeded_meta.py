#!/usr/bin/env python3
# Reads seeded/RESULTS.txt (written by tools/run_seeded_all.sh) and
#  - fills detected_by / not_detected_reason in every seeded/<name>/meta.json
#  - prints the markdown table used in DESIGN.md section 7
import json, re, os, sys
root = '/verif/seeded'
why = {
 'C01-m14': 'recurseNodeArrayEqual weakens its length guard from != to >, so a proper prefix equals the longer array in one direction: a relational operator inside a value-level guard; the nearest structural rule (an equality helper must treat its two operands symmetrically) would need a proof that the element loop over lhs alone is justified by the guard, which is the arithmetic it would be checking',
 'C15-m16': 'the or-equal test of the integer branch of compareScalars compares the spellings (lhs.Value == rhs.Value) instead of the parsed numbers, so 0x10 <= 16 and 16 <= 0x10 are both false: both operands still reach the parser (O1/O5 hold) and the comparison that changed is on values; a rule forbidding raw .Value comparisons after a successful parse would also fire on a behaviour-preserving identical-spelling fast path',
 'C02-m1': 'a disjunct dropped from the custom-tag guard of UpdateAttributesFrom: a value-level predicate; the only rule that would fire is a frozen copy of the condition, which would also fire on behaviour-preserving rewrites',
 'C03-m1': 'delete victims are resolved in a first pass and removed in a second: every statement is individually fine, the defect is that paths computed before the first removal are stale afterwards (a history-dependent value, see known finding K1 for the nearest structural rule)',
 'C05-m2': 'the head comment is dropped only when leading-content pre-processing is on: which comment text survives is a runtime value of the YAML library, no structural footprint',
 'C05-m3': 'the "--- " separator branch returns early: changes which bytes are slurped, decided by input bytes',
 'C05-m4': 'fallback to EvaluateNew keyed on a new printer predicate: no rule inspects when the no-document fallback is taken',
 'C06-m3': 'float-to-int detection via math.Trunc instead of an int64 round trip: numeric value-level equivalence outside int64 range',
 'C11-m3': 'FieldsPerRecord = -1 lets encoding/csv hand out ragged records; the index `contentRow[i]` is a variable index whose bound rests on a foreign library option (variable-index sites are not armed, see DESIGN.md section 3 C11)',
 'C14-m2': 'xmlNode.AddChild looks only at the last sibling: changes grouping of non-adjacent repeated elements, a value-level property of the built tree',
 'C15-m4': 'the running extreme leaks across input sequences: loop-carried state; no rule models which iteration a local is reset in',
 'C16-m3': 'getParsedKey parses numeric-looking string keys as integers: value-level',
 'C16-m4': 'to_entries reuses the element key when present: value-level (which node supplies the key text)',
 'C01-m2': 'reduce over nothing returns the incoming context instead of the initial value: which value an operator yields for an empty operand stream is value-level',
 'C01-m3': 'contains() gives up when more items are wanted than present: a length pre-check that is wrong only for repeated / substring-matching wanted items, value-level',
 'C06-m5': 'header lines read with ReadSlice instead of ReadString: the difference (a line longer than the 4096-byte buffer is cut) lies in the bufio contract, not in the shape of the caller',
 'C13-m6': 'a map listed twice in a merge list is applied once: which occurrence wins is an ordering fact over runtime values',
 'C14-m5': 'parseSnippet keeps the original text only for multi-line strings: single-line CSV fields then get the YAML reading of their text; value-level',
 'C16-m5': 'padding nulls reuse a node keyed with the requested index; AddChild keeps a key a child already has (the known finding K1), so the stale key survives — the rule that would catch it is the one whose violation on the pinned tree is recorded as known',
 'C01-m6': 'recursiveNodeEqual lets a null on the left equal any scalar on the right (an early exit moved above the tag comparison): which values compare equal is value-level',
 'C02-m8': 'the glob matcher gains a backslash escape, so a key containing a backslash no longer matches its own name: a change inside the matching algorithm, value-level',
 'C03-m8': 'float-tagged map keys become numbers in paths and are re-printed canonically (1.10 -> 1.1): which text a path element prints as is value-level',
 'C04-m8': 'the append flag is dropped for an empty right-hand sequence, which then replaces instead of appending nothing: a conjunct added to a value computation, no structural footprint',
 'C07-m8': 'getParsedKey loses its !!str shortcut, so quoted numeric-looking keys are canonicalised ("010" -> 10): value-level (same family as C16-m3)',
 'C10-m8': 'the yaml decoder no longer clears its leading content after handing it to the first document: a one-shot field that is read but not reset inside Decode; S4 only demands that Init resets what Decode writes',
 'C13-m7': 'explode on a read-only context works on a copy whose aliases still point at the un-exploded original: an ordering fact between explode and alias resolution, value-level',
 'C14-m8': 'DeeplyAssign merges only non-empty maps, so an empty TOML table header overwrites what is at its path: a conjunct added to a guard, value-level',
 'C19-m7': 'the JSON decoder asks More() before decoding; goccy returns false on a stray closing bracket, which turns a syntax error into a clean end of input: the contract of a third-party call, not visible in the shape of the caller',
 'C19-m8': 'the XML encoder silently skips non-scalar attribute values instead of returning an error: the removed error was a value-level validation, no rule demands that every unsupported shape is rejected',
 'C01-m8': 'the two slice bound expressions are evaluated once, against the first array, instead of per array: the results are still clamped per array, so nothing structural breaks; which node an operand expression is evaluated against is value-level here',
 'C02-m9': 'auto-creation through a null is limited to nulls spelled "" or null: a string test added to a guard, value-level',
 'C04-m10': 'auto-creation in traverseMap is skipped for the empty key: a conjunct added to a guard, value-level',
 'C05-m9': 'header lines read with ReadSlice instead of ReadString (lines beyond the 4096-byte buffer are cut): the bufio contract, not the shape of the caller (same family as C06-m5)',
 'C05-m10': 'leading-content pre-processing switched on for the format names "yaml" and "y" but not "yml": a forgotten string in a list, value-level',
 'C06-m9': 'the printer explodes copies whose Alias pointers still target the un-exploded originals: an ordering fact between copy and explode; no rule models which alias targets have been exploded',
 'C09-m9': 'the four comparison rules share one action that derives its flags from the lexeme trimmed of blanks only, while the patterns also absorb tabs and newlines: a string computation on the lexeme, value-level (the extractor follows the new factory()(token) shape, so the check keeps its verdict)',
 'C10-m10': 'the document-separator pattern gains (?m) and matches anywhere in the leading content: a regular-expression flag, value-level',
 'C13-m9': 'a mapping value is decoded before its key, so an alias in the value that names the anchor on its own key resolves to nothing: decoding order, value-level',
 'C13-m10': 'the merge-key guard of doTraverseMap uses the glob matcher instead of the literal "<<": the set of patterns for which the merge is followed changes; N8 allows doTraverseMap to call the matcher',
 'C15-m9': 'a fast path parses plain numbers with ParseFloat, which also accepts nan/inf: which texts count as numbers is value-level',
 'C16-m10': 'keys skips entries tagged !!merge while to_entries does not: value-level disagreement between two operators',
 'C19-m10': 'only the first object of a CSV array is checked for nested values: the removed validation was value-level',
 'C01-m12': 'isEquals treats a null on the left as equal only when both sides are null, so `null == "n*"` falls through to the glob matcher: which values compare equal is value-level',
 'C04-m13': 'the merge descent skips sequences by tag (`!!seq`) instead of by kind: for a custom-tagged sequence the elements are appended and also assigned by position; a comparison of one attribute instead of another, value-level',
 'C04-m14': 'the `n` flag also overwrites scalars whose text is empty: a disjunct added to a value-level guard',
 'C06-m13': 'UnmarshalYAML registers the anchor of a container after its children have been decoded, so a nested re-definition of the same name loses to the outer one: an ordering fact between two statements of one function; A4 only demands that the registration is unconditional',
 'C09-m14': 'the bracket counter of string interpolation is decremented before it is tested and never reset: arithmetic on a run-time counter',
 'C10-m14': '`null + x` returns a plain copy of x instead of a copy placed at the position of the null: which constructor makes the result is not a shape any rule demands for calculations (their results are placed by crossFunction only when they replace an operand)',
 'C12-m14': 'the front-matter appendix is re-read with bufio.Scanner and joined with "\\n" (CRLF, a missing final newline and lines over 64 KiB change): the contract of a library reader, value-level',
 'C13-m14': 'the dotted index form no longer follows an alias whose target is not a mapping: a kind test added to a guard, value-level',
 'C14-m14': 'comments of the properties writer are encoded as ISO-8859-1 instead of UTF-8: a constant of a third-party API',
 'C15-m13': 'sort_keys lower-cases keys both for ordering and as the bucket index, so keys that differ only in case collapse: a string transformation on run-time keys',
 'C18-m13': 'the TOML decoder keeps its root map across Init calls (allocated only when nil): the field holds a pointer whose target Decode mutates, while S4 only tracks fields that Decode stores into',
 'C15-m8': 'parseInt64 takes a sign off before the prefix tests and multiplies it back (-0x8000000000000000 overflows, "-" + hex now parses): arithmetic on run-time values. It used to be counted as detected through C11-P4, but that alarm was for the wrong reason — `numberString[1:]` under `HasPrefix(numberString, "-")` is safe and is now proved by the flow-based length facts',
 'C04-m11': 'with `*d` an empty right-hand sequence is routed to plain assignment instead of the positional merge: an extra disjunct in a value-level case distinction of applyAssignment; which operand shapes take which route is not a shape of the code',
 'C06-m11': 'isTruthyNode compares the boolean text through a lower-case map instead of EqualFold: case folding of scalar text is value-level (the pinned tree itself compares `node.Value != "false"` case-sensitively in the printer, so no sibling agreement exists to check against)',
 'C14-m11': 'the Lua decoder decides int-ness by math.Mod(n,1)==0 instead of a round trip through int: which float values count as integers is arithmetic on run-time values',
 'C14-m12': 'the trailing-newline chomp of @csv/@tsv became strings.TrimSpace: which characters are trimmed is the semantics of a library call on run-time text',
 'C15-m12': 'the date-only fallback layout lost its zero padding (`2006-1-2`): the meaning of a time layout string is the contract of time.Parse, not a shape of the code',
 'C18-m4': 'leading content printed only when non-empty: encoder-internal state is then not reset between documents; no rule models the encoder state machine',
}
res = {}
for line in open(os.path.join(root, 'RESULTS.txt')):
    line = line.rstrip('\n')
    if not line.strip(): continue
    name, rest = line.split(':', 1)
    hits = re.findall(r'(C\d\d)\[([^\]]*)\]', rest)
    res[name] = hits
rows = []
for name in sorted(os.listdir(root)):
    d = os.path.join(root, name)
    if not os.path.isdir(d): continue
    mp = os.path.join(d, 'meta.json')
    meta = json.load(open(mp))
    hits = [(p, r) for p, r in res.get(name, []) if r != 'EXIT2']
    undec = [p for p, r in res.get(name, []) if r == 'EXIT2']
    meta['ran'] = 'tools/run_seeded_all.sh: patch applied to a scratch worktree of /repo HEAD, every claimed check run with -repo <worktree>; worktree removed'
    if hits:
        meta['detected_by'] = [f'{p}: {r}' for p, r in hits]
        meta.pop('not_detected_reason', None)
    else:
        meta['detected_by'] = None
        meta['not_detected_reason'] = why.get(name, 'value-level change with no structural footprint that any rule inspects (see DESIGN.md section 7)')
        if undec:
            meta['not_detected_reason'] = 'check exits 2 (undecided) on: ' + ','.join(undec)
    json.dump(meta, open(mp, 'w'), indent=1, ensure_ascii=False); open(mp, 'a').write('\n')
    own = name.split('-')[0]
    ownhit = [r for p, r in hits if p == own]
    other = sorted({p for p, r in hits if p != own})
    short = lambda r: r.split('/')[0]
    if hits:
        first = ownhit[0] if ownhit else hits[0][1]
        rows.append(f"| {name} | {'yes' if ownhit else 'via ' + ','.join(other)} | {short(first)} | `{first[:70]}` | {' '.join(other) if ownhit else ''} |")
    else:
        rows.append(f"| {name} | **no** | – | {meta['not_detected_reason']} | |")
det = sum(1 for n in res if any(r != 'EXIT2' for p, r in res[n]))
print(f"Detected: {det} of {len(rows)} (a change counts as detected when some claimed check exits 1 naming a construct the change touches).\n")
print('| change | own check fires | rule | first obligation that fails / why not | other checks that also fire |')
print('|---|---|---|---|---|')
print('\n'.join(rows))
