#!/bin/bash
# usage: try_patch.sh <patch.diff> <binary> <property>...   — applies the patch to a scratch worktree of /repo HEAD and runs the checks
P=$1; BIN=$2; shift 2
W=$(mktemp -d /tmp/try.XXXXXX)
git -C /repo worktree add -q --detach $W/wt HEAD
git -C $W/wt apply $P || { echo "patch does not apply"; git -C /repo worktree remove --force $W/wt; rm -rf $W; exit 3; }
for p in "$@"; do
  out=$(YQCHECK_NESTED=1 $BIN -repo $W/wt -verif /verif -property $p -tier quick -evidence $W/ev.json 2>&1); rc=$?
  echo "== $p exit $rc"
  echo "$out" | grep -E -B1 '^VIOLATION' | grep -v '^VIOLATION\|^--' | sed 's/^ *//' | cut -c1-330
  echo "$out" | grep -E '^(FATAL|UNDECIDED)' | cut -c1-330
done
git -C /repo worktree remove --force $W/wt; rm -rf $W
