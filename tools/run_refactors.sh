#!/bin/bash
# usage: run_refactors.sh <dir with <batch>/<rN>/patch.diff> [jobs]
# Applies each behaviour-preserving refactoring to a scratch worktree of /repo HEAD, confirms that it
# builds and that the suite passes, then runs every claimed check on it. Any exit != 0 is a false alarm
# (exit 1) or a lost verdict (exit 2) of that check.
export GOFLAGS=-mod=mod GOPROXY=off GOSUMDB=off GOTOOLCHAIN=local; unset GOWORK
SRC=$1; J=${2:-6}
CLAIMED=$(python3 -c "import json;print(' '.join(c['property_id'] for c in json.load(open('/verif/MANIFEST.json'))['checks']))")
one() {
  d=$1; n=$(echo ${d#$SRC/} | tr '/' '-')
  W=$(mktemp -d /tmp/refrun.XXXXXX)
  git -C /repo worktree add -q --detach $W/wt HEAD 2>/dev/null
  if ! git -C $W/wt apply $d/patch.diff 2>/dev/null && ! git -C $W/wt apply --3way $d/patch.diff 2>/dev/null; then
    echo "$n: PATCH-DOES-NOT-APPLY"; git -C /repo worktree remove --force $W/wt; rm -rf $W; return; fi
  if ! (cd $W/wt && go build ./... 2>/dev/null && go test -vet=off -count=1 ./... >/dev/null 2>&1); then
    echo "$n: SUITE-FAILS (not a valid refactoring)"; git -C /repo worktree remove --force $W/wt; rm -rf $W; return; fi
  res=""
  for p in $CLAIMED; do
    out=$(YQCHECK_NESTED=1 ${YQCHECK_BIN:-/verif/bin/yqcheck} -repo $W/wt -verif /verif -property $p -tier quick -evidence $W/ev.json 2>&1); rc=$?
    if [ $rc != 0 ]; then
      why=$(echo "$out" | grep -E -B1 '^VIOLATION' | grep -v '^VIOLATION\|^--' | head -2 | sed 's/^ *//' | cut -c1-220 | tr '\n' ';')
      [ -z "$why" ] && why=$(echo "$out" | grep -E '^(FATAL|UNDECIDED)' | head -2 | cut -c1-220 | tr '\n' ';')
      res="$res\n    $p exit$rc: $why"
    fi
  done
  if [ -z "$res" ]; then echo "$n: all $(echo $CLAIMED | wc -w) checks exit 0"; else echo -e "$n:$res"; fi
  git -C /repo worktree remove --force $W/wt; rm -rf $W
}
export -f one; export CLAIMED
export SRC
find $SRC -name patch.diff | sort | xargs -n1 dirname | xargs -P $J -I{} bash -c 'one {}'
