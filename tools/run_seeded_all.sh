#!/bin/bash
# usage: run_seeded_all.sh [jobs] [name ...] — every seeded change (or the named ones) against every claimed
# check, in parallel; writes /verif/seeded/RESULTS.txt (one line per mutant: which checks exit 1 and the
# first rule that fires). With names, the lines of those mutants are replaced and the others kept.
export GOFLAGS=-mod=mod GOPROXY=off GOSUMDB=off GOTOOLCHAIN=local; unset GOWORK
J=${1:-8}
(cd /verif/checker && go build -o /verif/bin/yqcheck .) || exit 2
CLAIMED=$(python3 -c "import json;print(' '.join(c['property_id'] for c in json.load(open('/verif/MANIFEST.json'))['checks']))")
one() {
  n=$1; d=/verif/seeded/$n
  W=$(mktemp -d /tmp/seedall.XXXXXX)
  git -C /repo worktree add -q --detach $W/wt HEAD 2>/dev/null
  if ! git -C $W/wt apply $d/patch.diff 2>/dev/null && ! git -C $W/wt apply --3way $d/patch.diff 2>/dev/null; then
    echo "$n: PATCH-DOES-NOT-APPLY"; git -C /repo worktree remove --force $W/wt; rm -rf $W; return; fi
  res=""
  for p in $CLAIMED; do
    out=$(/verif/bin/yqcheck -repo $W/wt -verif /verif -property $p -tier quick -evidence $W/ev.json 2>&1); rc=$?
    if [ $rc = 1 ]; then rule=$(echo "$out" | grep -B1 '^VIOLATION' | grep -v '^VIOLATION\|^--' | head -1 | sed 's/^ *//' | cut -d' ' -f1); res="$res $p[$rule]"; fi
    if [ $rc = 2 ]; then res="$res $p[EXIT2]"; fi
  done
  echo "$n:$res"
  git -C /repo worktree remove --force $W/wt; rm -rf $W
}
export -f one; export CLAIMED
cp /verif/known_findings.json /tmp/kf.json
shift
if [ $# -gt 0 ]; then
  T=$(mktemp); printf '%s\n' "$@" | xargs -P $J -I{} bash -c 'one {}' > $T
  for n in "$@"; do sed -i "/^$n:/d" /verif/seeded/RESULTS.txt; done
  cat $T >> /verif/seeded/RESULTS.txt; sort -o /verif/seeded/RESULTS.txt /verif/seeded/RESULTS.txt; cat $T; rm -f $T
else
  ls /verif/seeded | grep -v RESULTS | xargs -P $J -I{} bash -c 'one {}' | sort > /verif/seeded/RESULTS.txt.new && mv /verif/seeded/RESULTS.txt.new /verif/seeded/RESULTS.txt
  cat /verif/seeded/RESULTS.txt
fi
