#!/usr/bin/env python3-vt
# validates MANIFEST.json and every evidence file against the schemas
import json, sys, glob, jsonschema
ok = True
m = json.load(open('/verif/MANIFEST.json'))
jsonschema.validate(m, json.load(open('/root/.vp/MANIFEST.schema.json')))
es = json.load(open('/root/.vp/EVIDENCE.schema.json'))
props = [json.loads(l)['id'] for l in open('/verif/properties.jsonl')]
claimed = [c['property_id'] for c in m['checks']]
na = [n['property_id'] for n in m.get('not_applicable', [])]
for p in props:
    if (p in claimed) == (p in na):
        print('property', p, 'must be exactly one of claimed / not_applicable'); ok = False
for c in m['checks']:
    try:
        jsonschema.validate(json.load(open(c['evidence_file'])), es)
    except Exception as e:
        print('evidence', c['evidence_file'], 'INVALID:', str(e)[:300]); ok = False
print('manifest ok;', len(claimed), 'claimed,', len(na), 'not applicable;', 'evidence ok' if ok else 'PROBLEMS')
sys.exit(0 if ok else 1)
