package main

import (
	"fmt"
	"go/token"
	"sort"

	"golang.org/x/tools/go/ssa"
)

// Rule B1 — balanced counters.
//
// A method that both increments and decrements a field of its receiver by one
// (the Lua encoder's indent level) must leave it where it found it on every
// exit that is not an error exit; the encoder object is reused for the next
// document, and a level that drifts up shifts every later document while one
// that drifts down ends in strings.Repeat with a negative count. Paths are
// enumerated over the CFG with the net change as state; branch conditions on
// the same immutable value (a bool parameter tested twice) are kept
// consistent along a path, loops must have no net change.

type counterStep struct {
	field string
	delta int
}

func counterStepOf(ins ssa.Instruction) (counterStep, bool) {
	st, ok := ins.(*ssa.Store)
	if !ok {
		return counterStep{}, false
	}
	fa, ok := st.Addr.(*ssa.FieldAddr)
	if !ok {
		return counterStep{}, false
	}
	bo, ok := st.Val.(*ssa.BinOp)
	if !ok || (bo.Op != token.ADD && bo.Op != token.SUB) {
		return counterStep{}, false
	}
	k, ok := constInt64(bo.Y)
	if !ok || k != 1 {
		return counterStep{}, false
	}
	ld, ok := bo.X.(*ssa.UnOp)
	if !ok || ld.Op != token.MUL {
		return counterStep{}, false
	}
	fb, ok := ld.X.(*ssa.FieldAddr)
	if !ok || fb.Field != fa.Field || fb.X != fa.X {
		return counterStep{}, false
	}
	if _, isParam := fa.X.(*ssa.Parameter); !isParam {
		return counterStep{}, false
	}
	d := 1
	if bo.Op == token.SUB {
		d = -1
	}
	return counterStep{fieldName(fa), d}, true
}

// isErrorExit: the return hands back an error value that a dominating test found non-nil.
func isErrorExit(ret *ssa.Return) bool {
	if len(ret.Results) == 0 {
		return false
	}
	v := returnedValue(ret, len(ret.Results)-1)
	if v == nil || !isErrorType(v.Type()) {
		return false
	}
	found := false
	dominatingConds(ret.Block(), func(cond ssa.Value, taken bool, at *ssa.BasicBlock) {
		bo, isB := cond.(*ssa.BinOp)
		if !isB {
			return
		}
		if (bo.X == v && isNilConst(bo.Y)) || (bo.Y == v && isNilConst(bo.X)) {
			if (bo.Op == token.NEQ && taken) || (bo.Op == token.EQL && !taken) {
				found = true
			}
		}
	})
	return found
}

type balanceFinding struct {
	pos   token.Pos
	delta int
	what  string
}

func checkBalance(fn *ssa.Function, field string) (findings []balanceFinding, exits int) {
	type state struct {
		blk   *ssa.BasicBlock
		delta int
		asm   string // canonical rendering of assumptions
	}
	type frame struct {
		blk   *ssa.BasicBlock
		delta int
		asm   map[ssa.Value]bool
	}
	render := func(m map[ssa.Value]bool) string {
		var ks []string
		for v, b := range m {
			ks = append(ks, fmt.Sprintf("%s=%v", v.Name(), b))
		}
		sort.Strings(ks)
		return fmt.Sprint(ks)
	}
	// conditions worth tracking: parameters and values computed from parameters only, tested more than once
	trackable := func(v ssa.Value) bool {
		switch x := v.(type) {
		case *ssa.Parameter:
			return true
		case *ssa.UnOp:
			if x.Op == token.NOT {
				_, ok := x.X.(*ssa.Parameter)
				return ok
			}
		}
		return false
	}
	seen := map[state]bool{}
	inDelta := map[*ssa.BasicBlock]map[string]int{}
	reported := map[token.Pos]bool{}
	work := []frame{{fn.Blocks[0], 0, map[ssa.Value]bool{}}}
	steps := 0
	for len(work) > 0 && steps < 200000 {
		steps++
		f := work[len(work)-1]
		work = work[:len(work)-1]
		key := state{f.blk, f.delta, render(f.asm)}
		if seen[key] {
			continue
		}
		seen[key] = true
		// a block reached again with the same assumptions and another delta: a loop with a net change
		if inDelta[f.blk] == nil {
			inDelta[f.blk] = map[string]int{}
		}
		if d0, ok := inDelta[f.blk][key.asm]; ok && d0 != f.delta && len(f.blk.Preds) > 1 && !reported[f.blk.Instrs[0].Pos()] {
			// only loop headers: a predecessor that the block dominates
			for _, p := range f.blk.Preds {
				if f.blk.Dominates(p) {
					reported[f.blk.Instrs[0].Pos()] = true
					findings = append(findings, balanceFinding{nearestPos(f.blk.Instrs[0]), f.delta - d0, "a loop changes the level on every iteration"})
					break
				}
			}
			if reported[f.blk.Instrs[0].Pos()] {
				continue
			}
		} else if !ok {
			inDelta[f.blk][key.asm] = f.delta
		}
		delta := f.delta
		for _, ins := range f.blk.Instrs {
			if cs, ok := counterStepOf(ins); ok && cs.field == field {
				delta += cs.delta
			}
			if ret, ok := ins.(*ssa.Return); ok {
				if isErrorExit(ret) {
					continue
				}
				exits++
				if delta != 0 && !reported[ret.Pos()] {
					reported[ret.Pos()] = true
					findings = append(findings, balanceFinding{ret.Pos(), delta, "a non-error exit"})
				}
			}
		}
		last := f.blk.Instrs[len(f.blk.Instrs)-1]
		if ifi, ok := last.(*ssa.If); ok && trackable(ifi.Cond) {
			for si, s := range f.blk.Succs {
				want := si == 0
				if known, ok := f.asm[ifi.Cond]; ok && known != want {
					continue // infeasible: the same immutable condition was decided the other way
				}
				asm := map[ssa.Value]bool{}
				for k, v := range f.asm {
					asm[k] = v
				}
				asm[ifi.Cond] = want
				work = append(work, frame{s, delta, asm})
			}
			continue
		}
		for _, s := range f.blk.Succs {
			work = append(work, frame{s, delta, f.asm})
		}
	}
	return findings, exits
}

func ruleB1(c *Ctx, rule string, min int) {
	r := c.R
	r.Rule(rule, "a level counter raised and lowered by one method is unchanged on every non-error exit", min)
	for _, fn := range c.moduleFuncs() {
		inc, dec := map[string]bool{}, map[string]bool{}
		eachInstr(fn, func(ins ssa.Instruction) {
			if cs, ok := counterStepOf(ins); ok {
				if cs.delta > 0 {
					inc[cs.field] = true
				} else {
					dec[cs.field] = true
				}
			}
		})
		for f := range inc {
			if !dec[f] {
				continue
			}
			key := fmt.Sprintf("%s/%s", funcKey(fn), f)
			finds, exits := checkBalance(fn, f)
			if len(finds) == 0 {
				r.Discharge(rule, key, c.P.pos(fn.Pos()), fmt.Sprintf("net change 0 at all %d non-error exits, loops neutral", exits))
				continue
			}
			for _, bf := range finds {
				r.Finding(rule, key, c.P.pos(bf.pos), fmt.Sprintf("field %s is left changed by %+d at %s: the encoder is reused for the next document, so the level drifts (a negative level ends in strings.Repeat panicking, a positive one shifts every later document)", f, bf.delta, bf.what))
			}
		}
	}
}
