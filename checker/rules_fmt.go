package main

import (
	"fmt"
	"go/types"
	"strings"

	"golang.org/x/tools/go/ssa"
)

// Rule F1 — data is never a format string.
//
// In every Printf-family call of the module the format operand is a constant,
// or the call is one of a tabled few whose format is assembled from constants.
// A format built from document text (`fmt.Fprintf(w, line)`) rewrites every
// `%` in the data: for -o=shell that moves text outside the quotes.
//
// Rule F2 — bytes are not runes.
//
// A byte taken from a string (s[i]) that is converted to a rune and written
// with WriteRune re-encodes every byte >= 0x80 as a two-byte Latin-1 character:
// the output is no longer the input text.

var printfLike = map[string]int{ // callee -> index of the format operand
	"fmt.Printf": 0, "fmt.Sprintf": 0, "fmt.Errorf": 0, "fmt.Fprintf": 1,
	"(*github.com/op/go-logging.Logger).Debugf": 1, "(*github.com/op/go-logging.Logger).Infof": 1,
	"(*github.com/op/go-logging.Logger).Warningf": 1, "(*github.com/op/go-logging.Logger).Errorf": 1,
	"(*github.com/op/go-logging.Logger).Debug": -1,
}

// constantString: v is a string constant, or a concatenation of constants.
func isConstFormat(v ssa.Value) bool {
	switch x := v.(type) {
	case *ssa.Const:
		return true
	case *ssa.BinOp:
		return isConstFormat(x.X) && isConstFormat(x.Y)
	case *ssa.Phi:
		for _, e := range x.Edges {
			if !isConstFormat(e) {
				return false
			}
		}
		return true
	case *ssa.Extract:
		// a result of a module function that only ever returns constants there
		call, ok := x.Tuple.(*ssa.Call)
		if !ok {
			return false
		}
		callee := call.Call.StaticCallee()
		if callee == nil || callee.Blocks == nil {
			return false
		}
		n := 0
		for _, b := range callee.Blocks {
			if ret, ok := b.Instrs[len(b.Instrs)-1].(*ssa.Return); ok {
				if x.Index >= len(ret.Results) {
					return false
				}
				if _, isC := ret.Results[x.Index].(*ssa.Const); !isC {
					return false
				}
				n++
			}
		}
		return n > 0
	}
	return false
}

var f1Accepted = map[string]string{}

func ruleF1(c *Ctx, rule string, min int) {
	r := c.R
	r.Rule(rule, "the format operand of every Printf-family call is a constant", min)
	for _, fn := range c.moduleFuncs() {
		seen := map[string]int{}
		eachInstr(fn, func(ins ssa.Instruction) {
			call, ok := ins.(*ssa.Call)
			if !ok {
				return
			}
			name := calleeName(&call.Call)
			idx, ok := printfLike[name]
			if !ok || idx < 0 {
				return
			}
			if idx >= len(call.Call.Args) {
				return
			}
			key := fmt.Sprintf("%s/%s", funcKey(fn), shortCallee(name))
			seen[key]++
			if seen[key] > 1 {
				key = fmt.Sprintf("%s#%d", key, seen[key])
			}
			f := call.Call.Args[idx]
			if isConstFormat(f) {
				r.Discharge(rule, key, c.P.pos(call.Pos()), "constant format")
				return
			}
			if why, ok := f1Accepted[key]; ok {
				r.Discharge(rule, key, c.P.pos(call.Pos()), "accepted: "+why)
				return
			}
			r.Finding(rule, key, c.P.pos(call.Pos()), fmt.Sprintf("the format operand of %s is computed at run time (%s): a %% in the data is interpreted as a verb, so the written text differs from the data (`100%%` becomes `100%%!(NOVERB)`)", shortCallee(name), exprOfValue(f)))
		})
	}
}

func ruleF2(c *Ctx, rule string) {
	r := c.R
	r.Rule(rule, "no byte of a string is converted to a rune and written as a rune", 1)
	n := 0
	for _, fn := range c.moduleFuncs() {
		eachInstr(fn, func(ins ssa.Instruction) {
			call, ok := ins.(*ssa.Call)
			if !ok {
				return
			}
			name := calleeName(&call.Call)
			if !strings.HasSuffix(name, ").WriteRune") {
				return
			}
			n++
			arg := call.Call.Args[len(call.Call.Args)-1]
			key := fmt.Sprintf("%s/WriteRune(%s)", funcKey(fn), exprOfValue(arg))
			if src := byteOfString(arg, 0); src != nil {
				r.Finding(rule, key, c.P.pos(call.Pos()), fmt.Sprintf("the rune written is a single byte of a string (%s at %s): bytes >= 0x80 of multi-byte characters are re-encoded one by one, so non-ASCII text comes out as Latin-1 mojibake", exprOfValue(src), c.P.pos(src.Pos())))
			} else {
				r.Discharge(rule, key, c.P.pos(call.Pos()), "the rune comes from rune iteration / a constant / a rune-typed value")
			}
		})
	}
	if n == 0 {
		r.Discharge(rule, "module/no-WriteRune", "-", "no WriteRune call in the module")
	}
}

// byteOfString: v is (a conversion of) s[i] for a string s.
func byteOfString(v ssa.Value, d int) ssa.Value {
	if d > 4 {
		return nil
	}
	switch x := v.(type) {
	case *ssa.Convert:
		return byteOfString(x.X, d+1)
	case *ssa.Lookup:
		if b, ok := x.X.Type().Underlying().(*types.Basic); ok && b.Info()&types.IsString != 0 {
			return x
		}
	case *ssa.Index:
		if b, ok := x.X.Type().Underlying().(*types.Basic); ok && b.Info()&types.IsString != 0 {
			return x
		}
	case *ssa.UnOp:
		if ia, ok := x.X.(*ssa.IndexAddr); ok {
			if sl, ok := ia.X.Type().Underlying().(*types.Slice); ok {
				if b, ok := sl.Elem().Underlying().(*types.Basic); ok && b.Kind() == types.Uint8 {
					return x
				}
			}
		}
	case *ssa.Phi:
		for _, e := range x.Edges {
			if s := byteOfString(e, d+1); s != nil {
				return s
			}
		}
	}
	return nil
}
