package main

import (
	"go/token"
	"go/types"
	"sort"
	"strings"

	"golang.org/x/tools/go/callgraph"
	"golang.org/x/tools/go/ssa"
	"golang.org/x/tools/go/ssa/ssautil"
)

// moduleFuncs lists every source-level SSA function of the module (functions,
// methods, closures), sorted by name, skipping synthetic wrappers.
func (c *Ctx) moduleFuncs() []*ssa.Function {
	c.P.buildSSA()
	if c.modFuncs != nil {
		return c.modFuncs
	}
	var out []*ssa.Function
	for fn := range ssautil.AllFunctions(c.P.SSA) {
		if fn.Synthetic != "" || fn.Blocks == nil {
			continue
		}
		root := fn
		for root.Parent() != nil {
			root = root.Parent()
		}
		if root.Pkg == nil || !c.P.isModulePath(root.Pkg.Pkg.Path()) {
			continue
		}
		// github.com/mikefarah/yq/v4/test holds helpers used only by _test files
		if strings.HasSuffix(root.Pkg.Pkg.Path(), "/test") {
			continue
		}
		// generic instantiations: keep the origin only
		if fn.Origin() != nil && fn.Origin() != fn {
			continue
		}
		out = append(out, fn)
	}
	sort.Slice(out, func(i, j int) bool {
		a, b := funcKey(out[i]), funcKey(out[j])
		if a != b {
			return a < b
		}
		return out[i].Pos() < out[j].Pos()
	})
	c.modFuncs = out
	return out
}

// funcKey: package-qualified stable name ("yqlib.sortableNodeArray.compare",
// "cmd.evaluateSequence$1").
func funcKey(fn *ssa.Function) string {
	root := fn
	for root.Parent() != nil {
		root = root.Parent()
	}
	pk := ""
	if root.Pkg != nil {
		pk = root.Pkg.Pkg.Name() + "."
	}
	return pk + ssaFuncName(fn)
}

func funcPkgPath(fn *ssa.Function) string {
	root := fn
	for root.Parent() != nil {
		root = root.Parent()
	}
	if root.Pkg == nil {
		if fn.Object() != nil && fn.Object().Pkg() != nil {
			return fn.Object().Pkg().Path()
		}
		return ""
	}
	return root.Pkg.Pkg.Path()
}

// calleeName gives a qualified name of what a call invokes statically:
// "os.Rename", "(*os.File).Write", "(encoding/csv.Writer).Flush" ... or, for
// interface calls, "iface:(pkg.Iface).Method". "" for dynamic func values.
func calleeName(cc *ssa.CallCommon) string {
	if cc.IsInvoke() {
		recv := cc.Value.Type()
		return "iface:(" + types.TypeString(recv, nil) + ")." + cc.Method.Name()
	}
	if b, ok := cc.Value.(*ssa.Builtin); ok {
		return "builtin." + b.Name()
	}
	fn := cc.StaticCallee()
	if fn == nil {
		return ""
	}
	return qualifiedFuncName(fn)
}

func qualifiedFuncName(fn *ssa.Function) string {
	if fn.Origin() != nil {
		fn = fn.Origin()
	}
	if recv := fn.Signature.Recv(); recv != nil {
		return "(" + types.TypeString(recv.Type(), nil) + ")." + fn.Name()
	}
	if fn.Parent() != nil {
		return qualifiedFuncName(fn.Parent()) + "$" + fn.Name()
	}
	p := funcPkgPath(fn)
	if p == "" {
		return fn.Name()
	}
	return p + "." + fn.Name()
}

// callInstr returns the CallCommon of call/defer/go instructions.
func callCommon(ins ssa.Instruction) *ssa.CallCommon {
	switch x := ins.(type) {
	case *ssa.Call:
		return &x.Call
	case *ssa.Defer:
		return &x.Call
	case *ssa.Go:
		return &x.Call
	}
	return nil
}

// eachInstr visits every instruction of fn.
func eachInstr(fn *ssa.Function, f func(ssa.Instruction)) {
	for _, b := range fn.Blocks {
		for _, ins := range b.Instrs {
			f(ins)
		}
	}
}

// reachableFrom returns the module functions reachable from roots in g.
func reachableFrom(g *callgraph.Graph, roots []*ssa.Function, keep func(*ssa.Function) bool) map[*ssa.Function]*ssa.Function {
	parent := map[*ssa.Function]*ssa.Function{}
	var work []*ssa.Function
	for _, r := range roots {
		if r == nil {
			continue
		}
		if _, ok := parent[r]; !ok {
			parent[r] = nil
			work = append(work, r)
		}
	}
	for len(work) > 0 {
		fn := work[0]
		work = work[1:]
		n := g.Nodes[fn]
		if n == nil {
			continue
		}
		for _, e := range n.Out {
			cal := e.Callee.Func
			if cal == nil {
				continue
			}
			if _, ok := parent[cal]; ok {
				continue
			}
			if keep != nil && !keep(cal) {
				continue
			}
			parent[cal] = fn
			work = append(work, cal)
		}
	}
	return parent
}

func pathTo(parent map[*ssa.Function]*ssa.Function, fn *ssa.Function) string {
	var parts []string
	for f := fn; f != nil; f = parent[f] {
		parts = append(parts, funcKey(f))
		if len(parts) > 30 {
			break
		}
	}
	for i, j := 0, len(parts)-1; i < j; i, j = i+1, j-1 {
		parts[i], parts[j] = parts[j], parts[i]
	}
	return strings.Join(parts, " -> ")
}

// isIntegerType: int, int64, uint ... (not float).
func isIntegerType(t types.Type) bool {
	b, ok := t.Underlying().(*types.Basic)
	return ok && b.Info()&types.IsInteger != 0
}

func isNumericType(t types.Type) bool {
	b, ok := t.Underlying().(*types.Basic)
	return ok && b.Info()&(types.IsInteger|types.IsFloat) != 0
}

func isConst(v ssa.Value) bool {
	_, ok := v.(*ssa.Const)
	return ok
}

func isZeroConst(v ssa.Value) bool {
	if n, ok := constInt64(v); ok {
		return n == 0
	}
	return false
}

func isOrderOp(op token.Token) bool {
	return op == token.LSS || op == token.GTR || op == token.LEQ || op == token.GEQ
}

// flowsTo follows v through conversions/phis and calls visit on each use.
func flowUses(v ssa.Value, depth int, seen map[ssa.Value]bool, visit func(ssa.Instruction, ssa.Value)) {
	if depth > 8 || seen[v] || v.Referrers() == nil {
		return
	}
	seen[v] = true
	for _, ref := range *v.Referrers() {
		visit(ref, v)
		switch x := ref.(type) {
		case *ssa.Convert:
			flowUses(x, depth+1, seen, visit)
		case *ssa.ChangeType:
			flowUses(x, depth+1, seen, visit)
		case *ssa.Phi:
			flowUses(x, depth+1, seen, visit)
		case *ssa.MakeInterface:
			flowUses(x, depth+1, seen, visit)
		case *ssa.Store:
			if x.Val == v {
				if al, ok := x.Addr.(*ssa.Alloc); ok && al.Referrers() != nil {
					for _, r2 := range *al.Referrers() {
						if u, ok := r2.(*ssa.UnOp); ok && u.Op == token.MUL {
							flowUses(u, depth+1, seen, visit)
						}
					}
				}
			}
		}
	}
}

// dominatingConds calls f for each (condition, branchTaken) that dominates blk
// exclusively (the successor has the branching block as single predecessor).
func dominatingConds(blk *ssa.BasicBlock, f func(cond ssa.Value, taken bool, at *ssa.BasicBlock)) {
	for d := blk.Idom(); d != nil; d = d.Idom() {
		ifi, ok := d.Instrs[len(d.Instrs)-1].(*ssa.If)
		if !ok {
			continue
		}
		for si, s := range d.Succs {
			if soleEntry(s, d) && s.Dominates(blk) && d.Succs[0] != d.Succs[1] {
				f(ifi.Cond, si == 0, d)
			}
		}
	}
}

// pathAvoiding reports whether `to` is reachable from `from` without
// passing through an instruction for which barrier returns true. Barrier
// instructions inside `from` before index fromIdx are ignored; instructions in
// `to` after toIdx are ignored.
func pathAvoiding(fn *ssa.Function, from *ssa.BasicBlock, fromIdx int, to *ssa.BasicBlock, toIdx int, barrier func(ssa.Instruction) bool) bool {
	blockedUpTo := func(b *ssa.BasicBlock, lo, hi int) bool {
		for i := lo; i < hi && i < len(b.Instrs); i++ {
			if barrier(b.Instrs[i]) {
				return true
			}
		}
		return false
	}
	if from == to && fromIdx <= toIdx {
		if !blockedUpTo(from, fromIdx, toIdx) {
			return true
		}
	}
	if blockedUpTo(from, fromIdx, len(from.Instrs)) {
		return false
	}
	seen := map[*ssa.BasicBlock]bool{}
	var walk func(b *ssa.BasicBlock) bool
	walk = func(b *ssa.BasicBlock) bool {
		if b == to {
			if !blockedUpTo(b, 0, toIdx) {
				return true
			}
			// cannot pass through `to` to reach it again unblocked
			return false
		}
		if seen[b] {
			return false
		}
		seen[b] = true
		if blockedUpTo(b, 0, len(b.Instrs)) {
			return false
		}
		for _, s := range b.Succs {
			if walk(s) {
				return true
			}
		}
		return false
	}
	for _, s := range from.Succs {
		if walk(s) {
			return true
		}
	}
	return false
}

func instrIndex(ins ssa.Instruction) int {
	for i, x := range ins.Block().Instrs {
		if x == ins {
			return i
		}
	}
	return -1
}

// staticReach: functions reachable through static calls, closures created and
// function values referenced (no dynamic dispatch), within the module.
func staticReach(c *Ctx, roots []*ssa.Function, barrier func(*ssa.Function) bool) map[*ssa.Function]*ssa.Function {
	parent := map[*ssa.Function]*ssa.Function{}
	var work []*ssa.Function
	push := func(f, from *ssa.Function) {
		if f == nil || f.Blocks == nil {
			return
		}
		if _, ok := parent[f]; ok {
			return
		}
		if !c.P.isModulePath(funcPkgPath(f)) || (barrier != nil && barrier(f)) {
			return
		}
		parent[f] = from
		work = append(work, f)
	}
	for _, r := range roots {
		push(r, nil)
	}
	for len(work) > 0 {
		fn := work[0]
		work = work[1:]
		eachInstr(fn, func(ins ssa.Instruction) {
			if cc := callCommon(ins); cc != nil {
				push(cc.StaticCallee(), fn)
			}
			for _, op := range ins.Operands(nil) {
				if op == nil || *op == nil {
					continue
				}
				switch v := (*op).(type) {
				case *ssa.Function:
					push(v, fn)
				case *ssa.MakeClosure:
					if f, ok := v.Fn.(*ssa.Function); ok {
						push(f, fn)
					}
				}
			}
			if mc, ok := ins.(*ssa.MakeClosure); ok {
				if f, ok := mc.Fn.(*ssa.Function); ok {
					push(f, fn)
				}
			}
		})
	}
	return parent
}

// returnedValue resolves the idx-th operand of a Return. In functions with
// defers and named results go/ssa spills results: the operand is a load of the
// result cell and the value is the last store to that cell before the return.
func returnedValue(ret *ssa.Return, idx int) ssa.Value {
	if idx >= len(ret.Results) {
		return nil
	}
	v := ret.Results[idx]
	u, ok := v.(*ssa.UnOp)
	if !ok || u.Op != token.MUL {
		return v
	}
	al, ok := u.X.(*ssa.Alloc)
	if !ok {
		return v
	}
	// walk back from the return through single-predecessor blocks
	for b := ret.Block(); b != nil; {
		for i := len(b.Instrs) - 1; i >= 0; i-- {
			if st, ok := b.Instrs[i].(*ssa.Store); ok && st.Addr == al {
				return st.Val
			}
		}
		if len(b.Preds) != 1 {
			break
		}
		b = b.Preds[0]
	}
	return v
}

// soleEntry: control enters block s only through the edge from d (all other
// predecessors of s are dominated by s itself, i.e. they are loop back edges).
func soleEntry(s, d *ssa.BasicBlock) bool {
	n := 0
	for _, p := range s.Preds {
		if p == d {
			n++
			continue
		}
		if !s.Dominates(p) {
			return false
		}
	}
	return n == 1
}
