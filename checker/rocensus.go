package main

import (
	"fmt"
	"go/token"
	"go/types"
	"sort"
	"strings"

	"golang.org/x/tools/go/ssa"
)

// Census of the places where a handler (or helper) evaluates a user
// sub-expression, and under which kind of context: read-only (the context is
// the result of ReadOnlyClone / SingleReadonlyChildContext), writable
// (WritableClone), or inherited from the caller.

type evalSite struct {
	Fn      *ssa.Function
	Instr   ssa.Instruction
	Callee  string
	Operand string // LHS | RHS | node | RHS.RHS ...
	Mode    string // RO | W | inherit | other
	Key     string
}

func exprOperand(v ssa.Value, depth int) (string, bool) {
	if depth > 6 {
		return "", false
	}
	switch x := v.(type) {
	case *ssa.Parameter:
		if namedTypeName(x.Type()) == "ExpressionNode" {
			return "node", true
		}
	case *ssa.FreeVar:
		if namedTypeName(x.Type()) == "ExpressionNode" {
			return "node", true
		}
	case *ssa.UnOp:
		if x.Op == token.MUL {
			if fa, ok := x.X.(*ssa.FieldAddr); ok && namedTypeName(fa.X.Type()) == "ExpressionNode" {
				base, ok := exprOperand(fa.X, depth+1)
				if !ok {
					return "", false
				}
				fn := fieldName(fa)
				if base == "node" {
					return fn, true
				}
				return base + "." + fn, true
			}
			if al, ok := x.X.(*ssa.Alloc); ok {
				for _, r := range *al.Referrers() {
					if st, ok := r.(*ssa.Store); ok && st.Addr == al {
						if s, ok := exprOperand(st.Val, depth+1); ok {
							return s, true
						}
					}
				}
			}
		}
	case *ssa.Phi:
		for _, e := range x.Edges {
			if s, ok := exprOperand(e, depth+1); ok {
				return s, true
			}
		}
	}
	return "", false
}

func ctxMode(v ssa.Value, depth int) string {
	if depth > 8 {
		return "other"
	}
	switch x := v.(type) {
	case *ssa.Parameter, *ssa.FreeVar:
		return "inherit"
	case *ssa.Call:
		if cal := x.Call.StaticCallee(); cal != nil {
			switch cal.Name() {
			case "ReadOnlyClone", "SingleReadonlyChildContext":
				return "RO"
			case "WritableClone":
				return "W"
			case "SingleChildContext", "ChildContext", "Clone", "DeepClone":
				if len(x.Call.Args) > 0 {
					return ctxMode(x.Call.Args[0], depth+1)
				}
			}
		}
		return "other"
	case *ssa.Extract:
		// context returned by an evaluation: it carries the mode of the evaluation's input
		if call, ok := x.Tuple.(*ssa.Call); ok && isGetMatchingNodes(&call.Call) {
			if call.Call.IsInvoke() {
				return ctxMode(call.Call.Args[0], depth+1)
			}
			return ctxMode(call.Call.Args[1], depth+1)
		}
		return "other"
	case *ssa.UnOp:
		if x.Op == token.MUL {
			return ctxMode(x.X, depth+1)
		}
	case *ssa.Alloc:
		// local Context variable: the modes of everything stored into it
		modes := map[string]bool{}
		for _, r := range *x.Referrers() {
			if st, ok := r.(*ssa.Store); ok && st.Addr == ssa.Value(x) {
				modes[ctxMode(st.Val, depth+1)] = true
			}
		}
		if len(modes) == 1 {
			for m := range modes {
				return m
			}
		}
		if modes["W"] {
			return "W"
		}
		if len(modes) > 1 && modes["RO"] && !modes["inherit"] && !modes["other"] {
			return "RO"
		}
		if len(modes) == 0 {
			return "other"
		}
		return "inherit"
	case *ssa.Phi:
		m := ""
		for _, e := range x.Edges {
			em := ctxMode(e, depth+1)
			if m == "" {
				m = em
			} else if m != em {
				return "inherit"
			}
		}
		return m
	case *ssa.FieldAddr:
		return ctxMode(x.X, depth+1)
	}
	return "other"
}

func evalCensus(c *Ctx) []*evalSite {
	var out []*evalSite
	seen := map[string]int{}
	for _, fn := range c.moduleFuncs() {
		if funcPkgPath(fn) != c.P.LibPath {
			continue
		}
		eachInstr(fn, func(ins ssa.Instruction) {
			cc := callCommon(ins)
			if cc == nil {
				return
			}
			args := cc.Args
			var ctxArg, exprArg ssa.Value
			name := ""
			if isGetMatchingNodes(cc) {
				name = "GetMatchingNodes"
				if cc.IsInvoke() {
					ctxArg, exprArg = args[0], args[1]
				} else {
					ctxArg, exprArg = args[1], args[2]
				}
			} else if cal := cc.StaticCallee(); cal != nil && c.P.isModulePath(funcPkgPath(cal)) {
				for _, a := range args {
					switch namedTypeName(a.Type()) {
					case "Context":
						if _, isPtr := a.Type().Underlying().(*types.Pointer); !isPtr && ctxArg == nil {
							ctxArg = a
						}
					case "ExpressionNode":
						if exprArg == nil {
							exprArg = a
						}
					}
				}
				name = cal.Name()
			}
			if ctxArg == nil || exprArg == nil {
				return
			}
			operand, ok := exprOperand(exprArg, 0)
			if !ok {
				return
			}
			s := &evalSite{Fn: fn, Instr: ins, Callee: name, Operand: operand, Mode: ctxMode(ctxArg, 0)}
			k := fmt.Sprintf("%s/%s(%s)", funcKey(fn), name, operand)
			seen[k]++
			if seen[k] > 1 {
				k = fmt.Sprintf("%s#%d", k, seen[k])
			}
			s.Key = k
			out = append(out, s)
		})
	}
	sort.Slice(out, func(i, j int) bool { return out[i].Key < out[j].Key })
	return out
}

func dumpCensus(c *Ctx) {
	n := map[string]int{}
	for _, s := range evalCensus(c) {
		n[s.Mode]++
		fmt.Printf("%-8s %-90s %s\n", s.Mode, s.Key, c.P.pos(s.Instr.Pos()))
	}
	fmt.Println(n)
	var keys []string
	for _, s := range evalCensus(c) {
		if s.Mode == "RO" {
			keys = append(keys, s.Key)
		}
	}
	fmt.Println("// ---- Go table ----")
	for _, k := range keys {
		fmt.Printf("\t%q: true,\n", strings.TrimSpace(k))
	}
}
