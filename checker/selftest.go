package main

import (
	"fmt"
	"os"
	"path/filepath"
	"sort"
	"strings"

	"golang.org/x/tools/go/ssa"
)

// Non-vacuity: before a verdict is given, the generic rules are run on the
// fixture package testdata/bad, which holds one seeded instance of every
// violation pattern whose expected count on the real tree is zero. A rule that
// fails to fire there has gone blind; the run then ends with exit 2.

type selfExpect struct {
	rule string
	key  string // substring of the obligation key
}

func fixtureDir() string {
	if d := os.Getenv("YQCHECK_FIXTURE"); d != "" {
		return d
	}
	exe, err := os.Executable()
	if err == nil {
		// <verif>/bin/yqcheck -> <verif>/checker
		d := filepath.Join(filepath.Dir(filepath.Dir(exe)), "checker")
		if _, err := os.Stat(filepath.Join(d, "testdata", "bad", "bad.go")); err == nil {
			return d
		}
	}
	return "/verif/checker"
}

// selfTest returns the list of problems (empty = every rule fired).
func selfTest() (problems []string, fired int) {
	dir := fixtureDir()
	p, err := loadProg(dir, "", "./testdata/bad")
	if err != nil {
		return []string{"cannot load fixture package: " + err.Error()}, 0
	}
	var fix string
	for path := range p.All {
		if strings.HasSuffix(path, "testdata/bad") {
			fix = path
		}
	}
	if fix == "" {
		return []string{"fixture package not among the loaded packages"}, 0
	}
	p.LibPath = fix
	r := newReport("selftest", "quick", 0)
	c := &Ctx{P: p, R: r, noTables: true}
	p.buildSSA()

	// error discipline
	for _, fn := range c.moduleFuncs() {
		for _, s := range errorDroppedSites(c, fn) {
			r.Finding("E1d", s.Key, "-", s.Desc)
		}
		for _, s := range errorSwallowedSites(c, fn) {
			r.Finding("E1s", s.Key, "-", s.Desc)
		}
		for _, s := range recoverLostSites(c, fn) {
			r.Finding("E1r", s.Key, "-", s.Desc)
		}
	}
	ruleE2(c, "E2")
	// comparators
	var less []*ssa.Function
	for _, fn := range c.moduleFuncs() {
		if fn.Name() == "Less" {
			less = append(less, fn)
		}
		eachInstr(fn, func(ins ssa.Instruction) {
			if bo, ok := ins.(*ssa.BinOp); ok && isDifference(bo) {
				if why := signDecides(c, fn, bo); why != "" {
					r.Finding("O1", funcKey(fn), "-", why)
				}
			}
		})
	}
	for fn := range staticReach(c, less, nil) {
		eachInstr(fn, func(ins ssa.Instruction) {
			if _, ok := ins.(*ssa.Panic); ok {
				r.Finding("O2", funcKey(fn), "-", "panic reachable from Less")
			}
		})
	}
	ruleO3(c)
	// panics
	ruleP1(c)
	ruleP4(c)
	ruleP5(c)
	ruleL1(c, "L1", 0)
	rulePF(c, "PF", 0)
	ruleP8(c, "P8", 0)
	ruleB1(c, "B1", 0)
	ruleF1(c, "F1", 0)
	ruleF2(c, "F2")
	ruleK1w(c, "K1w", 0)
	for _, fn := range c.moduleFuncs() {
		for _, s := range errorTestedAfterValueSites(c, fn) {
			r.Finding("E1v", s.Key, "-", s.Desc)
		}
	}
	ruleP11(c, "P11")
	ruleA10(c, "A10")
	ruleG11(c, "G11")
	ruleW4b(c, "W4b")
	// json
	ruleJ124(c)
	// map order
	ruleG5(c)
	// engine E1
	m := newMutFX(c)
	m.run()
	if !m.converged {
		problems = append(problems, "E1 did not converge on the fixture")
	}
	for _, fn := range m.funcs {
		s := m.sums[fn]
		for _, e := range s.muts {
			if e.Class == "node" && e.Base.o.kind == kParam {
				r.Finding("X1", funcKey(fn), "-", "node store on "+e.Base.String())
			}
			if e.Base.o.kind == kGlobal {
				r.Finding("G1", funcKey(fn), "-", "global store")
			}
		}
	}

	expect := []selfExpect{
		{"E1d", "Drops"}, {"E1s", "Swallows"}, {"E1r", "RecoverLost"},
		{"E2", "Unflushed/"}, {"E2", "UnflushedBuf"},
		{"O1", "cmp"}, {"O2", "cmp"}, {"O3", "sort.Slice"},
		{"P1", "DynamicRegex"}, {"P1", "ExplicitPanic"}, {"P1", "cmp/panic"},
		{"P4", "UnguardedIndex/s:index const 0"}, {"P4", "UnguardedIndex/s:index len-1"},
		{"P5", "Divide"}, {"P5", "Repeat"}, {"L1", "StaleLength"}, {"P4v", "VarIndexUnbounded"}, {"P4v", "VarIndexOtherLen"}, {"PF", "DropsPrefs"}, {"P8", "UsesResultOnLetThroughError"}, {"B1", "LeaksLevel"}, {"F1", "FormatsData"}, {"F2", "BytesAsRunes"}, {"K1w", "AdoptsChildren"},
		{"J1", "EscapesHTML"}, {"J2", "LossyNumber"}, {"J4", "IntoMap"},
		{"G5", "MapOrder"},
		{"X1", "MutatesInput"}, {"G1", "WritesGlobal"},
		{"E1s", "SwallowsByBreak"}, {"E1v", "ValueBeforeError"}, {"P11", "FollowsAliasDeep"}, {"PF", "OverridesPrefsForRecursion"},
		{"A10", "FreshAnchorTable"}, {"G11", "ReadsFlagForOutput"}, {"W4b", "NarrowsMode"},
	}
	mustNot := []selfExpect{{"P8", "UsesResultAfterFullCheck"}, {"B1", "KeepsLevel"}, {"F2", "RunesAsRunes"}, {"K1w", "FiltersOwnChildren"}, {"P4v", "VarIndexRange"}, {"PF", "ForwardsPrefs"}, {"L1", "FreshLength"}, {"X1", "MutatesCopy"}, {"P4", "GuardedIndex"}, {"X1", "CandidateNode.Copy"}, {"P11", "FollowsAliasGuarded"}, {"G11", "PrintedAnything"}, {"G11", "ResultsPrinter.Note"}, {"E1s", "ValueBeforeError"}}
	have := map[string][]string{}
	for _, o := range r.obligs {
		if o.Verdict == "finding" {
			have[o.Rule] = append(have[o.Rule], o.Key)
		}
	}
	for _, e := range expect {
		ok := false
		for _, k := range have[e.rule] {
			if strings.Contains(k, e.key) {
				ok = true
			}
		}
		if ok {
			fired++
		} else {
			ks := have[e.rule]
			sort.Strings(ks)
			problems = append(problems, fmt.Sprintf("rule %s did not fire on its seeded instance %q in the fixture (fired on: %v)", e.rule, e.key, ks))
		}
	}
	for _, e := range mustNot {
		for _, k := range have[e.rule] {
			if strings.Contains(k, e.key) {
				problems = append(problems, fmt.Sprintf("rule %s fired on the clean fixture function %q (%s): false-positive regression", e.rule, e.key, k))
			}
		}
	}
	return problems, fired
}
