package main

import (
	"fmt"
	"go/constant"
	"golang.org/x/tools/go/ssa"
	"regexp"
	"regexp/syntax"
	"sort"
	"strings"
)

// C09 — precedence, grouping, layout. Engine E2 over the operator table, the
// lexer rule table and the shunting-yard loop condition.

func init() {
	register("C09", "Decides structural necessary conditions of 'an expression means the same as its parenthesised form; layout does not matter; malformed input is rejected': (T0) the shunting-yard pops only on strictly greater precedence, read from its loop condition; (T1) every nullary operator a lexer rule can emit binds tighter than every infix operator; (T2) every one-argument prefix function binds tighter than every infix operator and than the two implicit operators inserted after its ')' (SHORT_PIPE, TRAVERSE_ARRAY); (T3) every token flagged CheckForPostTraverse binds tighter than both implicit operators; (T4) the order induced by Precedence on the infix operators equals the reference order of the documented precedence table; (T5) layout: whitespace class contains space/tab/LF, a dropping comment rule exists, no rule is nullable, and a layout character ends a bare path token; (T6) the bracket-matching and arity guards of ConvertToPostfix/createExpressionTree keep their rejection regions (interval reasoning over len(stack)). (T9) a token whose lexeme ends with ')' is flagged CheckForPostTraverse like the ')' token (four known findings). Does NOT decide that both spellings evaluate equally on every input.", runC09)
}

// T4 reference: the precedence table as an order on classes (lowest first).
// It is a relation, not numbers: renumbering that keeps the order is silent.
var c09ReferenceOrder = [][]string{
	{"UNION", "BLOCK"},
	{"CREATE_MAP"},
	{"OR", "AND"},
	{"PIPE"},
	{"REDUCE"},
	{"ASSIGN", "ADD_ASSIGN", "SUBTRACT_ASSIGN", "ASSIGN_ATTRIBUTES", "ASSIGN_STYLE", "ASSIGN_VARIABLE", "ASSIGN_TAG", "ASSIGN_COMMENT", "ASSIGN_ANCHOR", "ASSIGN_ALIAS", "EQUALS", "NOT_EQUALS", "COMPARE"},
	{"MULTIPLY", "MULTIPLY_ASSIGN", "DIVIDE", "MODULO", "ADD", "SUBTRACT", "ALTERNATIVE"},
	{"SHORT_PIPE"},
	{"TRAVERSE_ARRAY"},
}

type emitted struct {
	op    *OpType
	rules []int // lexer rule indices
	flag  bool  // some rule emits it with CheckForPostTraverse possibly true
	via   string
}

func runC09(c *Ctx) {
	r := c.R
	if !c.tables() {
		return
	}
	r.Rule("T0", "shunting-yard pops only on strictly greater precedence", 1)
	r.Rule("T1", "nullary operators outrank every infix operator", 40)
	r.Rule("T2", "prefix functions outrank every infix operator and both implicit post-traverse operators", 30)
	r.Rule("T3", "tokens flagged CheckForPostTraverse outrank both implicit operators", 30)
	r.Rule("T4", "infix precedence order equals the reference order", 200)
	r.Rule("T5", "layout: whitespace/comment rules, no nullable rule, layout character ends a bare path token", 150)
	r.Rule("T6", "bracket/arity guards keep their rejection regions", 8)

	for _, lr := range c.Lex.Rules {
		if lr.Problem != "" {
			r.Undecided("T5", fmt.Sprintf("rule[%q]", lr.Pattern), c.P.pos(lr.Pos), "lexer rule not resolvable: "+lr.Problem)
		}
	}

	// what the lexer can emit
	em := map[*OpType]*emitted{}
	add := func(o *OpType, idx int, flag bool, via string) {
		e := em[o]
		if e == nil {
			e = &emitted{op: o, via: via}
			em[o] = e
		}
		e.rules = append(e.rules, idx)
		if flag {
			e.flag = true
		}
	}
	for _, lr := range c.Lex.Rules {
		for _, t := range lr.Tokens {
			for _, o := range t.Ops {
				flag := t.Flag == "true"
				if t.Flag == "bytype" {
					for _, fo := range t.FlagOps {
						if fo.Check {
							flag = true
						}
					}
				}
				add(o, lr.Index, flag, "lexer rule")
			}
			for _, o := range t.AssignOps {
				add(o, lr.Index, false, "assign form of lexer rule")
			}
		}
	}
	// operators inserted by post-processing / postfix conversion are found
	// structurally: any *operationType global referenced from handleToken or
	// ConvertToPostfix in an `&Operation{OperationType: X}` literal.
	implicit := implicitOps(c)
	shortPipe, travArr := c.Ops.byType("SHORT_PIPE"), c.Ops.byType("TRAVERSE_ARRAY")
	if shortPipe == nil || travArr == nil {
		r.Fatal("anchor missing: operation types SHORT_PIPE / TRAVERSE_ARRAY")
		return
	}
	if !implicit[shortPipe] || !implicit[travArr] {
		r.Fatal("anchor moved: handleToken no longer inserts SHORT_PIPE and TRAVERSE_ARRAY after CheckForPostTraverse tokens")
		return
	}
	impl := []*OpType{shortPipe, travArr}

	var infix []*OpType
	var list []*emitted
	for _, e := range em {
		list = append(list, e)
	}
	sort.Slice(list, func(i, j int) bool { return list[i].op.VarName < list[j].op.VarName })
	for _, e := range list {
		if e.op.NumArgs == 2 {
			infix = append(infix, e.op)
		}
	}
	maxInfix := int64(-1)
	var maxInfixOp *OpType
	for _, o := range infix {
		if o.Precedence > maxInfix {
			maxInfix, maxInfixOp = o.Precedence, o
		}
	}
	r.Analysed["infix_emitted"] = len(infix)
	r.Analysed["max_infix_precedence"] = maxInfix

	// T0
	checkT0(c)
	checkT5c(c)
	checkT8(c)
	ruleT9(c, "T9")
	r.Rule("T6f", "the implied slice start is supplied only after `.[`", 1)
	ruleT6f(c, "T6f")

	// T7: every binary operator that token post-processing inserts between a
	// token and the traversal that follows it binds tighter than every infix
	// operator an expression can spell; otherwise `a OP (x).[i]` groups as
	// `(a OP (x)) . [i]`.
	r.Rule("T7", "implicit binary operators inserted by token post-processing outrank every written infix operator", 2)
	emittedInfix := map[*OpType]bool{}
	for _, o := range infix {
		emittedInfix[o] = true
	}
	n7 := 0
	for _, s := range implicitOpSites(c, "handleToken") {
		if s.op.NumArgs != 2 {
			continue
		}
		n7++
		key := fmt.Sprintf("handleToken/inserts(%s)#%d", s.op.Type, n7)
		var worse []string
		for _, i := range infix {
			if i != s.op && i.Precedence >= s.op.Precedence {
				worse = append(worse, i.Type)
			}
		}
		if len(worse) == 0 {
			r.Discharge("T7", key, c.P.pos(s.pos), fmt.Sprintf("precedence %d above every written infix operator (max %d)", s.op.Precedence, maxInfix))
		} else {
			sort.Strings(worse)
			if len(worse) > 6 {
				worse = append(worse[:6], "…")
			}
			r.Finding("T7", key, c.P.pos(s.pos), fmt.Sprintf("handleToken inserts %s (precedence %d) as the implicit operator before a following traversal; written infix operators %s bind at least as tightly, so `a OP (x).[i]` no longer means `a OP ((x).[i])`", s.op.Type, s.op.Precedence, strings.Join(worse, ",")))
		}
	}

	// T1, T2, T3
	for _, e := range list {
		o := e.op
		key := o.Type + "(" + o.VarName + ")"
		switch o.NumArgs {
		case 0:
			if o.Precedence > maxInfix {
				r.Discharge("T1", key, c.P.pos(o.Pos), fmt.Sprintf("precedence %d > every infix operator (max %d, %s)", o.Precedence, maxInfix, maxInfixOp.Type))
			} else {
				var worse []string
				for _, i := range infix {
					if i.Precedence >= o.Precedence {
						worse = append(worse, i.Type)
					}
				}
				r.Finding("T1", key, c.P.pos(o.Pos), fmt.Sprintf("nullary operator has precedence %d, not above infix %s: `x OP y` with this atom as operand differs from `(atom) OP y`", o.Precedence, strings.Join(worse, ",")))
			}
		case 1:
			var worse []string
			for _, i := range infix {
				if i.Precedence >= o.Precedence {
					worse = append(worse, i.Type)
				}
			}
			for _, i := range impl {
				if i.Precedence >= o.Precedence {
					worse = append(worse, i.Type+"(implicit)")
				}
			}
			if len(worse) == 0 {
				r.Discharge("T2", key, c.P.pos(o.Pos), fmt.Sprintf("precedence %d above all infix (max %d) and implicit operators (%d,%d)", o.Precedence, maxInfix, shortPipe.Precedence, travArr.Precedence))
			} else {
				sort.Strings(worse)
				r.Finding("T2", key, c.P.pos(o.Pos), fmt.Sprintf("prefix function has precedence %d, not above %s: `f(a) OP b` parses as `f((a) OP b)`", o.Precedence, strings.Join(uniq(worse), ",")))
			}
		}
		if e.flag {
			var worse []string
			for _, i := range impl {
				if i.Precedence >= o.Precedence {
					worse = append(worse, i.Type)
				}
			}
			if len(worse) == 0 {
				r.Discharge("T3", key, c.P.pos(o.Pos), fmt.Sprintf("flagged token, precedence %d above SHORT_PIPE %d and TRAVERSE_ARRAY %d", o.Precedence, shortPipe.Precedence, travArr.Precedence))
			} else {
				r.Finding("T3", key, c.P.pos(o.Pos), fmt.Sprintf("token flagged CheckForPostTraverse has precedence %d, not above %s: `x[k]`/`x.k` differs from `(x)[k]`", o.Precedence, strings.Join(worse, ",")))
			}
		}
	}

	// T4
	class := map[string]int{}
	for i, cl := range c09ReferenceOrder {
		for _, t := range cl {
			class[t] = i
		}
	}
	var refOps []*OpType
	seenType := map[string]bool{}
	for _, o := range append(append([]*OpType{}, infix...), impl...) {
		if seenType[o.Type] {
			continue
		}
		seenType[o.Type] = true
		if _, ok := class[o.Type]; ok {
			refOps = append(refOps, o)
		} else {
			r.Note("T4: infix operator %s (precedence %d) is not in the reference order; not judged", o.Type, o.Precedence)
		}
	}
	sort.Slice(refOps, func(i, j int) bool { return refOps[i].Type < refOps[j].Type })
	sgn := func(x int64) int {
		if x < 0 {
			return -1
		} else if x > 0 {
			return 1
		}
		return 0
	}
	for i := 0; i < len(refOps); i++ {
		for j := i + 1; j < len(refOps); j++ {
			a, b := refOps[i], refOps[j]
			want := sgn(int64(class[a.Type] - class[b.Type]))
			got := sgn(a.Precedence - b.Precedence)
			key := a.Type + "~" + b.Type
			if want == got {
				r.Discharge("T4", key, c.P.pos(a.Pos), fmt.Sprintf("%d vs %d agrees with the reference order", a.Precedence, b.Precedence))
			} else {
				rel := map[int]string{-1: "below", 0: "equal to", 1: "above"}
				r.Finding("T4", key, c.P.pos(a.Pos), fmt.Sprintf("%s (precedence %d) must bind %s %s (precedence %d) per the precedence table, but is %s", a.Type, a.Precedence, rel[want], b.Type, b.Precedence, rel[got]))
			}
		}
	}

	checkT5(c)
	checkT6(c)
}

func uniq(s []string) []string {
	var out []string
	for i, x := range s {
		if i == 0 || x != s[i-1] {
			out = append(out, x)
		}
	}
	return out
}

// checkT5: layout facts over the rule regexes.
func checkT5(c *Ctx) {
	r := c.R
	type cre struct {
		lr   *LexRule
		full *regexp.Regexp // ^(?:p)$
		pre  *regexp.Regexp // ^(?:p)
	}
	var res []cre
	for _, lr := range c.Lex.Rules {
		if lr.Pattern == "" {
			continue
		}
		full, err1 := regexp.Compile(`^(?:` + lr.Pattern + `)$`)
		pre, err2 := regexp.Compile(`^(?:` + lr.Pattern + `)`)
		if err1 != nil || err2 != nil {
			r.Undecided("T5", fmt.Sprintf("compile[%q]", lr.Pattern), c.P.pos(lr.Pos), "rule regex does not compile with Go regexp")
			continue
		}
		res = append(res, cre{lr, full, pre})
		key := fmt.Sprintf("nullable[%q]", lr.Pattern)
		if full.MatchString("") {
			r.Finding("T5", key, c.P.pos(lr.Pos), "rule matches the empty string: the lexer cannot make progress / inserts phantom tokens")
		} else {
			r.Discharge("T5", key, c.P.pos(lr.Pos), "regex is not nullable")
		}
	}
	// whitespace rule(s): dropping rules that match a single space
	var ws, comment *cre
	for i := range res {
		x := &res[i]
		if !x.lr.NoToken {
			continue
		}
		if x.full.MatchString(" ") && ws == nil {
			ws = x
		}
		if x.full.MatchString("# c") && comment == nil {
			comment = x
		}
	}
	if ws == nil {
		r.Finding("T5", "whitespace-rule", c.P.pos(c.Lex.VarPos), "no token-dropping rule matches a space: layout is not insignificant")
		return
	}
	var wsChars []rune
	for ch := rune(0); ch < 0x3000; ch++ {
		if ws.full.MatchString(string(ch)) {
			wsChars = append(wsChars, ch)
		}
	}
	for _, need := range []rune{' ', '\t', '\n'} {
		key := fmt.Sprintf("whitespace-class[%q]", need)
		if ws.full.MatchString(string(need)) && ws.full.MatchString(string([]rune{need, need})) {
			r.Discharge("T5", key, c.P.pos(ws.lr.Pos), "dropped by the whitespace rule (also when repeated)")
		} else {
			r.Finding("T5", key, c.P.pos(ws.lr.Pos), "layout character is not (repeatably) matched by the whitespace rule")
		}
	}
	if comment == nil {
		r.Finding("T5", "comment-rule", c.P.pos(c.Lex.VarPos), "no token-dropping rule matches `# c`: comments are not layout")
	} else {
		if comment.full.MatchString("# a\nb") {
			r.Finding("T5", "comment-rule", c.P.pos(comment.lr.Pos), "comment rule runs across a line feed: it would swallow the next line")
		} else {
			r.Discharge("T5", "comment-rule", c.P.pos(comment.lr.Pos), "dropping rule matches `# c` and stops at LF")
		}
	}
	// the whitespace rule must win over every other rule on a layout
	// character that follows a complete token: first-match-in-order means an
	// earlier rule that can START with a layout character steals it. Rules
	// that begin with optional whitespace by design (`\s*==\s*`) still yield the
	// same token; a rule that matches whitespace ALONE would turn layout into a
	// token.
	for i := range res {
		x := &res[i]
		if x.lr.NoToken {
			continue
		}
		for _, w := range wsChars {
			if x.full.MatchString(string(w)) {
				r.Finding("T5", fmt.Sprintf("layout-token[%q,%q]", x.lr.Pattern, w), c.P.pos(x.lr.Pos), "a token rule matches a bare layout character")
			}
		}
	}
	// bare path element: emits TRAVERSE_PATH and matches `.a`
	nBare := 0
	for i := range res {
		x := &res[i]
		isPath := false
		for _, t := range x.lr.Tokens {
			for _, o := range t.Ops {
				if o.Type == "TRAVERSE_PATH" {
					isPath = true
				}
			}
		}
		if !isPath || !x.full.MatchString(".a") {
			continue
		}
		nBare++
		for _, w := range wsChars {
			key := fmt.Sprintf("path-token-ends-at[%q]", w)
			got := x.pre.FindString(".a" + string(w) + "b")
			if got == ".a" {
				r.Discharge("T5", key, c.P.pos(x.lr.Pos), "bare path token `.a` ends before the layout character")
			} else {
				r.Finding("T5", key, c.P.pos(x.lr.Pos), fmt.Sprintf("layout character is swallowed into the path token: `.a%sb` lexes as key %q", string(w), got[1:]))
			}
		}
		// structural delimiters must end it too (they are tokens of their own)
		for _, d := range []string{"|", ",", ")", "]", "}", "=", ":", ";", "(", "[", "{"} {
			key := fmt.Sprintf("path-token-ends-at[%q]", d)
			got := x.pre.FindString(".a" + d + "b")
			if got == ".a" {
				r.Discharge("T5", key, c.P.pos(x.lr.Pos), "bare path token ends before the delimiter")
			} else {
				r.Finding("T5", key, c.P.pos(x.lr.Pos), fmt.Sprintf("delimiter %q is swallowed into the path token (%q)", d, got))
			}
		}
	}
	if nBare == 0 {
		r.Fatal("anchor missing: no lexer rule emitting TRAVERSE_PATH matches `.a`")
	}
	// information only: first-match-in-order shadowing of keywords
	for i := range res {
		x := &res[i]
		for _, kw := range keywordSamples(x.lr.Pattern) {
			for j := range res {
				y := &res[j]
				if y.lr.Index >= x.lr.Index {
					break
				}
				if m := y.pre.FindString(kw); m != "" && len(m) < len(kw) {
					r.Note("lexer shadowing (information, no property states it): keyword %q of rule %q is cut by earlier rule %q", kw, x.lr.Pattern, y.lr.Pattern)
					break
				} else if m == kw {
					break
				}
			}
		}
	}
}

// keywordSamples expands a pure keyword pattern (letters, '_', '?', '|') into
// its strings; other patterns give nothing.
func keywordSamples(pat string) []string {
	for _, ch := range pat {
		if !(ch >= 'a' && ch <= 'z' || ch >= 'A' && ch <= 'Z' || ch >= '0' && ch <= '9' || ch == '_' || ch == '?' || ch == '|' || ch == '@') {
			return nil
		}
	}
	var out []string
	for _, alt := range strings.Split(pat, "|") {
		vars := []string{""}
		rs := []rune(alt)
		for i := 0; i < len(rs); i++ {
			ch := rs[i]
			if ch == '?' {
				continue
			}
			opt := i+1 < len(rs) && rs[i+1] == '?'
			var nv []string
			for _, v := range vars {
				nv = append(nv, v+string(ch))
				if opt {
					nv = append(nv, v)
				}
			}
			vars = nv
		}
		out = append(out, vars...)
	}
	return out
}

// checkT5c: the expression text is handed to the lexer with its line feeds.
// A `#` comment ends at a line feed only (T5), so a constant rewrite of the
// expression read from a file (CRLF normalisation) that drops the line feed
// lets a comment on one line swallow the lines after it.
func checkT5c(c *Ctx) {
	r := c.R
	var fn *ssa.Function
	for _, f := range c.moduleFuncs() {
		if funcKey(f) == "cmd.processArgs" {
			fn = f
		}
	}
	if fn == nil {
		r.Fatal("anchor missing: cmd.processArgs")
		return
	}
	n := 0
	eachInstr(fn, func(ins ssa.Instruction) {
		call, ok := ins.(*ssa.Call)
		if !ok {
			return
		}
		name := calleeName(&call.Call)
		if name != "strings.ReplaceAll" && name != "strings.Replace" {
			return
		}
		oldC, ok1 := call.Call.Args[1].(*ssa.Const)
		newC, ok2 := call.Call.Args[2].(*ssa.Const)
		if !ok1 || !ok2 || oldC.Value == nil || newC.Value == nil {
			return
		}
		oldS, newS := constant.StringVal(oldC.Value), constant.StringVal(newC.Value)
		if !strings.Contains(oldS, "\n") {
			return
		}
		n++
		key := fmt.Sprintf("processArgs/replace(%q)", oldS)
		if strings.Count(newS, "\n") >= strings.Count(oldS, "\n") {
			r.Discharge("T5", key, c.P.pos(call.Pos()), fmt.Sprintf("%q becomes %q: line feeds are kept", oldS, newS))
		} else {
			r.Finding("T5", key, c.P.pos(call.Pos()), fmt.Sprintf("an expression read from a file has %q rewritten to %q: the line feed that ends a `#` comment is gone, so a comment swallows the rest of the expression (layout is no longer insignificant)", oldS, newS))
		}
	})
	if n == 0 {
		r.Note("T5: processArgs applies no constant rewrite involving line feeds to the expression text")
	}
}

// checkT8: removing the blank between two tokens must not change how they
// lex. An operator rule that ends in an optional class of flag letters
// (`=[c]*`, `\*[\+|\?cdn]*`) keeps matching into the next token when that token
// starts with one of the letters: `.a=contains("x")` lexes as `=c` + `ontains…`
// and is rejected, while `.a = contains("x")` parses.
func checkT8(c *Ctx) {
	r := c.R
	r.Rule("T8", "an operator's optional flag suffix cannot swallow the first character of a following token", 100)
	if !c.tables() {
		return
	}
	type first struct {
		pattern string
		set     runeSet
	}
	var firsts []first
	for _, lr := range c.Lex.Rules {
		re, err := syntax.Parse(lr.Pattern, syntax.Perl)
		if err != nil {
			continue
		}
		fs, _ := firstRunes(re.Simplify())
		firsts = append(firsts, first{lr.Pattern, fs})
	}
	letters := rsFromString("abcdefghijklmnopqrstuvwxyzABCDEFGHIJKLMNOPQRSTUVWXYZ_")
	for _, lr := range c.Lex.Rules {
		key := fmt.Sprintf("rule[%q]/flag-suffix", lr.Pattern)
		re, err := syntax.Parse(lr.Pattern, syntax.Perl)
		if err != nil {
			r.Undecided("T8", key, c.P.pos(lr.Pos), "pattern does not parse: "+err.Error())
			continue
		}
		suffix := optionalSuffixRunes(re).intersect(letters)
		if len(suffix) == 0 || lr.NoToken {
			r.Discharge("T8", key, c.P.pos(lr.Pos), "no optional suffix of letters")
			continue
		}
		// keyword-like rules that can start with one of those letters
		var victims []string
		for _, f := range firsts {
			if f.pattern == lr.Pattern {
				continue
			}
			if len(f.set.intersect(suffix)) > 0 && len(f.set.intersect(letters)) > 0 && len(f.set) < 200 {
				victims = append(victims, f.pattern)
			}
		}
		if len(victims) == 0 {
			r.Discharge("T8", key, c.P.pos(lr.Pos), "no other token starts with a letter of the optional suffix "+suffix.String())
			continue
		}
		sort.Strings(victims)
		show := victims
		if len(show) > 5 {
			show = append(append([]string{}, show[:5]...), fmt.Sprintf("… %d more", len(victims)-5))
		}
		r.Finding("T8", key, c.P.pos(lr.Pos), fmt.Sprintf("the rule ends in an optional suffix of flag letters %s; a following token that starts with one of them (rules %s) loses its first character when no blank separates the two: `x OP keyword` and `xOPkeyword` do not lex alike", suffix.String(), strings.Join(show, ", ")))
	}
}
