package main

import (
	"fmt"
	"go/token"
	"go/types"
	"sort"
	"strings"

	"golang.org/x/tools/go/ssa"
)

// Rule G9 — encoders keep no state between results.
//
// One encoder instance prints every result of a run (and, with -s or -0, into a
// different destination each time). A field of the encoder that Encode (or a
// method it calls on the same receiver) writes is state that the next result
// can observe. The fields written on the pinned tree are tabled with the
// reason they are harmless; a new one is reported.

type encFieldWrite struct {
	typ   string
	field string
	fn    *ssa.Function
	pos   token.Pos
}

func encoderFieldWrites(c *Ctx) []encFieldWrite {
	pk := c.P.lib()
	encObj := pk.Types.Scope().Lookup("Encoder")
	if encObj == nil {
		return nil
	}
	encIface, ok := encObj.Type().Underlying().(*types.Interface)
	if !ok {
		return nil
	}
	var out []encFieldWrite
	seen := map[string]bool{}
	for _, fn := range c.moduleFuncs() {
		recv := fn.Signature.Recv()
		if recv == nil || !types.Implements(recv.Type(), encIface) {
			continue
		}
		// constructors aside, every method of an encoder runs while results are printed
		tname := namedTypeName(recv.Type())
		eachInstr(fn, func(ins ssa.Instruction) {
			st, ok := ins.(*ssa.Store)
			if !ok {
				return
			}
			fa, ok := st.Addr.(*ssa.FieldAddr)
			if !ok || fa.X != ssa.Value(fn.Params[0]) {
				return
			}
			k := tname + "." + fieldName(fa) + "@" + funcKey(fn)
			if seen[k] {
				return
			}
			seen[k] = true
			out = append(out, encFieldWrite{tname, fieldName(fa), fn, st.Pos()})
		})
	}
	sort.Slice(out, func(i, j int) bool {
		if out[i].typ != out[j].typ {
			return out[i].typ < out[j].typ
		}
		if out[i].field != out[j].field {
			return out[i].field < out[j].field
		}
		return funcKey(out[i].fn) < funcKey(out[j].fn)
	})
	return out
}

var g9Accepted = map[string]string{
	"luaEncoder.indent":         "raised and lowered by the same method; its balance on every non-error exit is rule G8",
	"xmlEncoder.leadingContent": "set by PrintLeadingContent for the result that is about to be encoded; the printer makes that call before every Encode, unconditionally (rule G10)",
	"xmlEncoder.writer":         "overwritten at the start of every Encode, before any use",
}

// ruleG10: the printer calls encoder.PrintLeadingContent before it prints a
// result, for every result — also when the leading content is empty: encoders
// that keep it until Encode (xml) are reset by that call and by nothing else.
func ruleG10(c *Ctx, rule string) {
	r := c.R
	r.Rule(rule, "the printer hands the leading content of every result to the encoder before printing it", 1)
	fn := c.libFunc("resultsPrinter.PrintResults")
	if fn == nil {
		r.Fatal("anchor missing: (*resultsPrinter).PrintResults")
		return
	}
	isPLC := func(ins ssa.Instruction) bool {
		cc := callCommon(ins)
		return cc != nil && cc.IsInvoke() && cc.Method.Name() == "PrintLeadingContent"
	}
	n := 0
	eachInstr(fn, func(ins ssa.Instruction) {
		call, ok := ins.(*ssa.Call)
		if !ok || call.Call.StaticCallee() == nil || call.Call.StaticCallee().Name() != "printNode" {
			return
		}
		n++
		key := fmt.Sprintf("PrintResults/printNode#%d", n)
		// from the head of the loop that walks the results (or the entry) to this call
		from := fn.Blocks[0]
		for b := call.Block(); b != nil; b = b.Idom() {
			for _, p := range b.Preds {
				if b.Dominates(p) { // loop header
					from = b
				}
			}
			if from != fn.Blocks[0] {
				break
			}
		}
		if pathAvoiding(fn, from, 0, call.Block(), instrIndex(call), isPLC) {
			r.Finding(rule, key, c.P.pos(call.Pos()), "a result can be printed without encoder.PrintLeadingContent having been called for it: an encoder that keeps the leading content until Encode (xml) then prints the previous result's header again")
		} else {
			r.Discharge(rule, key, c.P.pos(call.Pos()), "PrintLeadingContent is called for every result before it is printed")
		}
	})
	if n == 0 {
		r.Undecided(rule, "PrintResults/printNode", c.P.pos(fn.Pos()), "PrintResults does not call printNode: shape not recognised")
	}
}

func ruleG9(c *Ctx, rule string) {
	r := c.R
	r.Rule(rule, "an encoder writes none of its own fields while printing, outside the tabled ones", 1)
	writes := encoderFieldWrites(c)
	for _, w := range writes {
		key := fmt.Sprintf("%s.%s/%s", w.typ, w.field, strings.TrimPrefix(funcKey(w.fn), "yqlib."))
		if why, ok := g9Accepted[w.typ+"."+w.field]; ok {
			// a field that is handed over anew for every result (leading content, writer) is only
			// reset if the method that takes it stores it on every path, not under a condition
			if g9HandedOver[w.typ+"."+w.field] && w.fn.Name() != "Encode" && storeAvoidable(w.fn, w.field) {
				r.Finding(rule, key, c.P.pos(w.pos), fmt.Sprintf("%s.%s is stored only on some paths of %s: when the store is skipped the encoder keeps what an earlier result left there, and prints it for this one", w.typ, w.field, w.fn.Name()))
				continue
			}
			r.Discharge(rule, key, c.P.pos(w.pos), "accepted: "+why)
		} else {
			r.Finding(rule, key, c.P.pos(w.pos), fmt.Sprintf("%s stores into its field %s while printing: the one encoder instance prints every result (with -s / -0 into a new destination each time), so what this result leaves there is seen by the next", w.typ, w.field))
		}
	}
	if len(writes) == 0 {
		r.Discharge(rule, "module/stateless-encoders", "-", "no encoder method stores into a field of its receiver")
	}
}

// g9HandedOver: accepted fields whose acceptance rests on "the method that receives the value stores it every time".
var g9HandedOver = map[string]bool{
	"xmlEncoder.leadingContent": true,
}

// storeAvoidable: some non-error return of fn is reachable from the entry without a store to the receiver's field.
func storeAvoidable(fn *ssa.Function, field string) bool {
	isStore := func(ins ssa.Instruction) bool {
		st, ok := ins.(*ssa.Store)
		if !ok {
			return false
		}
		fa, ok := st.Addr.(*ssa.FieldAddr)
		return ok && fa.X == ssa.Value(fn.Params[0]) && fieldName(fa) == field
	}
	for _, b := range fn.Blocks {
		ret, ok := b.Instrs[len(b.Instrs)-1].(*ssa.Return)
		if !ok || isErrorExit(ret) {
			continue
		}
		if pathAvoiding(fn, fn.Blocks[0], 0, b, len(b.Instrs)-1, isStore) {
			return true
		}
	}
	return false
}
