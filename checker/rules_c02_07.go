package main

import (
	"strings"

	"golang.org/x/tools/go/ssa"
)

func init() {
	register("C02", "Decides structural necessary conditions of the update laws (put-get, get-put, put-put, frame): (U1) UpdateFrom/UpdateAttributesFrom store nothing of the assigned value into the target except scalars, fresh deep copies and the Alias pointer, and UpdateFrom replaces Kind, Content and Value on every path except self-assignment; (U2) their write footprint is the receiver itself, and everything the ASSIGN / ASSIGN_ATTRIBUTES handlers write goes through them on a match or is auto-creation guarded by !DontAutoCreate; (U3 = R1) every operand that is evaluated read-only on the pinned tree — the RHS of plain `=`, index expressions, operands of arithmetic etc. — still is, so reading the new value cannot create paths; (U4) `p op= e` applies the operator to a Copy() of the match, not to the node it overwrites. (U9) whether traverseMap creates a missing entry is not control-dependent on the text of the key. Does NOT decide the laws as value equalities, padding of sequences, multi-match order, nor |= first-result semantics.", runC02)
	register("C07", "Decides structural necessary conditions of 'an update leaves the presentation of everything it did not touch intact': (P1) the mutation footprint of the assignment primitives is confined to the addressed node (= C02 U1/U2) and that of delete to the parent's child list and index keys (= C03 D1); (P2) inside UpdateAttributesFrom each comment store is control-dependent on the assigned value having that comment, the style store on the target having none, the anchor store on !DontOverWriteAnchor, and the tag store is conditional; (P3) a copy carries every CandidateNode field (doCopy's literal initialises all fields; an uncopied field must be in the empty exclusion table) and shares nothing but Parent/Alias; (P4) the yaml.Node <-> CandidateNode conversion reads and writes the same attribute set in both directions (= C05 Y1); (R1) operands evaluated read-only on the pinned tree stay read-only (an index expression or operand must not auto-create keys outside the target). (P9) `as $v` binds a Copy() of every matched node whatever the node is. Does NOT decide what the emitter prints for unchanged attributes, header/separator retention, nor sibling order after key creation.", runC07)
	register("C03", "Decides structural necessary conditions of 'del removes exactly the selection': (D1) deleteFromMap/deleteFromArray write only the parent's Content and, for sequences, the index key of surviving children; everything deleteChildOperator writes goes through them; (D2 = R1) the selection is evaluated read-only; (D3) the victim is located by equality on the recorded key — no glob/pattern matcher reachable, both sides of the comparison in the same representation — and (K1, shared with C16) the invariant 'a node in position i of a sequence has Key = i' is established wherever a node enters a sequence. Does NOT decide equality of the remaining document nor del(s1,s2) commutation.", runC03)
	register("C04", "Decides structural necessary conditions of 'x * y computes the merge and never changes x or y': (M1 = X1 for MULTIPLY, engine E1) from the handler of MULTIPLY through the crossFunction callback, mergeObjects and applyAssignment no store reaches a node of the operands: every in-place assignment issued by the merge targets the fresh copy of the left operand; DeeplyAssign (decoders) likewise builds on a fresh root; (M2 = X2) the writable context created for the merge never evaluates a user sub-expression; (M3 = U1) the assignment primitive deep-copies, so the result shares no node with the right operand; (M5) the merge preferences always carry DontFollowAlias, so traversal of the copy never follows a merge key / alias into the anchored map of an operand. (M5) holds for every multiplyPreferences value built in the module; (M12) a traversal step from an alias node to its target is taken only under !DontFollowAlias (two known findings). Does NOT decide the merge value itself, flag combinations, nor the fold law.", runC04)
	register("C16", "Decides structural necessary conditions of 'path, key and parent describe where a node is': (K1) AddChild gives every child Parent and a position key — finding: a child that already has a key keeps its old index (known); direct stores into a Content slot store positioned nodes (CopyAsReplacement / CreateReplacement results, permutations of existing children, or re-keyed in place); (K2) AddKeyValueChild re-keys and re-parents unconditionally, CopyAsReplacement takes Parent and Key from the node it replaces, and Copy shares nothing but Parent/Alias with the original (so re-keying one never rewrites the other); (K3) key / path / parent are computed from the recorded Key, Parent, IsMapKey only. K4 counts a node given Parent = owner before the list store as the owner's child. Does NOT decide traverse(path(n)) == n as a value fact.", runC16)
}

func runC02(c *Ctx) {
	r := c.R
	r.Rule("U1", "assignment deep-copies and fully replaces kind/content/value", 20)
	r.Rule("U2", "assignment writes only the addressed node", 20)
	r.Rule("U4", "compound assignment computes on a copy of the match", 1)
	r.Rule("R1", "operands evaluated read-only on the pinned tree stay read-only", 38)
	ruleU1U2(c, "U1", "U2")
	ruleAssignFootprint(c, "U2")
	ruleU4(c, "U4")
	r.Rule("U6", "relative update takes the first result of the right-hand side", 2)
	ruleU6(c, "U6")
	r.Rule("U7", "a kind change drops the old children before the new kind is stored", 1)
	ruleU7(c, "U7")
	r.Rule("U8", "the assignment primitives write value and presentation attributes only", 2)
	ruleU8(c, "U8")
	ruleU9(c, "U9")
	ruleL1(c, "L1", 20)
	ruleR1(c, "R1", nil)
}

func runC07(c *Ctx) {
	r := c.R
	r.Rule("P1", "update footprint confined to the addressed nodes", 25)
	r.Rule("P2", "attribute stores of UpdateAttributesFrom are conditional on what the new value brings", 6)
	r.Rule("P3", "Copy carries every field and shares nothing but Parent/Alias", 20)
	r.Rule("R1", "operands evaluated read-only on the pinned tree stay read-only", 38)
	ruleU1U2(c, "P1", "P1")
	ruleAssignFootprint(c, "P1")
	ruleDelete(c, "P1", "P1")
	ruleP2(c, "P2")
	ruleY3(c, "P3")
	ruleK(c, "", "P3", "")
	r.Rule("P8", "the assignment primitives write value and presentation attributes only (never position, provenance or the document header)", 2)
	ruleU8(c, "P8")
	r.Rule("P7", "string-tagged keys are never parsed as numbers on their way into a path (delete addresses entries by it)", 1)
	ruleK5(c, "P7")
	ruleBindCopies(c, "P9")
	// operators inside the right-hand side of an update must not write the document
	r.Rule("P5", "pure operators (the value side of an update) do not write nodes of the document", 80)
	ruleX1(c, "P5")
	ruleR1(c, "R1", nil)
	// drop the obligations of sub-rules that were asked for with an empty id
	var kept []Oblig
	for _, o := range r.obligs {
		if o.Rule != "" {
			kept = append(kept, o)
		}
	}
	r.obligs = kept
	delete(r.rules, "")
	var ord []string
	for _, id := range r.ruleOrder {
		if id != "" {
			ord = append(ord, id)
		}
	}
	r.ruleOrder = ord
}

func runC03(c *Ctx) {
	r := c.R
	r.Rule("D1", "delete writes only the parent's child list and index keys", 5)
	r.Rule("D2", "the selection is evaluated read-only", 2)
	r.Rule("D3", "the victim is located by exact comparison of like representations", 2)
	r.Rule("K1", "a node entering a sequence gets Parent and its position as key", 2)
	r.Rule("K2", "copies share no key node with the original (delete renumbers index keys in place)", 4)
	ruleDelete(c, "D1", "D3")
	ruleR1(c, "D2", func(k string) bool {
		return strings.HasPrefix(k, "yqlib.deleteChildOperator/") || strings.HasPrefix(k, "yqlib.delPathsOperator/")
	})
	// evaluating the selection must not change the document it selects from
	ruleX1(c, "D2")
	ruleK(c, "K1", "K2", "")
	ruleK1w(c, "K4", 12)
	ruleD4(c, "D4")
	r.Rule("K5", "string-tagged keys are never parsed as numbers on their way into a path", 1)
	ruleK5(c, "K5")
	dropEmptyRule(r)
}

func dropEmptyRule(r *Report) {
	var kept []Oblig
	for _, o := range r.obligs {
		if o.Rule != "" {
			kept = append(kept, o)
		}
	}
	r.obligs = kept
	delete(r.rules, "")
	var ord []string
	for _, id := range r.ruleOrder {
		if id != "" {
			ord = append(ord, id)
		}
	}
	r.ruleOrder = ord
}

func runC04(c *Ctx) {
	r := c.R
	r.Rule("M1", "merge never writes a node of its operands", 3)
	r.Rule("M2", "the writable merge context never evaluates a user sub-expression", 8)
	r.Rule("M3", "the assignment primitive deep-copies (result shares no node with the right operand)", 20)
	r.Rule("M5", "merge preferences always carry DontFollowAlias", 1)
	r.Rule("M6", "the merge result is a new value, never an operand itself", 1)
	// M1: X1 restricted to the merge-related handlers, plus DeeplyAssign
	before := len(r.obligs)
	ruleX1(c, "M1")
	var kept []Oblig
	kept = append(kept, r.obligs[:before]...)
	for _, o := range r.obligs[before:] {
		if strings.Contains(o.Key, "multiplyOperator") || strings.Contains(o.Key, "collectObjectOperator") || strings.Contains(o.Key, "reduceOperator") || o.Verdict != "discharged" && (strings.Contains(o.Path, "mergeObjects") || strings.Contains(o.Path, "applyAssignment")) {
			kept = append(kept, o)
		}
	}
	r.obligs = kept
	// DeeplyAssign: its dynamic update targets only what the caller hands in
	if fn, s := c.sumOf("dataTreeNavigator.DeeplyAssign"); s != nil {
		bad := 0
		for _, e := range s.muts {
			if e.Class == "node" && e.Base.o.kind == kParam && e.Base.o.idx != 1 {
				bad++
				r.FindingPath("M1", "DeeplyAssign/"+e.Base.String()+"."+e.Field, c.P.pos(e.Site.Pos()), "DeeplyAssign writes a node other than the root it was given", e.Chain)
			}
		}
		if bad == 0 {
			r.Discharge("M1", "DeeplyAssign/footprint", c.P.pos(fn.Pos()), "only nodes below the context it is given are written (the decoders pass a fresh root map)")
		}
	} else {
		r.Fatal("anchor missing: (*dataTreeNavigator).DeeplyAssign")
	}
	ruleX2(c, "M2")
	ruleU1U2(c, "M3", "M3")
	ruleM5(c, "M5")
	ruleM12(c, "M12")
	ruleM6(c, "M6")
	rulePF(c, "M7", 20)
	r.Rule("M8", "the `n` flag restricts the attribute update to null targets, it does not switch it off", 1)
	ruleM8(c, "M8")
	r.Rule("M9", "a kind change drops the old children before the new kind is stored", 1)
	ruleU7(c, "M9")
	r.Rule("M11", "string-tagged keys are never parsed as numbers on their way into a path", 1)
	ruleK5(c, "M11")
	r.Rule("M10", "merge applies every descendant of the right operand except merge-key entries", 1)
	ruleNoFilter(c, "M10", "mergeObjects", map[string]bool{"applyAssignment": true}, func(cond ssa.Value, elem ssa.Value) bool {
		return isTagEquals(cond, elem, "!!merge")
	}, "part of the right operand is not merged in (b's nulls no longer overwrite a's values, …)")
}

func runC16(c *Ctx) {
	r := c.R
	r.Rule("K1", "a node entering a sequence / Content slot gets Parent and its position as key", 3)
	r.Rule("K2", "re-keying on AddKeyValueChild / CopyAsReplacement; copies share nothing but Parent/Alias", 5)
	r.Rule("K3", "key / path / parent read only the recorded position attributes", 3)
	ruleK(c, "K1", "K2", "K3")
	ruleK1w(c, "K4", 12)
	r.Rule("K5", "string-tagged keys are never parsed as numbers on their way into a path", 1)
	ruleK5(c, "K5")
}
