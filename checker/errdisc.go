package main

import (
	"fmt"
	"go/token"
	"go/types"
	"strings"

	"golang.org/x/tools/go/ssa"
)

// Engine E3 — error discipline over SSA.

var errorType = types.Universe.Lookup("error").Type()

func isErrorType(t types.Type) bool { return types.Identical(t, errorType) }

// errorResultIndex: index of the (last) error result of a signature, or -1.
func errorResultIndex(sig *types.Signature) int {
	n := sig.Results().Len()
	if n == 0 {
		return -1
	}
	if isErrorType(sig.Results().At(n - 1).Type()) {
		return n - 1
	}
	return -1
}

type errSite struct {
	Fn    *ssa.Function
	Instr ssa.Instruction
	Kind  string // dropped | swallowed | recover-lost
	Desc  string
	Key   string
}

// infallible: callees whose error result is nil by contract.
func infallibleCallee(name string) bool {
	for _, p := range []string{
		"(*strings.Builder).", "(*bytes.Buffer).Write", "(*bytes.Buffer).WriteString", "(*bytes.Buffer).WriteByte", "(*bytes.Buffer).WriteRune",
		"(hash.Hash).Write",
	} {
		if strings.HasPrefix(name, p) {
			return true
		}
	}
	return false
}

// writerIsInfallible: fmt.Fprint* / io.WriteString whose writer argument is a
// *strings.Builder or *bytes.Buffer.
func writerIsInfallible(cc *ssa.CallCommon) bool {
	name := calleeName(cc)
	if !(strings.HasPrefix(name, "fmt.Fprint") || name == "io.WriteString") || len(cc.Args) == 0 {
		return false
	}
	w := cc.Args[0]
	for {
		switch x := w.(type) {
		case *ssa.MakeInterface:
			w = x.X
			continue
		case *ssa.ChangeInterface:
			w = x.X
			continue
		}
		break
	}
	ts := w.Type().String()
	return ts == "*strings.Builder" || ts == "*bytes.Buffer"
}

// errorDroppedSites: calls whose error result is never looked at.
func errorDroppedSites(c *Ctx, fn *ssa.Function) []errSite {
	var out []errSite
	eachInstr(fn, func(ins ssa.Instruction) {
		cc := callCommon(ins)
		if cc == nil {
			return
		}
		sig := cc.Signature()
		idx := errorResultIndex(sig)
		if idx < 0 {
			return
		}
		name := calleeName(cc)
		if name == "" {
			name = "func-value " + exprOfValue(cc.Value)
		}
		if infallibleCallee(name) || writerIsInfallible(cc) {
			return
		}
		dropped := false
		switch x := ins.(type) {
		case *ssa.Defer, *ssa.Go:
			dropped = true
		case *ssa.Call:
			if x.Referrers() == nil || len(*x.Referrers()) == 0 {
				dropped = true
			} else if sig.Results().Len() > 1 {
				used := false
				for _, ref := range *x.Referrers() {
					if ex, ok := ref.(*ssa.Extract); ok && ex.Index == idx && ex.Referrers() != nil && len(*ex.Referrers()) > 0 {
						used = true
					}
				}
				dropped = !used
			}
		}
		if !dropped {
			return
		}
		kind := "call"
		if _, ok := ins.(*ssa.Defer); ok {
			kind = "defer"
		}
		out = append(out, errSite{Fn: fn, Instr: ins, Kind: "dropped", Desc: fmt.Sprintf("%s %s: error result ignored", kind, name), Key: fmt.Sprintf("%s/%s %s", funcKey(fn), kind, shortCallee(name))})
	})
	return out
}

func shortCallee(name string) string {
	name = strings.ReplaceAll(name, "github.com/mikefarah/yq/v4/pkg/yqlib.", "")
	name = strings.ReplaceAll(name, "github.com/mikefarah/yq/v4/", "")
	return name
}

// errorSwallowedSites: `if err != nil { return ..., nil }` — a return with a
// nil error constant (or, for functions without error result that are called
// for their error-relevant effect, any return) in a block dominated by the
// non-nil branch of an error test.
func errorSwallowedSites(c *Ctx, fn *ssa.Function) []errSite {
	var out []errSite
	idx := errorResultIndex(fn.Signature)
	if idx < 0 {
		return nil
	}
	for _, b := range fn.Blocks {
		ret, ok := b.Instrs[len(b.Instrs)-1].(*ssa.Return)
		if !ok || len(ret.Results) <= idx {
			continue
		}
		cst, ok := ret.Results[idx].(*ssa.Const)
		if !ok || !cst.IsNil() {
			continue
		}
		var errVal ssa.Value
		dominatingConds(b, func(cond ssa.Value, taken bool, at *ssa.BasicBlock) {
			bo, ok := cond.(*ssa.BinOp)
			if !ok {
				return
			}
			var v ssa.Value
			if isNilConst(bo.Y) && isErrorType(bo.X.Type()) {
				v = bo.X
			} else if isNilConst(bo.X) && isErrorType(bo.Y.Type()) {
				v = bo.Y
			}
			if v == nil {
				return
			}
			if (bo.Op == token.NEQ && taken) || (bo.Op == token.EQL && !taken) {
				errVal = v
			}
		})
		if errVal == nil {
			continue
		}
		// the error may have been handled: logged (passed to a call) or wrapped —
		// a bare `return nil` with no other use of the error in the dominated
		// region is a swallow; a use by a call in this block is log-and-continue.
		usedByCall := false
		if errVal.Referrers() != nil {
			for _, ref := range *errVal.Referrers() {
				if ref.Block() == b || (ref.Block() != nil && ref.Block().Dominates(b) && ref.Block() != errVal.(ssa.Instruction).Block()) {
					if _, ok := ref.(*ssa.BinOp); ok {
						continue
					}
					if _, ok := ref.(*ssa.If); ok {
						continue
					}
					usedByCall = true
				}
			}
		}
		// a fallback is not a swallow: on the failure branch another fallible action is
		// attempted and ITS error is tested (try rename, else copy): the nil return
		// then reports the fallback's success
		if recoveredByFallback(b, errVal) {
			continue
		}
		what := "swallowed"
		desc := fmt.Sprintf("returns a nil error on the branch where %s != nil", exprOfValue(errVal))
		if usedByCall {
			what = "log-and-continue"
			desc = fmt.Sprintf("uses %s (log/wrap) and then returns a nil error", exprOfValue(errVal))
		}
		out = append(out, errSite{Fn: fn, Instr: ret, Kind: what, Desc: desc, Key: fmt.Sprintf("%s/return-nil-when %s != nil", funcKey(fn), exprOfValue(errVal))})
	}
	// the same through a jump: `if err != nil { break }` (or goto / fallthrough to the end) where
	// the blocks between the test and the return do nothing and the return hands back nil
	have := map[string]bool{}
	for _, s := range out {
		have[s.Key] = true
	}
	for _, b := range fn.Blocks {
		ifi, ok := b.Instrs[len(b.Instrs)-1].(*ssa.If)
		if !ok || len(b.Succs) != 2 {
			continue
		}
		bo, ok := ifi.Cond.(*ssa.BinOp)
		if !ok || (bo.Op != token.NEQ && bo.Op != token.EQL) {
			continue
		}
		var errVal ssa.Value
		if isNilConst(bo.Y) && isErrorType(bo.X.Type()) {
			errVal = bo.X
		} else if isNilConst(bo.X) && isErrorType(bo.Y.Type()) {
			errVal = bo.Y
		}
		if errVal == nil {
			continue
		}
		cur := b.Succs[0]
		if bo.Op == token.EQL {
			cur = b.Succs[1]
		}
		prev := b
		steps := 0
		for steps < 6 {
			steps++
			// a block that only jumps on
			onlyJump := true
			for _, ins := range cur.Instrs {
				switch ins.(type) {
				case *ssa.Jump, *ssa.DebugRef, *ssa.Phi:
				default:
					onlyJump = false
				}
			}
			if onlyJump && len(cur.Succs) == 1 {
				prev, cur = cur, cur.Succs[0]
				continue
			}
			break
		}
		if steps < 2 && len(cur.Preds) == 1 {
			continue // the return sits in the branch itself: handled above
		}
		ret, ok := cur.Instrs[len(cur.Instrs)-1].(*ssa.Return)
		if !ok || len(ret.Results) <= idx {
			continue
		}
		// nothing else happens in the returning block
		bare := true
		for _, ins := range cur.Instrs {
			switch ins.(type) {
			case *ssa.Return, *ssa.DebugRef, *ssa.Phi:
			default:
				bare = false
			}
		}
		if !bare {
			continue
		}
		rv := ret.Results[idx]
		if phi, isPhi := rv.(*ssa.Phi); isPhi && phi.Block() == cur {
			for pi, p := range cur.Preds {
				if p == prev {
					rv = phi.Edges[pi]
				}
			}
		}
		if k, isK := rv.(*ssa.Const); !isK || !k.IsNil() {
			continue
		}
		key := fmt.Sprintf("%s/return-nil-when %s != nil", funcKey(fn), exprOfValue(errVal))
		if have[key] {
			continue
		}
		have[key] = true
		out = append(out, errSite{Fn: fn, Instr: ret, Kind: "swallowed", Desc: fmt.Sprintf("leaves the loop / jumps to the end on the branch where %s != nil and returns a nil error there", exprOfValue(errVal)), Key: key})
	}
	return out
}

// recoveredByFallback: between the test of errVal and the `return nil` in b
// (blocks that dominate b and are dominated by the failure branch) a call with
// an error result is made and that error is compared with nil.
func recoveredByFallback(b *ssa.BasicBlock, errVal ssa.Value) bool {
	ei, ok := errVal.(ssa.Instruction)
	if !ok {
		return false
	}
	defBlock := ei.Block()
	for d := b; d != nil && d != defBlock; d = d.Idom() {
		for _, ins := range d.Instrs {
			call, ok := ins.(*ssa.Call)
			if !ok {
				continue
			}
			var e2 ssa.Value
			if isErrorType(call.Type()) {
				e2 = call
			} else if tup, ok := call.Type().(*types.Tuple); ok && tup.Len() > 0 && isErrorType(tup.At(tup.Len()-1).Type()) && call.Referrers() != nil {
				for _, ref := range *call.Referrers() {
					if ex, ok := ref.(*ssa.Extract); ok && ex.Index == tup.Len()-1 {
						e2 = ex
					}
				}
			}
			if e2 == nil || e2 == errVal || e2.Referrers() == nil {
				continue
			}
			for _, ref := range *e2.Referrers() {
				if bo, ok := ref.(*ssa.BinOp); ok && (bo.Op == token.NEQ || bo.Op == token.EQL) && (isNilConst(bo.X) || isNilConst(bo.Y)) {
					return true
				}
			}
		}
	}
	return false
}

func isNilConst(v ssa.Value) bool {
	c, ok := v.(*ssa.Const)
	return ok && c.IsNil()
}

// recoverLostSites: a deferred closure calls recover() and the recovered
// value does not reach a named result of the enclosing function.
func recoverLostSites(c *Ctx, fn *ssa.Function) []errSite {
	var out []errSite
	if fn.Parent() == nil {
		return nil
	}
	eachInstr(fn, func(ins ssa.Instruction) {
		call, ok := ins.(*ssa.Call)
		if !ok {
			return
		}
		b, ok := call.Call.Value.(*ssa.Builtin)
		if !ok || b.Name() != "recover" {
			return
		}
		parent := fn.Parent()
		// named results of the parent are Allocs captured as FreeVars of fn
		reachesResult := false
		var storedTo []string
		flowUses(call, 0, map[ssa.Value]bool{}, func(u ssa.Instruction, v ssa.Value) {
			st, ok := u.(*ssa.Store)
			if !ok {
				return
			}
			if fv, ok := st.Addr.(*ssa.FreeVar); ok {
				storedTo = append(storedTo, fv.Name())
				// is that free variable a named result of the parent?
				for i, pfv := range fn.FreeVars {
					if pfv == fv {
						// find the binding in the parent's MakeClosure
						eachInstr(parent, func(pi ssa.Instruction) {
							mc, ok := pi.(*ssa.MakeClosure)
							if !ok || mc.Fn != fn || i >= len(mc.Bindings) {
								return
							}
							if al, ok := mc.Bindings[i].(*ssa.Alloc); ok && isNamedResult(parent, al) {
								reachesResult = true
							}
						})
					}
				}
			}
		})
		// values derived from the recovered value through calls (fmt.Errorf("%v", r))
		if !reachesResult {
			reachesResult = recoveredReachesResult(fn, parent, call)
		}
		if !reachesResult {
			out = append(out, errSite{Fn: fn, Instr: ins, Kind: "recover-lost", Desc: fmt.Sprintf("recovered panic is stored to %v, not to a named result of %s: the caller sees (zero, nil)", storedTo, funcKey(parent)), Key: fmt.Sprintf("%s/recover", funcKey(fn))})
		}
	})
	return out
}

func isNamedResult(fn *ssa.Function, al *ssa.Alloc) bool {
	res := fn.Signature.Results()
	for i := 0; i < res.Len(); i++ {
		if res.At(i).Name() != "" && res.At(i).Name() == al.Comment && res.At(i).Pos() == al.Pos() {
			return true
		}
	}
	return false
}

// recoveredReachesResult: some store in the deferred closure, control-dependent
// on `recover() != nil`, writes a named result of the parent.
func recoveredReachesResult(fn, parent *ssa.Function, rec *ssa.Call) bool {
	ok := false
	eachInstr(fn, func(ins ssa.Instruction) {
		st, isSt := ins.(*ssa.Store)
		if !isSt {
			return
		}
		fv, isFv := st.Addr.(*ssa.FreeVar)
		if !isFv {
			return
		}
		for i, pfv := range fn.FreeVars {
			if pfv != fv {
				continue
			}
			eachInstr(parent, func(pi ssa.Instruction) {
				mc, isMc := pi.(*ssa.MakeClosure)
				if !isMc || mc.Fn != fn || i >= len(mc.Bindings) {
					return
				}
				if al, isAl := mc.Bindings[i].(*ssa.Alloc); isAl && isNamedResult(parent, al) && isErrorType(derefType(al.Type())) {
					ok = true
				}
			})
		}
	})
	return ok
}

// errorTestedAfterValueSites: `v, err := f()` where a nil-test of v decides the
// control flow before err was looked at: on the path where v is nil the error
// is never examined (f returns (nil, err) exactly when it fails). Reported when
// a block testing `v == nil` strictly dominates every block that tests err, and
// err is tested at all (so the function means to check it).
func errorTestedAfterValueSites(c *Ctx, fn *ssa.Function) []errSite {
	var out []errSite
	eachInstr(fn, func(ins ssa.Instruction) {
		call, ok := ins.(*ssa.Call)
		if !ok || call.Referrers() == nil {
			return
		}
		tup, ok := call.Type().(*types.Tuple)
		if !ok || tup.Len() < 2 || !isErrorType(tup.At(tup.Len()-1).Type()) {
			return
		}
		var errExt ssa.Value
		var vals []ssa.Value
		for _, ref := range *call.Referrers() {
			if ex, ok := ref.(*ssa.Extract); ok {
				if ex.Index == tup.Len()-1 {
					errExt = ex
				} else {
					vals = append(vals, ex)
				}
			}
		}
		if errExt == nil || len(vals) == 0 {
			return
		}
		// blocks that test err (a comparison with nil, or handing it to errors.Is / a call, that ends in a branch)
		var errTests []*ssa.BasicBlock
		if refs := errExt.Referrers(); refs != nil {
			for _, ref := range *refs {
				switch x := ref.(type) {
				case *ssa.BinOp:
					if isNilConst(x.X) || isNilConst(x.Y) {
						errTests = append(errTests, x.Block())
					}
				case *ssa.Call:
					errTests = append(errTests, x.Block())
				case *ssa.Return:
					errTests = append(errTests, x.Block())
				}
			}
		}
		if len(errTests) == 0 {
			return
		}
		for _, v := range vals {
			if v.Referrers() == nil {
				continue
			}
			for _, ref := range *v.Referrers() {
				bo, ok := ref.(*ssa.BinOp)
				if !ok || (bo.Op != token.EQL && bo.Op != token.NEQ) || !(isNilConst(bo.X) || isNilConst(bo.Y)) {
					continue
				}
				// the comparison must be a branch condition
				isCond := false
				if bo.Referrers() != nil {
					for _, r2 := range *bo.Referrers() {
						if _, ok := r2.(*ssa.If); ok {
							isCond = true
						}
					}
				}
				if !isCond {
					continue
				}
				vb := bo.Block()
				first := true
				for _, eb := range errTests {
					if eb == vb || !vb.Dominates(eb) {
						first = false
					}
				}
				if !first {
					continue
				}
				name := calleeName(&call.Call)
				if name == "" {
					name = "func-value"
				}
				out = append(out, errSite{Fn: fn, Instr: bo, Kind: "value-before-error",
					Desc: fmt.Sprintf("the result of %s is tested against nil before its error is looked at: on the path where the value is nil the error is never examined", shortCallee(name)),
					Key:  fmt.Sprintf("%s/%s value-tested-before-error", funcKey(fn), shortCallee(name))})
			}
		}
	})
	return out
}
