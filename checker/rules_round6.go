package main

import (
	"fmt"
	"go/token"
	"go/types"
	"regexp/syntax"
	"sort"
	"strings"

	"golang.org/x/tools/go/ssa"
)

// ---- G11: the exit-status flag is read by its accessor only ---------------------------------
//
// printedMatches answers one question — "was anything truthy printed?" (-e). Code
// that reads it for another purpose (whether to print a separator, whether to
// flush …) ties the output format to the truthiness of earlier results.

func ruleG11(c *Ctx, rule string) {
	r := c.R
	r.Rule(rule, "the -e flag (printedMatches) is read only by its accessor and by its own monotone update", 1)
	n := 0
	for _, fn := range c.moduleFuncs() {
		eachInstr(fn, func(ins ssa.Instruction) {
			u, ok := ins.(*ssa.UnOp)
			if !ok || u.Op != token.MUL {
				return
			}
			fa, ok := u.X.(*ssa.FieldAddr)
			if !ok || fieldName(fa) != "printedMatches" {
				return
			}
			n++
			key := funcKey(fn) + "/read printedMatches"
			pos := c.P.pos(u.Pos())
			// accessor: the loaded value is returned
			if refs := u.Referrers(); refs != nil {
				allRet, feedsOwnStore := true, false
				for _, ref := range *refs {
					switch x := ref.(type) {
					case *ssa.Return:
					case *ssa.DebugRef:
					default:
						allRet = false
						_ = x
					}
				}
				if allRet {
					r.Discharge(rule, key, pos, "accessor: the flag is returned to the caller (the -e test)")
					return
				}
				// the monotone update: every use leads only into a store to the same field
				// (old || x, or `if !old { old = x }`)
				feedsOwnStore = flagReadFeedsOnlyOwnStore(u, fa)
				if feedsOwnStore {
					r.Discharge(rule, key, pos, "read by the flag's own update (old || x)")
					return
				}
			}
			r.Finding(rule, key, pos, "printedMatches — the record of whether a truthy result was printed, kept for -e — is read here to decide something else: what is written now depends on whether earlier results were null or false")
		})
	}
	if n == 0 {
		r.Fatal("anchor moved: printedMatches is never read")
	}
}

// flagReadFeedsOnlyOwnStore: the loaded flag is used only as a branch condition
// (possibly negated) whose two arms differ only in what is stored to the same
// field, or directly as an operand of the value stored to that field.
func flagReadFeedsOnlyOwnStore(u *ssa.UnOp, fa *ssa.FieldAddr) bool {
	refs := u.Referrers()
	if refs == nil {
		return false
	}
	isOwnStore := func(ins ssa.Instruction) bool {
		st, ok := ins.(*ssa.Store)
		if !ok {
			return false
		}
		fa2, ok := st.Addr.(*ssa.FieldAddr)
		return ok && fa2.Field == fa.Field && sameLenBase(fa2.X, fa.X)
	}
	var valueFeeds func(v ssa.Value, d int) bool
	valueFeeds = func(v ssa.Value, d int) bool {
		if d > 4 || v.Referrers() == nil {
			return false
		}
		for _, ref := range *v.Referrers() {
			switch x := ref.(type) {
			case *ssa.DebugRef:
			case *ssa.Store:
				if !isOwnStore(x) {
					return false
				}
			case *ssa.UnOp:
				if x.Op != token.NOT || !valueFeeds(x, d+1) {
					return false
				}
			case *ssa.Phi:
				if !valueFeeds(x, d+1) {
					return false
				}
			case *ssa.If:
				// the branch may only select what is stored to the flag: the region between the
				// test and the join holds nothing with an effect but stores to the flag
				blk := x.Block()
				for _, s := range blk.Succs {
					if !armOnlyUpdatesFlag(s, blk, isOwnStore) {
						return false
					}
				}
			default:
				return false
			}
		}
		return true
	}
	return valueFeeds(u, 0)
}

// armOnlyUpdatesFlag: the blocks that run only when the test goes to arm —
// reachable from arm but not from the other successor, without passing through
// the test again — hold no effect other than stores to the flag itself: no other
// store, no interface call, no call of a function with effects, no return.
func armOnlyUpdatesFlag(arm, test *ssa.BasicBlock, isOwnStore func(ssa.Instruction) bool) bool {
	reachFrom := func(start *ssa.BasicBlock) map[*ssa.BasicBlock]bool {
		seen := map[*ssa.BasicBlock]bool{}
		work := []*ssa.BasicBlock{start}
		for len(work) > 0 {
			b := work[len(work)-1]
			work = work[:len(work)-1]
			if seen[b] || b == test {
				continue
			}
			seen[b] = true
			work = append(work, b.Succs...)
		}
		return seen
	}
	var other *ssa.BasicBlock
	for _, s := range test.Succs {
		if s != arm {
			other = s
		}
	}
	mine := reachFrom(arm)
	theirs := map[*ssa.BasicBlock]bool{}
	if other != nil {
		theirs = reachFrom(other)
	}
	for b := range mine {
		if theirs[b] {
			continue
		}
		for _, ins := range b.Instrs {
			switch x := ins.(type) {
			case *ssa.Store:
				if !isOwnStore(x) {
					return false
				}
			case *ssa.Call:
				if cc := x.Common(); cc.IsInvoke() {
					return false
				} else if callee := cc.StaticCallee(); callee != nil && callee.Blocks != nil {
					if !isPureish(callee, 0) {
						return false
					}
				} else if _, isBuiltin := cc.Value.(*ssa.Builtin); !isBuiltin && callee == nil {
					return false
				}
			case *ssa.Return, *ssa.Panic, *ssa.Go, *ssa.Defer, *ssa.Send, *ssa.MapUpdate:
				return false
			}
		}
	}
	return true
}

// isPureish: fn has no stores through pointers, no interface calls and calls only pureish functions.
func isPureish(fn *ssa.Function, d int) bool {
	if d > 3 {
		return false
	}
	ok := true
	eachInstr(fn, func(ins ssa.Instruction) {
		switch x := ins.(type) {
		case *ssa.Store:
			if _, isAlloc := x.Addr.(*ssa.Alloc); !isAlloc {
				ok = false
			}
		case *ssa.MapUpdate, *ssa.Send, *ssa.Go, *ssa.Defer, *ssa.Panic:
			ok = false
		case *ssa.Call:
			cc := x.Common()
			if cc.IsInvoke() {
				ok = false
				return
			}
			if callee := cc.StaticCallee(); callee != nil && callee.Blocks != nil && callee != fn {
				if !isPureish(callee, d+1) {
					ok = false
				}
			}
		}
	})
	return ok
}

// ---- T9: a lexeme that ends with ')' is followed like ')' ------------------------------------
//
// The `)` token is flagged CheckForPostTraverse, which is what makes `f(x).k`
// and `f(x)[k]` mean `(f(x)).k` / `(f(x))[k]`. A lexer rule that swallows its
// own argument list — `parent(2)`, `flatten(1)`, `env(X)` — emits one token for
// text that ends with that same `)`: it must carry the flag too (constant true,
// or the flag of an operation type that has it), or `parent(2).name` is
// rejected / parsed differently from `(parent(2)).name`.

func endsWithCloseParen(pattern string) bool {
	re, err := syntax.Parse(pattern, syntax.Perl)
	if err != nil {
		return false
	}
	var ends func(r *syntax.Regexp) bool
	ends = func(r *syntax.Regexp) bool {
		switch r.Op {
		case syntax.OpLiteral:
			return len(r.Rune) > 0 && r.Rune[len(r.Rune)-1] == ')'
		case syntax.OpConcat:
			return len(r.Sub) > 0 && ends(r.Sub[len(r.Sub)-1])
		case syntax.OpCapture:
			return ends(r.Sub[0])
		case syntax.OpAlternate:
			for _, s := range r.Sub {
				if !ends(s) {
					return false
				}
			}
			return len(r.Sub) > 0
		}
		return false
	}
	return ends(re)
}

func ruleT9(c *Ctx, rule string) {
	r := c.R
	r.Rule(rule, "a token whose lexeme ends with ')' is flagged CheckForPostTraverse like the ')' token", 3)
	if !c.tables() {
		return
	}
	for _, lr := range c.Lex.Rules {
		if lr.NoToken || !endsWithCloseParen(lr.Pattern) {
			continue
		}
		for ti, t := range lr.Tokens {
			key := fmt.Sprintf("rule[%q]/token#%d/flagged", lr.Pattern, ti)
			pos := c.P.pos(lr.Pos)
			switch t.Flag {
			case "true":
				r.Discharge(rule, key, pos, "CheckForPostTraverse: true")
			case "bytype":
				var off []string
				for _, o := range t.FlagOps {
					if !o.Check {
						off = append(off, o.Type)
					}
				}
				if len(t.FlagOps) > 0 && len(off) == 0 {
					r.Discharge(rule, key, pos, "takes the flag of its operation type, which has it set")
				} else {
					r.Finding(rule, key, pos, fmt.Sprintf("the token takes CheckForPostTraverse from operation type(s) %v, which do not set it: a `.key` or `[k]` directly after the closing parenthesis of this lexeme is not treated as a traversal of its result, unlike after a plain `)`", off))
				}
			case "false":
				r.Finding(rule, key, pos, "the token for a lexeme ending in ')' is not flagged CheckForPostTraverse: a `.key` or `[k]` directly after it is not treated as a traversal of its result, unlike after a plain `)`")
			default:
				r.Undecided(rule, key, pos, "the value stored into CheckForPostTraverse could not be resolved ("+lr.Problem+")")
			}
		}
	}
}

// ---- A10: the anchor table of a document is handed down unchanged ------------------------------
//
// While a YAML document is decoded, one map from anchor name to node is
// threaded through UnmarshalYAML / decodeIntoChild / copyFromYamlNode: anchors
// are entered as they are met and aliases resolved against it. A function that
// receives the table and hands a callee another map (a fresh literal, a copy)
// cuts that part of the document off: anchors defined there are never seen by
// later aliases, which then resolve to an earlier definition or dangle.

func isAnchorTable(t types.Type) bool {
	m, ok := t.Underlying().(*types.Map)
	if !ok {
		return false
	}
	if b, ok := m.Key().Underlying().(*types.Basic); !ok || b.Kind() != types.String {
		return false
	}
	return isNodePtr(m.Elem())
}

func ruleA10(c *Ctx, rule string) {
	r := c.R
	r.Rule(rule, "a function that receives the anchor table passes that same table on", 4)
	for _, fn := range c.moduleFuncs() {
		var table *ssa.Parameter
		for _, p := range fn.Params {
			if isAnchorTable(p.Type()) {
				table = p
			}
		}
		if table == nil {
			continue
		}
		seen := map[string]int{}
		eachInstr(fn, func(ins ssa.Instruction) {
			ci, ok := ins.(ssa.CallInstruction)
			if !ok {
				return
			}
			cc := ci.Common()
			for _, a := range cc.Args {
				if !isAnchorTable(a.Type()) {
					continue
				}
				name := shortCallee(calleeName(cc))
				if cc.IsInvoke() {
					name = cc.Method.Name()
				}
				key := fmt.Sprintf("%s/%s(anchor table)", funcKey(fn), name)
				seen[key]++
				if seen[key] > 1 {
					key = fmt.Sprintf("%s#%d", key, seen[key])
				}
				if a == ssa.Value(table) {
					r.Discharge(rule, key, c.P.pos(ins.Pos()), "passes the table it received")
				} else {
					r.Finding(rule, key, c.P.pos(ins.Pos()), fmt.Sprintf("%s receives the document's anchor table but hands %s another map (%s): anchors met below this call are not recorded, so a later alias resolves to an earlier definition of the name or to nothing", funcKey(fn), name, exprOfValue(a)))
				}
			}
		})
	}
}

// ---- P11: a traversal that descends into children does not also follow alias edges -------------
//
// The children of a node form a tree, so a function that calls itself on
// x.Content[i] terminates. Alias edges (node.Alias) point back into the
// document and may close a cycle (`a: &x {b: *x}` decodes to an alias whose
// target contains it). A group of mutually recursive functions that descends
// into children AND re-enters itself on x.Alias walks such a cycle for ever:
// stack overflow, no error. Following an alias once (without descending from
// there through the same recursion) is fine.

func ruleP11(c *Ctx, rule string) {
	r := c.R
	r.Rule(rule, "a recursion that descends into children re-enters itself along an alias edge only behind an ancestor test", 3)
	funcs := c.moduleFuncs()
	idx := map[*ssa.Function]int{}
	for i, f := range funcs {
		idx[f] = i
	}
	type callEdge struct {
		from, to *ssa.Function
		call     ssa.CallInstruction
	}
	var edges []callEdge
	succ := map[*ssa.Function][]*ssa.Function{}
	for _, f := range funcs {
		eachInstr(f, func(ins ssa.Instruction) {
			ci, ok := ins.(ssa.CallInstruction)
			if !ok {
				return
			}
			callee := ci.Common().StaticCallee()
			if callee == nil {
				return
			}
			if callee.Origin() != nil {
				callee = callee.Origin()
			}
			if _, inMod := idx[callee]; !inMod {
				return
			}
			edges = append(edges, callEdge{f, callee, ci})
			succ[f] = append(succ[f], callee)
		})
	}
	// Tarjan
	index, low := map[*ssa.Function]int{}, map[*ssa.Function]int{}
	onStack := map[*ssa.Function]bool{}
	comp := map[*ssa.Function]int{}
	var stack []*ssa.Function
	n, nc := 0, 0
	var strong func(v *ssa.Function)
	strong = func(v *ssa.Function) {
		n++
		index[v], low[v] = n, n
		stack = append(stack, v)
		onStack[v] = true
		for _, w := range succ[v] {
			if index[w] == 0 {
				strong(w)
				if low[w] < low[v] {
					low[v] = low[w]
				}
			} else if onStack[w] && index[w] < low[v] {
				low[v] = index[w]
			}
		}
		if low[v] == index[v] {
			nc++
			for {
				w := stack[len(stack)-1]
				stack = stack[:len(stack)-1]
				onStack[w] = false
				comp[w] = nc
				if w == v {
					break
				}
			}
		}
	}
	for _, f := range funcs {
		if index[f] == 0 {
			strong(f)
		}
	}
	var fromField func(v ssa.Value, field string) bool
	fromField = func(v ssa.Value, field string) bool {
		for d := 0; d < 4; d++ {
			switch x := v.(type) {
			case *ssa.UnOp:
				if x.Op != token.MUL {
					return false
				}
				if fa, ok := x.X.(*ssa.FieldAddr); ok && fieldName(fa) == field && isNodePtr(fa.X.Type()) {
					return true
				}
				if ia, ok := x.X.(*ssa.IndexAddr); ok && field == "Content" {
					return contentOwner(ia.X, 0) != nil
				}
				return false
			case *ssa.Phi:
				for _, e := range x.Edges {
					if fromField(e, field) {
						return true
					}
				}
				return false
			default:
				return false
			}
		}
		return false
	}
	deep := map[int]bool{}
	alias := map[int][]callEdge{}
	recursiveComps := 0
	for _, e := range edges {
		if comp[e.from] != comp[e.to] {
			continue
		}
		recursiveComps++
		for _, a := range e.call.Common().Args {
			if !isNodePtr(a.Type()) {
				continue
			}
			if fromField(a, "Content") {
				deep[comp[e.from]] = true
			}
			if fromField(a, "Alias") {
				alias[comp[e.from]] = append(alias[comp[e.from]], e)
			}
		}
	}
	r.Analysed["recursive_call_edges"] = recursiveComps
	nf := 0
	seenKey := map[string]int{}
	for _, f := range funcs { // deterministic order
		k := comp[f]
		if !deep[k] {
			continue
		}
		for _, e := range alias[k] {
			if e.from != f {
				continue
			}
			key := fmt.Sprintf("%s/%s(.Alias)", funcKey(e.from), e.to.Name())
			seenKey[key]++
			if seenKey[key] > 1 {
				key = fmt.Sprintf("%s#%d", key, seenKey[key])
			}
			inSCC := func(g *ssa.Function) bool { return comp[g] == k }
			if why := aliasReentryGuarded(e.from, e.to, e.call, inSCC); why != "" {
				nf++
				r.Discharge(rule, key, c.P.pos(e.call.Pos()), why)
				continue
			}
			if why, ok := p11Accepted[key]; ok {
				nf++
				r.Discharge(rule, key, c.P.pos(e.call.Pos()), "accepted: "+why)
				continue
			}
			nf++
			r.Finding(rule, key, c.P.pos(e.call.Pos()), fmt.Sprintf("%s re-enters %s on the target of an alias without testing whether that target is one of the node's own ancestors, and the same recursion descends into children: an alias whose target contains it (`a: &x {b: {<<: *x}}`) is walked for ever — stack overflow instead of a result or an error", funcKey(e.from), e.to.Name()))
		}
	}
	if nf == 0 {
		r.Discharge(rule, "module/no-deep-recursion-along-alias", "", fmt.Sprintf("%d recursive call edges examined: none passes x.Alias inside a recursion that also passes x.Content[i]", recursiveComps))
	}
}

// p11Accepted: alias re-entries that cannot meet a cycle for a reason outside the function.
var p11Accepted = map[string]string{
	"yqlib.shellVariablesEncoder.doEncode/doEncode(.Alias)": "the shell-variables encoder reports CanHandleAliases() == false, so the printer explodes every document before Encode (rule A2 of C13): no alias node reaches this arm, and explode itself refuses a cyclic merge",
}

// parentChainValue: v walks up the tree: a load of some node's Parent, or a phi fed by such loads.
func parentChainValue(v ssa.Value) *ssa.BasicBlock {
	isParentLoad := func(x ssa.Value) bool {
		u, ok := x.(*ssa.UnOp)
		if !ok || u.Op != token.MUL {
			return false
		}
		fa, ok := u.X.(*ssa.FieldAddr)
		return ok && fieldName(fa) == "Parent" && isNodePtr(fa.X.Type())
	}
	if isParentLoad(v) {
		return v.(*ssa.UnOp).Block()
	}
	if phi, ok := v.(*ssa.Phi); ok {
		for _, e := range phi.Edges {
			if isParentLoad(e) {
				return phi.Block()
			}
		}
	}
	return nil
}

// aliasReentryGuarded: the call that re-enters the recursion on x.Alias happens only after an
// ancestor of the node was compared with that alias target and found different — in the caller
// (the call sits on the not-equal side of such a comparison) or at the top of the callee (the
// comparison's equal side leaves the callee at once and every call back into the recursion comes
// after the ancestor walk). Returns the reason, or "".
func aliasReentryGuarded(from, to *ssa.Function, call ssa.CallInstruction, inSCC func(*ssa.Function) bool) string {
	isAliasLoad := func(x ssa.Value) bool {
		u, ok := x.(*ssa.UnOp)
		if !ok || u.Op != token.MUL {
			return false
		}
		fa, ok := u.X.(*ssa.FieldAddr)
		return ok && fieldName(fa) == "Alias" && isNodePtr(fa.X.Type())
	}
	// (A) in the caller
	found := ""
	dominatingConds(call.Block(), func(cond ssa.Value, taken bool, at *ssa.BasicBlock) {
		bo, ok := cond.(*ssa.BinOp)
		if !ok || (bo.Op != token.EQL && bo.Op != token.NEQ) {
			return
		}
		notEqualSide := (bo.Op == token.NEQ) == taken
		if !notEqualSide {
			return
		}
		for _, pr := range [][2]ssa.Value{{bo.X, bo.Y}, {bo.Y, bo.X}} {
			if parentChainValue(pr[0]) != nil && isAliasLoad(pr[1]) {
				found = "the call is made only when the map the alias sits in (reached through Parent) is not the alias target itself"
			}
		}
	})
	if found != "" {
		return found
	}
	// (B) at the top of the callee
	var aliasParams []*ssa.Parameter
	for i, a := range call.Common().Args {
		if isAliasLoad(a) && i < len(to.Params) {
			aliasParams = append(aliasParams, to.Params[i])
		}
	}
	if to.Blocks == nil {
		return ""
	}
	for _, b := range to.Blocks {
		ifi, ok := b.Instrs[len(b.Instrs)-1].(*ssa.If)
		if !ok {
			continue
		}
		bo, ok := ifi.Cond.(*ssa.BinOp)
		if !ok || bo.Op != token.EQL {
			continue
		}
		var walkBlk *ssa.BasicBlock
		for _, pr := range [][2]ssa.Value{{bo.X, bo.Y}, {bo.Y, bo.X}} {
			wb := parentChainValue(pr[0])
			if wb == nil {
				continue
			}
			for _, ap := range aliasParams {
				if pr[1] == ssa.Value(ap) {
					walkBlk = wb
				}
			}
		}
		if walkBlk == nil {
			continue
		}
		// equal side: leaves the callee without re-entering the recursion
		if _, returns := b.Succs[0].Instrs[len(b.Succs[0].Instrs)-1].(*ssa.Return); !returns {
			continue
		}
		ok2 := true
		for _, ins := range b.Succs[0].Instrs {
			if cc := callCommon(ins); cc != nil && cc.StaticCallee() != nil && inSCC(cc.StaticCallee()) {
				ok2 = false
			}
		}
		// every call back into the recursion comes after the ancestor walk
		eachInstr(to, func(ins ssa.Instruction) {
			if cc := callCommon(ins); cc != nil && cc.StaticCallee() != nil && inSCC(cc.StaticCallee()) {
				if !walkBlk.Dominates(ins.Block()) {
					ok2 = false
				}
			}
		})
		if ok2 {
			return "the callee first walks the ancestors of the node and leaves with an error when one of them is the alias target; every call back into the recursion comes after that walk"
		}
	}
	return ""
}

// ---- X7 / P9: `as $v` binds a copy whatever the bound node is ---------------------------------
//
// variableLoopSingleChild binds a Copy() of each matched node (the node itself
// only for `ref`). The copy is what keeps `$d | .x = 1` from rewriting the
// place $d was read from. It must be made for every element: a test on the
// element (its kind, its tag, its size) in front of the Copy hands document
// nodes out by reference for some inputs.
func ruleBindCopies(c *Ctx, rule string) {
	r := c.R
	r.Rule(rule, "`as $v` binds a copy of every matched node, whatever the node is", 1)
	consequence := "the variable is bound to the document's own node for such elements, so a later update of the variable's value (`$d | .x = 1`) rewrites the place it was read from"
	fn := c.libFunc("variableLoopSingleChild")
	if fn == nil {
		r.Fatal("anchor missing: variableLoopSingleChild")
		return
	}
	isCopy := func(f *ssa.Function) bool { return f != nil && f.Name() == "Copy" && f.Signature.Recv() != nil }
	direct := false
	helpers := map[string]*ssa.Function{}
	eachInstr(fn, func(ins ssa.Instruction) {
		call, ok := ins.(*ssa.Call)
		if !ok || call.Call.StaticCallee() == nil {
			return
		}
		callee := call.Call.StaticCallee()
		if isCopy(callee) {
			direct = true
			return
		}
		// a helper that is handed the element and makes the copy
		if callee.Blocks == nil || !strings.HasPrefix(funcKey(callee), "yqlib.") {
			return
		}
		eachInstr(callee, func(i2 ssa.Instruction) {
			if c2, ok := i2.(*ssa.Call); ok && isCopy(c2.Call.StaticCallee()) {
				if copiedParam(c2) != nil {
					helpers[callee.Name()] = callee
				}
			}
		})
	})
	if direct {
		ruleNoFilter(c, rule, "variableLoopSingleChild", map[string]bool{"Copy": true}, nil, consequence)
		return
	}
	if len(helpers) == 0 {
		r.Undecided(rule, "variableLoopSingleChild/element-action", c.P.pos(fn.Pos()), "neither variableLoopSingleChild nor a helper it hands the element to calls Copy(): shape not recognised")
		return
	}
	names := map[string]bool{}
	for n := range helpers {
		names[n] = true
	}
	// the helper is reached for every element …
	ruleNoFilter(c, rule, "variableLoopSingleChild", names, nil, consequence)
	// … and inside it the copy does not depend on the node
	for _, h := range helpers {
		eachInstr(h, func(ins ssa.Instruction) {
			c2, ok := ins.(*ssa.Call)
			if !ok || !isCopy(c2.Call.StaticCallee()) {
				return
			}
			p := copiedParam(c2)
			if p == nil {
				return
			}
			key := fmt.Sprintf("%s/Copy(%s)", h.Name(), p.Name())
			var bad []string
			dominatingConds(c2.Block(), func(cond ssa.Value, taken bool, at *ssa.BasicBlock) {
				if dependsOnValue(cond, p, 0) || dependsOnElemDeep(cond, p, 0) {
					bad = append(bad, describeCond(c, cond))
				}
			})
			if len(bad) == 0 {
				r.Discharge(rule, key, c.P.pos(c2.Pos()), "inside the helper the copy is made whatever the node is")
			} else {
				r.Finding(rule, key, c.P.pos(c2.Pos()), fmt.Sprintf("Copy is skipped depending on the node itself (%s): %s", strings.Join(bad, "; "), consequence))
			}
		})
	}
}

// createsChild: f is CreateChild, or a module helper that calls it (two levels).
func createsChild(f *ssa.Function, d int) bool {
	if f == nil {
		return false
	}
	if f.Name() == "CreateChild" {
		return true
	}
	if d >= 2 || f.Blocks == nil || !strings.HasPrefix(funcKey(f), "yqlib.") {
		return false
	}
	found := false
	eachInstr(f, func(ins ssa.Instruction) {
		if cc := callCommon(ins); cc != nil && cc.StaticCallee() != nil && createsChild(cc.StaticCallee(), d+1) {
			found = true
		}
	})
	return found
}

// ---- U9: auto-creation does not depend on how the key is spelt ---------------------------------
//
// `.a.b = v` creates b when a has no such entry. Whether an entry is created
// is decided by the context (read-only or not, splat or not) and by "nothing
// matched" — never by the text of the key: a key that happens to contain `*`,
// `?` or anything else is created like any other, or put-then-get fails for it.
func ruleU9(c *Ctx, rule string) {
	r := c.R
	r.Rule(rule, "whether a missing map entry is created does not depend on the text of the key", 1)
	fn := c.libFunc("traverseMap")
	if fn == nil {
		r.Fatal("anchor missing: traverseMap")
		return
	}
	// the key node parameter: the *CandidateNode parameter whose Value is handed to doTraverseMap / read for the new key
	var keyParam *ssa.Parameter
	for _, p := range fn.Params {
		if isNodePtr(p.Type()) && (p.Name() == "keyNode" || keyParam == nil && p != fn.Params[0]) {
			keyParam = p
		}
	}
	// the creation: CreateChild() on the matched map
	n := 0
	eachInstr(fn, func(ins ssa.Instruction) {
		call, ok := ins.(*ssa.Call)
		if !ok || call.Call.StaticCallee() == nil || !createsChild(call.Call.StaticCallee(), 0) {
			return
		}
		n++
		key := fmt.Sprintf("traverseMap/CreateChild#%d", n)
		var bad []string
		dominatingConds(call.Block(), func(cond ssa.Value, taken bool, at *ssa.BasicBlock) {
			if bo, isBo := cond.(*ssa.BinOp); isBo && (isErrorType(bo.X.Type()) || isErrorType(bo.Y.Type())) {
				return // the error of the look-up that went before: not a test of the key
			}
			if keyParam != nil && (dependsOnValue(cond, keyParam, 0) || dependsOnElemDeep(cond, keyParam, 0)) {
				bad = append(bad, describeCond(c, cond))
			}
		})
		if len(bad) == 0 {
			r.Discharge(rule, key, c.P.pos(call.Pos()), "the creation is decided by flags of the context and preferences and by the number of matches only")
		} else {
			r.Finding(rule, key, c.P.pos(call.Pos()), fmt.Sprintf("the missing entry is created or not depending on the key itself (%s): for keys of that form `.k = v` followed by `.k` no longer yields v", strings.Join(bad, "; ")))
		}
	})
	if n == 0 {
		r.Undecided(rule, "traverseMap/CreateChild", c.P.pos(fn.Pos()), "traverseMap no longer creates the missing entry itself: shape not recognised")
	}
}

// ---- Y9: copyToYamlNode copies every attribute for every node -----------------------------------
//
// copyToYamlNode is the one place that carries comments, style, tag, anchor and
// position from a CandidateNode to the yaml.Node that is printed (Y6 makes sure
// every printed node passes through it). Each attribute it writes must be
// written on every path: a store that is skipped for some kind of node (an
// early return for aliases, a branch on Kind) loses that attribute for those
// nodes only. A store guarded by a test of the very attribute it copies
// (`if o.Anchor != "" { node.Anchor = o.Anchor }`) loses nothing.
func ruleY9(c *Ctx, rule string) {
	r := c.R
	r.Rule(rule, "copyToYamlNode writes each attribute on every path, whatever the node is", 8)
	fn := c.libFunc("CandidateNode.copyToYamlNode")
	if fn == nil {
		r.Fatal("anchor missing: (*CandidateNode).copyToYamlNode")
		return
	}
	var target *ssa.Parameter
	for _, p := range fn.Params[1:] {
		if structNameOfPtr(p.Type()) == "Node" {
			target = p
		}
	}
	if target == nil {
		r.Fatal("anchor moved: copyToYamlNode has no *yaml.Node parameter")
		return
	}
	stores := map[string][]*ssa.Store{}
	eachInstr(fn, func(ins ssa.Instruction) {
		st, ok := ins.(*ssa.Store)
		if !ok {
			return
		}
		fa, ok := st.Addr.(*ssa.FieldAddr)
		if !ok || fa.X != ssa.Value(target) {
			return
		}
		stores[fieldName(fa)] = append(stores[fieldName(fa)], st)
	})
	var names []string
	for f := range stores {
		names = append(names, f)
	}
	sort.Strings(names)
	for _, f := range names {
		key := "copyToYamlNode/yaml.Node." + f
		sts := stores[f]
		isStore := func(ins ssa.Instruction) bool {
			for _, st := range sts {
				if ins == ssa.Instruction(st) {
					return true
				}
			}
			return false
		}
		avoidable := ""
		for _, b := range fn.Blocks {
			if _, ok := b.Instrs[len(b.Instrs)-1].(*ssa.Return); ok && pathAvoiding(fn, fn.Blocks[0], 0, b, len(b.Instrs)-1, isStore) {
				avoidable = c.P.pos(b.Instrs[len(b.Instrs)-1].Pos())
			}
		}
		if avoidable == "" {
			r.Discharge(rule, key, c.P.pos(sts[0].Pos()), "written on every path")
			continue
		}
		// conditional: acceptable only when every condition in front of the store reads the attribute being copied
		var foreign []string
		for _, st := range sts {
			dominatingConds(st.Block(), func(cond ssa.Value, taken bool, at *ssa.BasicBlock) {
				if !condReadsOnlyField(cond, fn.Params[0], f) {
					foreign = append(foreign, describeCond(c, cond))
				}
			})
		}
		own := 0
		for _, st := range sts {
			dominatingConds(st.Block(), func(cond ssa.Value, taken bool, at *ssa.BasicBlock) {
				if condReadsOnlyField(cond, fn.Params[0], f) {
					own++
				}
			})
		}
		if len(foreign) == 0 && own > 0 {
			r.Discharge(rule, key, c.P.pos(sts[0].Pos()), "skipped only under a test of the attribute itself")
		} else {
			r.Finding(rule, key, c.P.pos(sts[0].Pos()), fmt.Sprintf("yaml.Node.%s is not written on the path to the return at %s (the store depends on %s): nodes taking that path are printed without this attribute", f, avoidable, orText(strings.Join(uniq(foreign), "; "), "a condition that is not a test of the attribute itself")))
		}
	}
}

// condReadsOnlyField: every node-field read feeding cond is a read of recv.<field>.
func condReadsOnlyField(cond ssa.Value, recv ssa.Value, field string) bool {
	ok := true
	any := false
	var walk func(v ssa.Value, d int)
	walk = func(v ssa.Value, d int) {
		if d > 8 {
			ok = false
			return
		}
		switch x := v.(type) {
		case *ssa.Const:
		case *ssa.BinOp:
			walk(x.X, d+1)
			walk(x.Y, d+1)
		case *ssa.UnOp:
			if fa, isFa := x.X.(*ssa.FieldAddr); isFa && x.Op == token.MUL {
				if fa.X == recv && fieldName(fa) == field {
					any = true
				} else {
					ok = false
				}
				return
			}
			walk(x.X, d+1)
		case *ssa.Call:
			if b, isB := x.Call.Value.(*ssa.Builtin); isB && b.Name() == "len" {
				walk(x.Call.Args[0], d+1)
				return
			}
			ok = false
		default:
			ok = false
		}
	}
	walk(cond, 0)
	return ok && any
}

// ---- J12: a command-line setting is final before it is consulted --------------------------------
//
// The command package keeps the parsed flags in package-level variables and
// initCommand normalises them (`--tojson` means outputFormat = "json", the
// input format is derived from the file name, …). A decision taken from such a
// variable BEFORE a later statement of the same function rewrites it was taken
// from a value that is not the one the rest of the run uses: the encoder is
// then configured for another format than the one that is printed.
func ruleStaleSetting(c *Ctx, rule string) {
	r := c.R
	r.Rule(rule, "a command-line setting is not rewritten after a decision was taken from it in the same function", 3)
	n := 0
	for _, fn := range c.moduleFuncs() {
		if funcPkgPath(fn) != cmdPath {
			continue
		}
		type acc struct {
			loads  []*ssa.UnOp
			stores []*ssa.Store
		}
		byG := map[*ssa.Global]*acc{}
		get := func(g *ssa.Global) *acc {
			if byG[g] == nil {
				byG[g] = &acc{}
			}
			return byG[g]
		}
		eachInstr(fn, func(ins ssa.Instruction) {
			switch x := ins.(type) {
			case *ssa.UnOp:
				if g, ok := x.X.(*ssa.Global); ok && x.Op == token.MUL && g.Pkg != nil && g.Pkg.Pkg.Path() == cmdPath {
					get(g).loads = append(get(g).loads, x)
				}
			case *ssa.Store:
				if g, ok := x.Addr.(*ssa.Global); ok && g.Pkg != nil && g.Pkg.Pkg.Path() == cmdPath {
					get(g).stores = append(get(g).stores, x)
				}
			}
		})
		var gs []*ssa.Global
		for g, a := range byG {
			if len(a.stores) > 0 {
				gs = append(gs, g)
			}
		}
		sort.Slice(gs, func(i, j int) bool { return gs[i].Name() < gs[j].Name() })
		for _, g := range gs {
			a := byG[g]
			n++
			key := fmt.Sprintf("%s/%s", funcKey(fn), g.Name())
			isOwnStore := func(ins ssa.Instruction) bool {
				st, ok := ins.(*ssa.Store)
				return ok && st.Addr == ssa.Value(g)
			}
			bad := ""
			for _, ld := range a.loads {
				if !settingReadDecidesSomethingElse(ld, isOwnStore) {
					continue
				}
				for _, st := range a.stores {
					lb, sb := ld.Block(), st.Block()
					before := false
					if lb == sb {
						before = instrIndex(ld) < instrIndex(st)
					} else {
						before = lb.Dominates(sb) && !sb.Dominates(lb)
					}
					if before {
						bad = fmt.Sprintf("read at %s for a decision, rewritten at %s", c.P.pos(ld.Pos()), c.P.pos(st.Pos()))
					}
				}
			}
			if bad == "" {
				r.Discharge(rule, key, c.P.pos(a.stores[0].Pos()), "every decision taken from it comes after its last rewrite in this function (or only feeds that rewrite)")
			} else {
				r.Finding(rule, key, c.P.pos(a.stores[0].Pos()), fmt.Sprintf("the setting %s is %s: what was decided from the earlier value (encoder options, unwrapping) does not match the value the rest of the run uses", g.Name(), bad))
			}
		}
	}
	if n == 0 {
		r.Fatal("anchor moved: no function of the command package rewrites a package-level setting")
	}
}

// settingReadDecidesSomethingElse: the loaded value is used for anything but
// normalising the setting itself (a test whose branch rewrites the setting, or
// an operand of the value stored back into it).
func settingReadDecidesSomethingElse(ld *ssa.UnOp, isOwnStore func(ssa.Instruction) bool) bool {
	var foreign func(v ssa.Value, d int) bool
	foreign = func(v ssa.Value, d int) bool {
		if d > 8 || v.Referrers() == nil {
			return false
		}
		for _, ref := range *v.Referrers() {
			switch x := ref.(type) {
			case *ssa.DebugRef:
			case *ssa.Store:
				if _, toArray := x.Addr.(*ssa.IndexAddr); toArray {
					continue // into the argument array of a variadic call: followed from the array
				}
				if !isOwnStore(x) {
					return true
				}
			case *ssa.BinOp:
				if foreign(x, d+1) {
					return true
				}
			case *ssa.UnOp:
				if foreign(x, d+1) {
					return true
				}
			case *ssa.Phi:
				if foreign(x, d+1) {
					return true
				}
			case *ssa.Call:
				// handed to a function: what counts is what is done with the answer (a validity
				// test whose failure branch rewrites the setting is still normalisation); a call
				// whose result is not used (logging) decides nothing
				if x.Referrers() != nil && len(*x.Referrers()) > 0 && foreign(x, d+1) {
					return true
				}
			case *ssa.Extract:
				if foreign(x, d+1) {
					return true
				}
			case *ssa.MakeInterface, *ssa.Slice, *ssa.IndexAddr:
				// packing for a variadic logging call: follow the packed value
				if vv, ok := ref.(ssa.Value); ok && foreign(vv, d+1) {
					return true
				}
			case *ssa.If:
				// a test that (on one side) rewrites the setting is the normalisation itself
				blk := x.Block()
				rewrites := false
				for _, s := range blk.Succs {
					seen := map[*ssa.BasicBlock]bool{}
					work := []*ssa.BasicBlock{s}
					for len(work) > 0 && !rewrites {
						b := work[len(work)-1]
						work = work[:len(work)-1]
						if seen[b] || b == blk || len(b.Preds) > 1 && b != s {
							continue
						}
						seen[b] = true
						for _, ins := range b.Instrs {
							if isOwnStore(ins) {
								rewrites = true
							}
						}
						work = append(work, b.Succs...)
					}
				}
				if !rewrites {
					return true
				}
			default:
				return true
			}
		}
		return false
	}
	return foreign(ld, 0)
}

// copiedParam: the parameter whose node a Copy() call copies: the receiver is the
// parameter itself, or el.Value.(*CandidateNode) for a *list.Element parameter el.
func copiedParam(copyCall *ssa.Call) *ssa.Parameter {
	recv := copyCall.Call.Args[0]
	if p, ok := recv.(*ssa.Parameter); ok {
		return p
	}
	if el := listElementOf(recv); el != nil {
		if p, ok := el.(*ssa.Parameter); ok {
			return p
		}
	}
	return nil
}

// ---- M12: under DontFollowAlias no alias edge is followed ------------------------------------------
//
// A merge works on a copy of its left operand; the copy's alias nodes still
// point at the anchored nodes of the document. The merge's traversals carry
// DontFollowAlias so that they never leave the copy — M1's "no store reaches an
// operand" (engine E1) rests on it. The flag must therefore stop EVERY step from
// an alias node to its target inside the traversal functions, not only the
// merge-key look-up: a step `traverse(…, node.Alias, …)` that is taken whatever
// the preferences say lets `x *n y` create y's new fields inside the anchored
// map of the document.
func ruleM12(c *Ctx, rule string) {
	r := c.R
	r.Rule(rule, "a traversal step from an alias node to its target is taken only when the preferences allow following aliases", 2)
	isTravPrefs := func(t types.Type) bool { return namedTypeName(t) == "traversePreferences" }
	family := map[*ssa.Function]bool{}
	for _, fn := range c.moduleFuncs() {
		for _, p := range fn.Params {
			if isTravPrefs(p.Type()) {
				family[fn] = true
			}
		}
		eachInstr(fn, func(ins ssa.Instruction) {
			if ta, ok := ins.(*ssa.TypeAssert); ok && isTravPrefs(ta.AssertedType) {
				family[fn] = true
			}
		})
	}
	isDFA := func(v ssa.Value) bool {
		switch x := v.(type) {
		case *ssa.UnOp:
			if fa, isFa := x.X.(*ssa.FieldAddr); isFa && x.Op == token.MUL && fieldName(fa) == "DontFollowAlias" {
				return true
			}
		case *ssa.Field:
			return fieldNameOfField(x) == "DontFollowAlias"
		}
		return false
	}
	flagDown := func(blk *ssa.BasicBlock) bool {
		ok := false
		dominatingConds(blk, func(cond ssa.Value, taken bool, at *ssa.BasicBlock) {
			v := cond
			if u, isU := v.(*ssa.UnOp); isU && u.Op == token.NOT {
				v, taken = u.X, !taken
			}
			if isDFA(v) && !taken {
				ok = true
			}
			// a boolean computed beforehand: `followMerges := !prefs.DontFollowAlias && wantedKey != "<<"`
			if _, isPhi := v.(*ssa.Phi); isPhi && boolImpliesDown(v, taken, 0, isDFA) {
				ok = true
			}
		})
		return ok
	}
	isAliasLoad := func(x ssa.Value) bool {
		u, ok := x.(*ssa.UnOp)
		if !ok || u.Op != token.MUL {
			return false
		}
		fa, ok := u.X.(*ssa.FieldAddr)
		return ok && fieldName(fa) == "Alias" && isNodePtr(fa.X.Type())
	}
	var fns []*ssa.Function
	for fn := range family {
		fns = append(fns, fn)
	}
	sort.Slice(fns, func(i, j int) bool { return funcKey(fns[i]) < funcKey(fns[j]) })
	n := 0
	for _, fn := range fns {
		seen := map[string]int{}
		eachInstr(fn, func(ins ssa.Instruction) {
			ci, ok := ins.(ssa.CallInstruction)
			if !ok {
				return
			}
			callee := ci.Common().StaticCallee()
			if callee == nil || !family[callee] {
				return
			}
			follows := false
			for _, a := range ci.Common().Args {
				if isAliasLoad(a) {
					follows = true
				}
				if phi, isPhi := a.(*ssa.Phi); isPhi {
					for _, e := range phi.Edges {
						if isAliasLoad(e) {
							follows = true
						}
					}
				}
			}
			if !follows {
				return
			}
			n++
			key := fmt.Sprintf("%s/%s(.Alias)", funcKey(fn), callee.Name())
			seen[key]++
			if seen[key] > 1 {
				key = fmt.Sprintf("%s#%d", key, seen[key])
			}
			pos := c.P.pos(ins.Pos())
			switch {
			case flagDown(ins.Block()):
				r.Discharge(rule, key, pos, "the step is taken under a test of !DontFollowAlias")
			case callersEstablish(fn, func(call *ssa.CallCommon, at *ssa.BasicBlock) bool {
				return at.Parent() == fn || flagDown(at) // a call of the function by itself is inside what its outer callers guard
			}):
				r.Discharge(rule, key, pos, "every call of "+fn.Name()+" is made under a test of !DontFollowAlias")
			default:
				r.Finding(rule, key, pos, fmt.Sprintf("%s steps from an alias node to its target whatever the traverse preferences say: a merge (which works on a copy of its left operand and sets DontFollowAlias to stay inside it) follows the alias into the anchored node of the document and writes there", funcKey(fn)))
			}
		})
	}
	if n == 0 {
		r.Fatal("anchor moved: no traversal function steps from an alias node to its target")
	}
}

func orText(s, alt string) string {
	if s == "" {
		return alt
	}
	return s
}

// ---- A11: only an encoder that hands the node to the YAML marshaller keeps aliases -------------
//
// The printer explodes a document (resolves aliases and merge keys) before it
// gives it to an encoder whose CanHandleAliases() is false. An encoder may
// answer true only if its output format can express aliases — on this tree
// that is the YAML encoder, which hands the node to the yaml library. Any
// other encoder answering true receives `<<` keys and alias nodes it prints
// literally.
func ruleA11(c *Ctx, rule string) {
	r := c.R
	r.Rule(rule, "CanHandleAliases() is true only for an encoder that hands the node to the YAML library", 8)
	n := 0
	for _, fn := range c.moduleFuncs() {
		if fn.Name() != "CanHandleAliases" || fn.Signature.Recv() == nil || fn.Blocks == nil {
			continue
		}
		n++
		tname := namedTypeName(fn.Signature.Recv().Type())
		key := tname + ".CanHandleAliases"
		verdict := ""
		for _, b := range fn.Blocks {
			if ret, ok := b.Instrs[len(b.Instrs)-1].(*ssa.Return); ok && len(ret.Results) == 1 {
				k, isK := ret.Results[0].(*ssa.Const)
				switch {
				case !isK || k.Value == nil:
					verdict = "computed"
				case k.Value.String() == "true" && verdict != "computed":
					verdict = "true"
				case verdict == "":
					verdict = "false"
				}
			}
		}
		switch verdict {
		case "false":
			r.Discharge(rule, key, c.P.pos(fn.Pos()), "answers false: the printer explodes the document first")
		case "true":
			// its Encode must reach the YAML library's encoder
			// one of the encoder's own methods must hand the node to the YAML library
			// (reachability would not do: every function reaches it through debug logging)
			usesYaml := false
			for _, f := range c.moduleFuncs() {
				if f.Signature.Recv() == nil || namedTypeName(f.Signature.Recv().Type()) != tname {
					continue
				}
				eachInstr(f, func(ins ssa.Instruction) {
					if cc := callCommon(ins); cc != nil {
						if nme := calleeName(cc); strings.Contains(nme, "yaml.v3") || strings.Contains(nme, "go-yaml") {
							usesYaml = true
						}
					}
				})
			}
			if usesYaml {
				r.Discharge(rule, key, c.P.pos(fn.Pos()), "answers true and its Encode hands the node to the YAML library, which writes anchors, aliases and merge keys as such")
			} else {
				r.Finding(rule, key, c.P.pos(fn.Pos()), tname+" answers that it can handle aliases, so the printer no longer explodes documents for it, but its Encode never reaches the YAML library: merge keys are printed as literal `<<` members and alias nodes by name")
			}
		default:
			r.Undecided(rule, key, c.P.pos(fn.Pos()), "CanHandleAliases does not return a constant: shape not recognised")
		}
	}
	if n == 0 {
		r.Fatal("anchor moved: no CanHandleAliases method in the module")
	}
}

// ---- N11: a path step hands on every node the traversal returns ---------------------------------
//
// traversePathOperator concatenates, candidate by candidate, what traverse
// returns. Dropping a returned node because of what it is (seen before, a
// certain kind) changes the result list: `.servers[].name` over two aliases of
// one anchor must yield the name twice.
func ruleN11(c *Ctx, rule string) {
	r := c.R
	r.Rule(rule, "traversePathOperator hands on every node traverse returns", 1)
	fn := c.libFunc("traversePathOperator")
	if fn == nil {
		r.Fatal("anchor missing: traversePathOperator")
		return
	}
	whole, single := 0, 0
	eachInstr(fn, func(ins ssa.Instruction) {
		call, ok := ins.(*ssa.Call)
		if !ok || call.Call.StaticCallee() == nil {
			return
		}
		switch call.Call.StaticCallee().Name() {
		case "PushBackList":
			whole++
		case "PushBack":
			single++
		}
	})
	switch {
	case whole > 0 && single == 0:
		r.Discharge(rule, "traversePathOperator/PushBackList", c.P.pos(fn.Pos()), "the list traverse returns is appended as a whole")
	case single > 0:
		ruleNoFilter(c, rule, "traversePathOperator", map[string]bool{"PushBack": true}, nil,
			"a node the traversal returned is dropped because of what it is: a path step over several candidates (aliases of one anchor, maps merging the same anchor) yields fewer results than candidates")
	default:
		r.Undecided(rule, "traversePathOperator/append", c.P.pos(fn.Pos()), "traversePathOperator appends the traversal results neither as a list nor one by one: shape not recognised")
	}
}
