package main

import (
	"fmt"
	"go/token"
	"strings"

	"golang.org/x/tools/go/ssa"
)

// C12 — in-place edit is all-or-nothing.

func init() {
	register("C12", "Decides structural necessary conditions of '-i leaves the complete old or the complete new content': (W1) census — every call in the module that mutates the file system by path or descriptor has a role in a closed table (temp-create, temp-mode, temp-owner, temp-remove, commit-rename, fallback-copy, split-output, front-matter-temp); an unlisted (function, callee) pair is a violation; (W2) the target-writing roles are reachable only through FinishWriteInPlace, only on its evaluatedSuccessfully branch; FinishWriteInPlace is called only from the deferred closures of the two RunE functions, only under `cmdError == nil`, with the global completedSuccessfully, whose every store is `err == nil` of the evaluation call; (W3) no target-writing role truncates the destination before the complete new content exists elsewhere; (W4) every success return of CreateTempFile passes os.Chmod(temp, Stat(target).Mode()); (W5) the printer flushes the writer it obtains and returns the flush error (shared with C19-E2). (W4b) every Chmod sets a FileInfo's Mode() unmodified. W2 includes the initial value of completedSuccessfully (false). Does NOT decide behaviour at an actual kill point or injected fault.", runC12)
}

// fsMutators: qualified callee names that change the file system.
var fsMutators = map[string]bool{
	"os.Create": true, "os.OpenFile": true, "os.WriteFile": true, "os.Rename": true, "os.Remove": true, "os.RemoveAll": true,
	"os.Truncate": true, "os.Chmod": true, "os.Chown": true, "os.Lchown": true, "os.Mkdir": true, "os.MkdirAll": true,
	"os.CreateTemp": true, "os.MkdirTemp": true, "os.Symlink": true, "os.Link": true, "io/ioutil.WriteFile": true, "io/ioutil.TempFile": true,
	"(*os.File).Write": true, "(*os.File).WriteString": true, "(*os.File).WriteAt": true, "(*os.File).Truncate": true,
	"(*os.File).Chmod": true, "(*os.File).Chown": true, "(*os.File).ReadFrom": true,
}

// c12Roles: (function/callee) -> role.
var c12Roles = map[string]string{
	"yqlib.createTempFile/os.Mkdir":                             "temp-create: creates os.TempDir() if missing",
	"yqlib.createTempFile/os.CreateTemp":                        "temp-create: the file that receives all output",
	"yqlib.writeInPlaceHandlerImpl.CreateTempFile/os.Chmod":     "temp-mode: permission bits of the target copied to the temp file before writing",
	"yqlib.changeOwner/os.Chown":                                "temp-owner: owner of the target copied to the temp file (best effort)",
	"yqlib.tryRemoveTempFile/os.Remove":                         "temp-remove: removes a temp file by name",
	"yqlib.tryRenameFile/os.Rename":                             "commit-rename: atomically replaces the target with the complete temp file",
	"yqlib.copyFileContents/os.Create":                          "fallback-copy: cross-device fallback, opens the TARGET with truncation (W3)",
	"yqlib.multiPrintWriter.GetWriter/os.MkdirAll":              "split-output: --split-exp output directory",
	"yqlib.multiPrintWriter.GetWriter/os.Create":                "split-output: --split-exp output file (rejected together with -i by initCommand)",
	"yqlib.frontMatterHandlerImpl.Split/(*os.File).WriteString": "front-matter-temp: writes the front matter to its own temp file",
}

var c12TargetWriting = map[string]bool{
	"yqlib.tryRenameFile/os.Rename":    true,
	"yqlib.copyFileContents/os.Create": true,
}

// inheritedRole: fn is called only directly, and every caller holds a role for this callee
// (itself or, one more level up, through the same rule); returns the holder's table key.
func inheritedRole(fn *ssa.Function, callee string) string {
	holder := ""
	ok := callersEstablish(fn, func(call *ssa.CallCommon, at *ssa.BasicBlock) bool {
		caller := at.Parent()
		k := funcKey(caller) + "/" + callee
		if _, has := c12Roles[k]; has {
			holder = k
			return true
		}
		return false
	})
	if !ok {
		return ""
	}
	return holder
}

func runC12(c *Ctx) {
	r := c.R
	r.Rule("W1", "every file-system mutation has a role in the closed table", 9)
	r.Rule("W2", "the target is written only through FinishWriteInPlace(completedSuccessfully) under cmdError == nil", 6)
	r.Rule("W3", "the destination is never truncated before the new content is complete elsewhere", 1)
	r.Rule("W4", "every success return of CreateTempFile passes Chmod(temp, Stat(target).Mode())", 1)
	r.Rule("W5", "the printer flushes its writer and returns the flush error", 1)
	c.P.buildSSA()

	// ---- W1 census, W3 --------------------------------------------------------
	type site struct {
		fn   *ssa.Function
		ins  ssa.Instruction
		name string
	}
	var sites []site
	for _, fn := range c.moduleFuncs() {
		eachInstr(fn, func(ins ssa.Instruction) {
			cc := callCommon(ins)
			if cc == nil {
				return
			}
			n := calleeName(cc)
			// io.Copy / io.WriteString etc. into an *os.File
			if fsMutators[n] {
				sites = append(sites, site{fn, ins, n})
			}
		})
	}
	seenRole := map[string]bool{}
	for _, s := range sites {
		key := funcKey(s.fn) + "/" + s.name
		role, ok := c12Roles[key]
		seenRole[key] = true
		if !ok {
			// a helper extracted from a function that holds the role: the call sits in a
			// function that is only ever called (directly) from role holders for this callee
			if holder := inheritedRole(s.fn, s.name); holder != "" {
				seenRole[holder] = true
				r.Discharge("W1", key, c.P.pos(s.ins.Pos()), "helper called only from "+strings.SplitN(holder, "/", 2)[0]+", which holds the role: "+c12Roles[holder])
				if c12TargetWriting[holder] {
					c12TargetWriting[key] = true
				}
				continue
			}
		}
		if !ok {
			r.Finding("W1", key, c.P.pos(s.ins.Pos()), "file-system mutation outside the role table of the in-place protocol: not known to preserve 'old or complete new content'")
			continue
		}
		r.Discharge("W1", key, c.P.pos(s.ins.Pos()), role)
		// W3: opening with truncation
		if s.name == "os.Create" || s.name == "os.OpenFile" || s.name == "os.WriteFile" || s.name == "os.Truncate" {
			if c12TargetWriting[key] {
				r.Finding("W3", key, c.P.pos(s.ins.Pos()), "the target itself is opened with O_TRUNC and then filled by io.Copy: a write error or kill between truncate and end of copy leaves a truncated mix (cross-device fallback)")
			} else if s.name == "os.OpenFile" {
				r.Finding("W3", key, c.P.pos(s.ins.Pos()), "os.OpenFile on a protocol path: flags not modelled")
			}
		}
	}
	r.Analysed["fs_mutation_sites"] = len(sites)

	// ---- W2 -------------------------------------------------------------------
	finish := c.libFunc("writeInPlaceHandlerImpl.FinishWriteInPlace")
	if finish == nil {
		r.Fatal("anchor missing: (*writeInPlaceHandlerImpl).FinishWriteInPlace")
		return
	}
	// (a) who reaches the target-writing roles (static callers, transitively)
	writers := map[*ssa.Function]bool{}
	for _, s := range sites {
		if c12TargetWriting[funcKey(s.fn)+"/"+s.name] {
			writers[s.fn] = true
		}
	}
	callers := func(target *ssa.Function) []*ssa.Call {
		var out []*ssa.Call
		for _, fn := range c.moduleFuncs() {
			eachInstr(fn, func(ins ssa.Instruction) {
				if call, ok := ins.(*ssa.Call); ok && call.Call.StaticCallee() == target {
					out = append(out, call)
				}
			})
		}
		return out
	}
	// closure: every chain of static callers of a writer must end in FinishWriteInPlace
	var check func(fn *ssa.Function, depth int, chain string)
	visited := map[*ssa.Function]bool{}
	check = func(fn *ssa.Function, depth int, chain string) {
		if visited[fn] || depth > 6 {
			return
		}
		visited[fn] = true
		cs := callers(fn)
		// referenced as a function value anywhere?
		for _, g := range c.moduleFuncs() {
			eachInstr(g, func(ins ssa.Instruction) {
				if _, isCall := ins.(*ssa.Call); isCall {
					return
				}
				for _, op := range ins.Operands(nil) {
					if *op == ssa.Value(fn) {
						r.Finding("W2", funcKey(fn)+"/escapes", c.P.pos(ins.Pos()), "a target-writing function is used as a value: its callers cannot be enumerated")
					}
				}
			})
		}
		if len(cs) == 0 && fn != finish {
			r.Discharge("W2", funcKey(fn)+"/unreferenced", c.P.pos(fn.Pos()), "target-writing helper has no callers")
		}
		for _, call := range cs {
			caller := call.Parent()
			key := fmt.Sprintf("%s<-%s", funcKey(fn), funcKey(caller))
			if caller == finish {
				// only on the evaluatedSuccessfully branch
				ok := false
				dominatingConds(call.Block(), func(cond ssa.Value, taken bool, at *ssa.BasicBlock) {
					if p, isP := cond.(*ssa.Parameter); isP && taken && p.Name() == finish.Params[1].Name() {
						ok = true
					}
				})
				if ok {
					r.Discharge("W2", key, c.P.pos(call.Pos()), "target replaced only on the evaluatedSuccessfully branch of FinishWriteInPlace")
				} else {
					r.Finding("W2", key, c.P.pos(call.Pos()), "FinishWriteInPlace replaces the target without testing evaluatedSuccessfully: a failed run overwrites the file")
				}
				continue
			}
			if writers[caller] || strings.HasPrefix(caller.Name(), "tryRename") || strings.HasPrefix(caller.Name(), "copyFile") {
				r.Discharge("W2", key, c.P.pos(call.Pos()), "internal step of the commit helper")
			} else {
				r.Finding("W2", key, c.P.pos(call.Pos()), "the target-writing step is reachable from outside FinishWriteInPlace")
			}
			check(caller, depth+1, chain+" <- "+funcKey(caller))
		}
	}
	for w := range writers {
		check(w, 0, funcKey(w))
	}
	// (b) FinishWriteInPlace call sites: invoke through the handler interface
	nfin := 0
	for _, fn := range c.moduleFuncs() {
		eachInstr(fn, func(ins ssa.Instruction) {
			cc := callCommon(ins)
			if cc == nil {
				return
			}
			isFinish := (cc.IsInvoke() && cc.Method.Name() == "FinishWriteInPlace") || cc.StaticCallee() == finish
			if !isFinish {
				return
			}
			nfin++
			key := funcKey(fn) + "/FinishWriteInPlace"
			// in a deferred closure of a RunE function
			parent := fn.Parent()
			inRunE := parent != nil && (parent.Name() == "evaluateSequence" || parent.Name() == "evaluateAll")
			deferred := false
			if parent != nil {
				eachInstr(parent, func(pi ssa.Instruction) {
					if d, ok := pi.(*ssa.Defer); ok {
						if mc, ok := d.Call.Value.(*ssa.MakeClosure); ok && mc.Fn == fn {
							deferred = true
						}
					}
				})
			}
			// … or in a named helper whose every use in the module is a `defer` in a RunE function
			if parent == nil {
				uses, allDeferred := 0, true
				for _, g := range c.moduleFuncs() {
					eachInstr(g, func(pi ssa.Instruction) {
						switch x := pi.(type) {
						case *ssa.Defer:
							if x.Call.StaticCallee() == fn {
								uses++
								if g.Name() != "evaluateSequence" && g.Name() != "evaluateAll" {
									allDeferred = false
								}
							}
						case *ssa.Call:
							if x.Call.StaticCallee() == fn {
								allDeferred = false
							}
						case *ssa.Go:
							if x.Call.StaticCallee() == fn {
								allDeferred = false
							}
						}
					})
				}
				if uses > 0 && allDeferred && !usedAsFuncValue(fn) {
					inRunE, deferred = true, true
					nfin += uses - 1
				}
			}
			// argument: load of global completedSuccessfully
			args := cc.Args
			if !cc.IsInvoke() {
				args = args[1:]
			}
			argOK := false
			if len(args) == 1 {
				if u, ok := args[0].(*ssa.UnOp); ok && u.Op == token.MUL {
					if g, ok := u.X.(*ssa.Global); ok && g.Name() == "completedSuccessfully" {
						argOK = true
					}
				}
			}
			// guard: cmdError == nil
			guarded := false
			dominatingConds(ins.Block(), func(cond ssa.Value, taken bool, at *ssa.BasicBlock) {
				bo, ok := cond.(*ssa.BinOp)
				if !ok {
					return
				}
				isErrLoad := func(v ssa.Value) bool {
					u, ok := v.(*ssa.UnOp)
					if !ok || u.Op != token.MUL {
						return false
					}
					switch pv := u.X.(type) {
					case *ssa.FreeVar:
						return isErrorType(derefType(pv.Type()))
					case *ssa.Parameter:
						// the deferred helper is handed &cmdError
						return isErrorType(derefType(pv.Type()))
					}
					return false
				}
				if (isErrLoad(bo.X) && isNilConst(bo.Y)) || (isErrLoad(bo.Y) && isNilConst(bo.X)) {
					if (bo.Op == token.EQL && taken) || (bo.Op == token.NEQ && !taken) {
						guarded = true
					}
				}
			})
			switch {
			case !inRunE || !deferred:
				r.Finding("W2", key, c.P.pos(ins.Pos()), "FinishWriteInPlace is called outside the deferred closure of evaluateSequence/evaluateAll")
			case !argOK:
				r.Finding("W2", key, c.P.pos(ins.Pos()), "FinishWriteInPlace is not called with the global completedSuccessfully")
			case !guarded:
				r.Finding("W2", key, c.P.pos(ins.Pos()), "FinishWriteInPlace is called although the command already failed (cmdError != nil, e.g. -e with no match): the target is replaced and yq exits non-zero")
			default:
				r.Discharge("W2", key, c.P.pos(ins.Pos()), "deferred, under cmdError == nil, with completedSuccessfully")
			}
		})
	}
	if nfin < 2 {
		r.Fatal("anchor moved: expected FinishWriteInPlace to be called from both RunE functions, found %d call(s)", nfin)
	}
	// (c) completedSuccessfully stores: checked by E3(b) logic
	for _, fn := range runEFuncs(c) {
		var evals []ssa.Value
		eachInstr(fn, func(ins ssa.Instruction) {
			if call, ok := ins.(*ssa.Call); ok && call.Call.IsInvoke() && strings.HasPrefix(call.Call.Method.Name(), "Evaluate") {
				evals = append(evals, call)
			}
		})
		derives := func(v ssa.Value) bool {
			ok := false
			returnLeaves(v, func(l ssa.Value) bool {
				for _, e := range evals {
					if l == e {
						ok = true
					}
				}
				return false
			})
			return ok
		}
		eachInstr(fn, func(ins ssa.Instruction) {
			st, ok := ins.(*ssa.Store)
			if !ok {
				return
			}
			g, ok := st.Addr.(*ssa.Global)
			if !ok || g.Name() != "completedSuccessfully" {
				return
			}
			key := funcKey(fn) + "/completedSuccessfully="
			bo, ok := st.Val.(*ssa.BinOp)
			if ok && bo.Op == token.EQL && ((derives(bo.X) && isNilConst(bo.Y)) || (derives(bo.Y) && isNilConst(bo.X))) {
				r.Discharge("W2", key, c.P.pos(st.Pos()), "completedSuccessfully := (evaluation error == nil)")
			} else {
				r.Finding("W2", key, c.P.pos(st.Pos()), "completedSuccessfully is not `err == nil` of the evaluation call: a failed run may commit the in-place file")
			}
		})
	}
	// the value it starts with: a run that panics (or leaves before the evaluation) never reaches the
	// stores above, and the deferred in-place step then reads the initial value — it must be false
	initKey := "cmd.init/completedSuccessfully initial value"
	initBad := ""
	var inits []*ssa.Function
	if sp := c.P.SSAPkg[cmdPath]; sp != nil {
		if f := sp.Func("init"); f != nil {
			inits = append(inits, f)
		}
	}
	for _, fn := range inits {
		eachInstr(fn, func(ins ssa.Instruction) {
			if st, ok := ins.(*ssa.Store); ok {
				if g, ok := st.Addr.(*ssa.Global); ok && g.Name() == "completedSuccessfully" {
					if k, isK := st.Val.(*ssa.Const); !isK || k.Value == nil || k.Value.String() != "false" {
						initBad = c.P.pos(st.Pos())
					}
				}
			}
		})
	}
	if initBad == "" {
		r.Discharge("W2", initKey, "-", "starts as false (zero value, or an explicit false)")
	} else {
		r.Finding("W2", initKey, initBad, "completedSuccessfully does not start as false: when the evaluation panics or is never reached, the deferred in-place step commits the partial temporary file over the target")
	}
	// any other store to completedSuccessfully in the module
	for _, fn := range c.moduleFuncs() {
		if fn.Name() == "evaluateSequence" || fn.Name() == "evaluateAll" || fn.Name() == "init" {
			continue
		}
		eachInstr(fn, func(ins ssa.Instruction) {
			if st, ok := ins.(*ssa.Store); ok {
				if g, ok := st.Addr.(*ssa.Global); ok && g.Name() == "completedSuccessfully" {
					r.Finding("W2", funcKey(fn)+"/completedSuccessfully=", c.P.pos(st.Pos()), "completedSuccessfully is written outside the RunE functions")
				}
			}
		})
	}

	// ---- W4 -------------------------------------------------------------------
	ctf := c.libFunc("writeInPlaceHandlerImpl.CreateTempFile")
	if ctf == nil {
		r.Fatal("anchor missing: (*writeInPlaceHandlerImpl).CreateTempFile")
		return
	}
	// isChmodWith: ins is os.Chmod(temp, m) with m the Mode() of os.Stat(target) — or a call of a
	// module helper every success return of which passes such a Chmod; bind maps the parameters of
	// the helper under examination to what the call hands it.
	var isChmodWith func(ins ssa.Instruction, bind map[*ssa.Parameter]ssa.Value) bool
	chmodDepth := 0
	isChmodWith = func(ins ssa.Instruction, bind map[*ssa.Parameter]ssa.Value) bool {
		cc := callCommon(ins)
		if cc == nil {
			return false
		}
		// a module helper every success return of which passes the Chmod
		if h := cc.StaticCallee(); h != nil && h.Blocks != nil && strings.HasPrefix(funcKey(h), "yqlib.") && calleeName(cc) != "os.Chmod" && chmodDepth < 2 {
			chmodDepth++
			defer func() { chmodDepth-- }()
			inner := map[*ssa.Parameter]ssa.Value{}
			for i, q := range h.Params {
				if i < len(cc.Args) {
					a := cc.Args[i]
					if pp, isP := a.(*ssa.Parameter); isP && bind[pp] != nil {
						a = bind[pp]
					}
					inner[q] = a
				}
			}
			nret, all := 0, true
			for _, b := range h.Blocks {
				ret, ok := b.Instrs[len(b.Instrs)-1].(*ssa.Return)
				if !ok {
					continue
				}
				// error exits of the helper (a non-nil error tested) do not count
				if isErrorExit(ret) {
					continue
				}
				nret++
				if pathAvoiding(h, h.Blocks[0], 0, b, len(b.Instrs)-1, func(i2 ssa.Instruction) bool { return isChmodWith(i2, inner) }) {
					all = false
				}
			}
			return nret > 0 && all
		}
		if calleeName(cc) != "os.Chmod" || len(cc.Args) != 2 {
			return false
		}
		// mode argument derives from (FileInfo).Mode() of os.Stat(...)
		ok := false
		var walk func(v ssa.Value, d int)
		walk = func(v ssa.Value, d int) {
			if d > 8 {
				return
			}
			if pp, isP := v.(*ssa.Parameter); isP && bind[pp] != nil {
				walk(bind[pp], d+1)
				return
			}
			if call, isCall := v.(*ssa.Call); isCall {
				if call.Call.IsInvoke() && call.Call.Method.Name() == "Mode" {
					walk(call.Call.Value, d+1)
				}
				// os.Stat follows a symbolic link to the file being edited; os.Lstat
				// would hand out the link's own mode (0777)
				if n := calleeName(&call.Call); n == "os.Stat" || n == "(*os.File).Stat" {
					ok = true
				}
			}
			if ex, isEx := v.(*ssa.Extract); isEx {
				walk(ex.Tuple, d+1)
			}
		}
		walk(cc.Args[1], 0)
		return ok
	}
	isChmod := func(ins ssa.Instruction) bool { return isChmodWith(ins, nil) }
	missing := ""
	nret := 0
	for _, b := range ctf.Blocks {
		ret, ok := b.Instrs[len(b.Instrs)-1].(*ssa.Return)
		if !ok || len(ret.Results) != 2 {
			continue
		}
		if cst, ok := ret.Results[0].(*ssa.Const); ok && cst.IsNil() {
			continue // error exit: (nil, err)
		}
		nret++
		if pathAvoiding(ctf, ctf.Blocks[0], 0, b, len(b.Instrs)-1, isChmod) {
			missing = c.P.pos(ret.Pos())
		}
	}
	switch {
	case nret == 0:
		r.Fatal("anchor moved: no success return in CreateTempFile")
	case missing != "":
		r.Finding("W4", "CreateTempFile/chmod", missing, "a success return of CreateTempFile is reachable without os.Chmod(temp, m) where m is the Mode() of os.Stat(target) (not Lstat: for a symbolic link that is the link's 0777): the edited file does not keep its permission bits")
	default:
		r.Discharge("W4", "CreateTempFile/chmod", c.P.pos(ctf.Pos()), "every success return passes os.Chmod with the mode of os.Stat(target)")
	}

	ruleW6(c, "W6")
	ruleW4b(c, "W4")

	// ---- W5 -------------------------------------------------------------------
	before := len(r.obligs)
	ruleE2(c, "W5")
	// keep only the printer's obligation(s) and any finding
	var kept []Oblig
	kept = append(kept, r.obligs[:before]...)
	for _, o := range r.obligs[before:] {
		if strings.Contains(o.Key, "PrintResults") || o.Verdict != "discharged" {
			kept = append(kept, o)
		}
	}
	r.obligs = kept
}

// ruleW4b: every Chmod in the module sets the permission bits of a FileInfo as
// they are — the value of a Mode() call (possibly handed down through a
// parameter), never a mask or an arithmetic variation of it. The edited file
// must come back with the bits it had; a second Chmod with a narrowed mode
// after the first undoes what W4 establishes.
func ruleW4b(c *Ctx, rule string) {
	r := c.R
	n := 0
	var plain func(v ssa.Value, d int) bool
	plain = func(v ssa.Value, d int) bool {
		if d > 4 {
			return false
		}
		switch x := v.(type) {
		case *ssa.Call:
			return x.Call.IsInvoke() && x.Call.Method.Name() == "Mode"
		case *ssa.Parameter:
			fn := x.Parent()
			return callersEstablish(fn, func(call *ssa.CallCommon, at *ssa.BasicBlock) bool {
				a := argOf(call, fn, x)
				return a != nil && plain(a, d+1)
			})
		}
		return false
	}
	for _, fn := range c.moduleFuncs() {
		seen := 0
		eachInstr(fn, func(ins ssa.Instruction) {
			cc := callCommon(ins)
			if cc == nil {
				return
			}
			name := calleeName(cc)
			if name != "os.Chmod" && name != "(*os.File).Chmod" {
				return
			}
			n++
			seen++
			key := fmt.Sprintf("%s/chmod-mode#%d", funcKey(fn), seen)
			if plain(cc.Args[len(cc.Args)-1], 0) {
				r.Discharge(rule, key, c.P.pos(ins.Pos()), "the mode is the value of a FileInfo's Mode(), unmodified")
			} else {
				r.Finding(rule, key, c.P.pos(ins.Pos()), "Chmod with a computed mode ("+exprOfValue(cc.Args[len(cc.Args)-1])+"): the file does not come back with exactly the permission bits it had")
			}
		})
	}
	if n == 0 {
		r.Fatal("anchor moved: no Chmod call in the module")
	}
}

// usedAsFuncValue: fn is referenced other than as the callee of a call / defer / go.
func usedAsFuncValue(fn *ssa.Function) bool {
	callIndexMu.Lock()
	if callIndexProg != fn.Prog {
		buildCallIndex(fn.Prog)
		callIndexProg = fn.Prog
	}
	callIndexMu.Unlock()
	return usedAsValue[fn]
}
