// Package bad holds one seeded instance of every violation pattern whose
// expected count on the real tree is zero. The checker analyses it before
// every run and refuses to give a verdict if a rule fails to fire here
// (a rule that matches nothing would otherwise pass vacuously forever).
package bad

import (
	"bufio"
	"encoding/csv"
	"encoding/json"
	"errors"
	"fmt"
	"io"
	"os"
	"regexp"
	"sort"
	"strings"
)

// --- mutation footprint (engine E1) -------------------------------------------

type CandidateNode struct {
	Value   string
	Content []*CandidateNode
	Key     *CandidateNode
	Parent  *CandidateNode
	Alias   *CandidateNode
}

func (n *CandidateNode) Copy() *CandidateNode {
	c := &CandidateNode{Value: n.Value, Parent: n.Parent, Alias: n.Alias}
	for _, ch := range n.Content {
		c.Content = append(c.Content, ch.Copy())
	}
	return c
}

// MutatesInput stores into a node reached from its parameter.
func MutatesInput(n *CandidateNode) {
	for _, ch := range n.Content {
		ch.Value = "x"
	}
}

// MutatesCopy is clean: it only touches a fresh copy.
func MutatesCopy(n *CandidateNode) *CandidateNode {
	c := n.Copy()
	c.Value = "y"
	for _, ch := range c.Content {
		ch.Value = "x"
	}
	return c
}

var counter int

// WritesGlobal writes process-global state.
func WritesGlobal() { counter++ }

// --- comparators (O1, O2, O3) ----------------------------------------------------

type byDiff []int64

func (a byDiff) Len() int           { return len(a) }
func (a byDiff) Swap(i, j int)      { a[i], a[j] = a[j], a[i] }
func (a byDiff) Less(i, j int) bool { return cmp(a[i], a[j]) < 0 }

func cmp(x, y int64) int {
	if x == 0 {
		panic("zero")
	}
	return int(x - y)
}

type rec struct{ k int64 }

func UnstableSort(r []rec) {
	sort.Slice(r, func(i, j int) bool { return r[i].k < r[j].k })
	sort.Sort(byDiff(nil))
}

// --- error discipline (E1, E2, recover) ----------------------------------------------

func Swallows(w io.Writer) error {
	_, err := w.Write([]byte("x"))
	if err != nil {
		return nil
	}
	return nil
}

func Drops(f *os.File) {
	f.Close()
}

func Unflushed(w io.Writer, rows [][]string) error {
	cw := csv.NewWriter(w)
	for _, r := range rows {
		if err := cw.Write(r); err != nil {
			return err
		}
	}
	return nil
}

func UnflushedBuf(w io.Writer) error {
	bw := bufio.NewWriter(w)
	_, err := bw.WriteString("x")
	return err
}

func RecoverLost() (int, error) {
	var err error
	defer func() {
		if r := recover(); r != nil {
			err = fmt.Errorf("%v", r)
		}
	}()
	_ = err
	return 1, nil
}

// --- panics (P1, P4, P5) ----------------------------------------------------------

func DynamicRegex(p string) bool { return regexp.MustCompile(p).MatchString("x") }

func UnguardedIndex(s []string) string { return s[0] + s[len(s)-1] }

func GuardedIndex(s []string) string {
	if len(s) > 1 {
		return s[1]
	}
	return ""
}

func Divide(a, b int) int { return a / b }

func Repeat(n int) string { return strings.Repeat("x", n) }

func ExplicitPanic(err error) {
	if err != nil {
		panic(err)
	}
}

// --- JSON (J1, J2, J4) --------------------------------------------------------------

func EscapesHTML(w io.Writer, v interface{}) error {
	enc := json.NewEncoder(w)
	return enc.Encode(v)
}

func LossyNumber(data []byte) (interface{}, error) {
	var v interface{}
	err := json.Unmarshal(data, &v)
	return v, err
}

func IntoMap(data []byte) (map[string]interface{}, error) {
	m := map[string]interface{}{}
	err := json.Unmarshal(data, &m)
	return m, err
}

// --- map order (G5) --------------------------------------------------------------------

func MapOrder(w io.Writer, m map[string]string) {
	for k, v := range m {
		fmt.Fprintf(w, "%s=%s\n", k, v)
	}
}

var _ = errors.New

// StaleLength: the length is taken once, the node grows, the old length is used.
func StaleLength(n *CandidateNode, idx int) *CandidateNode {
	l := len(n.Content)
	for len(n.Content) <= idx {
		grow(n)
	}
	if idx < 0 {
		idx = l + idx
	}
	return n.Content[idx]
}

func grow(n *CandidateNode) {
	n.Content = append(n.Content, &CandidateNode{})
}

// FreshLength: the same with the length re-taken (must not fire).
func FreshLength(n *CandidateNode, idx int) *CandidateNode {
	l := len(n.Content)
	for l <= idx {
		grow(n)
		l = len(n.Content)
	}
	if idx < 0 {
		idx = l + idx
	}
	return n.Content[idx]
}

type walkPreferences struct {
	DontFollow bool
	Deep       bool
}

func walk(n *CandidateNode, p walkPreferences) int {
	if p.Deep {
		return len(n.Content)
	}
	return 0
}

// DropsPrefs: receives preferences, hands on a fresh literal.
func DropsPrefs(n *CandidateNode, p walkPreferences) int {
	return walk(n, walkPreferences{DontFollow: p.DontFollow})
}

// ForwardsPrefs: a copy with one field overridden (must not fire).
func ForwardsPrefs(n *CandidateNode, p walkPreferences) int {
	p.Deep = true
	return walk(n, p)
}

// VarIndexUnbounded: an index computed from input with no test against len.
func VarIndexUnbounded(n *CandidateNode, want int) *CandidateNode {
	if want < 0 {
		want = len(n.Content) + want
	}
	return n.Content[want]
}

// VarIndexOtherLen: bounded by the length of a different slice.
func VarIndexOtherLen(a, b *CandidateNode) int {
	total := 0
	for i := 0; i < len(a.Content); i++ {
		total += len(b.Content[i].Value)
	}
	return total
}

// VarIndexRange: the usual loops (must not fire).
func VarIndexRange(n *CandidateNode) int {
	total := 0
	for i := range n.Content {
		total += len(n.Content[i].Value)
	}
	for i := 0; i < len(n.Content); i += 2 {
		total += len(n.Content[i].Value) + len(n.Content[i+1].Value)
	}
	for i := len(n.Content) - 1; i >= 0; i-- {
		total += len(n.Content[i].Value)
	}
	return total
}

// --- result used where its error may still be set (P8) ----------------------------

func parseNode(s string) (*CandidateNode, error) {
	if s == "" {
		return nil, io.EOF
	}
	return &CandidateNode{Value: s}, nil
}

// UsesResultOnLetThroughError lets io.EOF through and then dereferences the nil result.
func UsesResultOnLetThroughError(s string) (string, error) {
	n, err := parseNode(s)
	if err != nil && !errors.Is(err, io.EOF) {
		return "", err
	}
	return n.Value, nil
}

// UsesResultAfterFullCheck is the usual form (must not fire).
func UsesResultAfterFullCheck(s string) (string, error) {
	n, err := parseNode(s)
	if err != nil {
		return "", err
	}
	return n.Value, nil
}

// --- balanced counters (B1) -------------------------------------------------------

type Indenter struct{ level int }

// LeaksLevel returns early after raising the level.
func (e *Indenter) LeaksLevel(w io.Writer, items []string) error {
	e.level++
	if len(items) == 0 {
		_, err := io.WriteString(w, "{}")
		return err
	}
	for _, it := range items {
		if _, err := io.WriteString(w, strings.Repeat(" ", e.level)+it); err != nil {
			return err
		}
	}
	e.level--
	return nil
}

// KeepsLevel raises and lowers under the same flag (must not fire).
func (e *Indenter) KeepsLevel(w io.Writer, items []string, global bool) error {
	if !global {
		e.level++
	}
	for _, it := range items {
		if _, err := io.WriteString(w, it); err != nil {
			return err
		}
	}
	if global {
		return nil
	}
	e.level--
	return nil
}

// --- data as format string / bytes as runes (F1, F2) ---------------------------------

// FormatsData uses document text as the format.
func FormatsData(w io.Writer, n *CandidateNode) {
	line := n.Value + "\n"
	fmt.Fprintf(w, line)
}

// BytesAsRunes walks bytes and writes them as runes.
func BytesAsRunes(s string) string {
	var sb strings.Builder
	for i := 0; i < len(s); i++ {
		sb.WriteRune(rune(s[i]))
	}
	return sb.String()
}

// RunesAsRunes is the usual form (must not fire).
func RunesAsRunes(s string) string {
	var sb strings.Builder
	for _, r := range s {
		sb.WriteRune(r)
	}
	return sb.String()
}

// --- whole child lists (K1w) ------------------------------------------------------

// AdoptsChildren gives a new node another node's children as they are.
func AdoptsChildren(src *CandidateNode) *CandidateNode {
	res := src.Copy()
	var kept []*CandidateNode
	for i := 0; i < len(src.Content); i++ {
		if src.Content[i].Value != "" {
			kept = append(kept, src.Content[i])
		}
	}
	res.Content = kept
	return res
}

// FiltersOwnChildren keeps a subset of its own children (must not fire).
func FiltersOwnChildren(n *CandidateNode) {
	var kept []*CandidateNode
	for i := 0; i < len(n.Content); i++ {
		if n.Content[i].Value != "" {
			kept = append(kept, n.Content[i])
		}
	}
	n.Content = kept
}

// --- round 6: jump-swallow, value before error, alias cycles, preferences in a recursion,
// --- the anchor table, the exit-status flag, computed Chmod modes -----------------------

// SwallowsByBreak: the error ends the loop and is then forgotten.
func SwallowsByBreak(w io.Writer, rows []string) error {
	for _, r := range rows {
		if _, err := w.Write([]byte(r)); err != nil {
			break
		}
	}
	return nil
}

func nextNode(r *bufio.Reader) (*CandidateNode, error) {
	s, err := r.ReadString('\n')
	if err != nil {
		return nil, err
	}
	return &CandidateNode{Value: s}, nil
}

// ValueBeforeError: the value is nil-tested before the error is looked at.
func ValueBeforeError(r *bufio.Reader) (int, error) {
	n := 0
	for {
		t, err := nextNode(r)
		if t == nil {
			break
		}
		if err != nil {
			return n, err
		}
		n++
	}
	return n, nil
}

// FollowsAliasDeep descends into children and re-enters on the alias target without an ancestor test.
func FollowsAliasDeep(n *CandidateNode) int {
	total := 1
	if n.Alias != nil {
		total += FollowsAliasDeep(n.Alias)
	}
	for _, ch := range n.Content {
		total += FollowsAliasDeep(ch)
	}
	return total
}

// FollowsAliasGuarded is clean: the alias is followed only when its target is not the map it sits in.
func FollowsAliasGuarded(n *CandidateNode) int {
	total := 1
	if n.Alias != nil {
		owner := n.Parent
		for owner != nil && owner.Value == "seq" {
			owner = owner.Parent
		}
		if owner != n.Alias {
			total += FollowsAliasGuarded(n.Alias)
		}
	}
	for _, ch := range n.Content {
		total += FollowsAliasGuarded(ch)
	}
	return total
}

// OverridesPrefsForRecursion changes a preference for the levels below.
func OverridesPrefsForRecursion(n *CandidateNode, p walkPreferences) int {
	if len(n.Content) == 0 {
		return walk(n, p)
	}
	p.DontFollow = true
	return OverridesPrefsForRecursion(n.Content[0], p)
}

func recordAnchor(n *CandidateNode, anchors map[string]*CandidateNode) {
	anchors[n.Value] = n
}

// FreshAnchorTable receives the table and hands a new one on.
func FreshAnchorTable(n *CandidateNode, anchors map[string]*CandidateNode) {
	for _, ch := range n.Content {
		recordAnchor(ch, map[string]*CandidateNode{})
	}
}

// ResultsPrinter keeps the -e flag.
type ResultsPrinter struct {
	printedMatches bool
	w              io.Writer
}

func (p *ResultsPrinter) PrintedAnything() bool { return p.printedMatches }

func (p *ResultsPrinter) Note(v string) { p.printedMatches = p.printedMatches || v != "null" }

// ReadsFlagForOutput decides what to write from the exit-status flag.
func (p *ResultsPrinter) ReadsFlagForOutput(v string) error {
	if p.printedMatches {
		if _, err := p.w.Write([]byte("---\n")); err != nil {
			return err
		}
	}
	_, err := p.w.Write([]byte(v))
	return err
}

// NarrowsMode sets a computed mode.
func NarrowsMode(info os.FileInfo, name string) error {
	return os.Chmod(name, info.Mode()&^0o022)
}
