package main

import (
	"fmt"
	"go/token"

	"golang.org/x/tools/go/ssa"
)

// Rule P10 — calculations that run on empty operand streams accept nil operands.
//
// crossFunction(…, calc, calcWhenEmpty=true) (or crossFunctionPreferences with
// CalcWhenEmpty: true) calls calc(d, ctx, lhs, rhs) with lhs == nil when the
// left side yields nothing and rhs == nil when the right side yields nothing.
// Every dereference of those two parameters in such a calculation must sit
// under a test of that parameter against nil.

func calcFunctionsWhenEmpty(c *Ctx) map[*ssa.Function]string {
	out := map[*ssa.Function]string{}
	resolveFn := func(v ssa.Value) *ssa.Function {
		switch x := v.(type) {
		case *ssa.Function:
			return x
		case *ssa.MakeClosure:
			if f, ok := x.Fn.(*ssa.Function); ok {
				return f
			}
		case *ssa.Call:
			// compare(prefs) / isEquals(flip): a factory returning a closure
			if callee := x.Call.StaticCallee(); callee != nil && callee.Blocks != nil {
				for _, b := range callee.Blocks {
					if ret, ok := b.Instrs[len(b.Instrs)-1].(*ssa.Return); ok && len(ret.Results) == 1 {
						rv0 := ret.Results[0]
						if ct, ok := rv0.(*ssa.ChangeType); ok {
							rv0 = ct.X
						}
						if mc, ok := rv0.(*ssa.MakeClosure); ok {
							if f, ok := mc.Fn.(*ssa.Function); ok {
								return f
							}
						}
					}
				}
			}
		case *ssa.ChangeType:
			return nil
		}
		return nil
	}
	for _, fn := range c.moduleFuncs() {
		eachInstr(fn, func(ins ssa.Instruction) {
			switch x := ins.(type) {
			case *ssa.Call:
				callee := x.Call.StaticCallee()
				if callee == nil || callee.Name() != "crossFunction" || len(x.Call.Args) != 5 {
					return
				}
				k, ok := x.Call.Args[4].(*ssa.Const)
				if !ok || k.Value == nil || k.Value.String() != "true" {
					return
				}
				v := x.Call.Args[3]
				if ct, ok := v.(*ssa.ChangeType); ok {
					v = ct.X
				}
				if f := resolveFn(v); f != nil {
					out[f] = c.P.pos(x.Pos())
				}
			case *ssa.Store:
				// prefs.CalcWhenEmpty = true on a crossFunctionPreferences literal: the Calculation stored into the same struct
				fa, ok := x.Addr.(*ssa.FieldAddr)
				if !ok || fieldName(fa) != "CalcWhenEmpty" {
					return
				}
				k, ok := x.Val.(*ssa.Const)
				if !ok || k.Value == nil || k.Value.String() != "true" {
					return
				}
				if fa.X.Referrers() == nil {
					return
				}
				for _, ref := range *fa.X.Referrers() {
					fa2, ok := ref.(*ssa.FieldAddr)
					if !ok || fieldName(fa2) != "Calculation" || fa2.Referrers() == nil {
						continue
					}
					for _, r2 := range *fa2.Referrers() {
						if st, ok := r2.(*ssa.Store); ok && st.Addr == fa2 {
							v := st.Val
							if ct, ok := v.(*ssa.ChangeType); ok {
								v = ct.X
							}
							if f := resolveFn(v); f != nil {
								out[f] = c.P.pos(x.Pos())
							}
						}
					}
				}
			}
		})
	}
	return out
}

func ruleP10(c *Ctx, rule string) {
	r := c.R
	r.Rule(rule, "calculations run with calcWhenEmpty test an operand against nil before using it", 4)
	calcs := calcFunctionsWhenEmpty(c)
	if len(calcs) == 0 {
		r.Fatal("anchor moved: no calculation registered with calcWhenEmpty = true found")
		return
	}
	for _, fn := range c.moduleFuncs() {
		at, ok := calcs[fn]
		if !ok || len(fn.Params) < 4 {
			continue
		}
		possiblyNil := nilDerefsPathSensitive(fn, []*ssa.Parameter{fn.Params[2], fn.Params[3]})
		for pi, pname := range map[int]string{2: "left", 3: "right"} {
			p := fn.Params[pi]
			key := fmt.Sprintf("%s/%s-operand-nil", funcKey(fn), pname)
			bad := ""
			for _, u := range possiblyNil[p] {
				bad = c.P.pos(nearestPos(u))
				break
			}
			if bad == "" {
				r.Discharge(rule, key, c.P.pos(fn.Pos()), "on every feasible path the "+pname+" operand is known non-nil where it is used (registered with calcWhenEmpty at "+at+")")
			} else {
				r.Finding(rule, key, bad, fmt.Sprintf("%s is registered with calcWhenEmpty (at %s), so it is called with a nil %s operand when that side yields no result; the operand is dereferenced here on a path where it may be nil: nil-pointer panic for an empty operand stream", funcKey(fn), at, pname))
			}
		}
	}
}

// nilDerefsPathSensitive walks the CFG from the entry carrying, for each of the
// given parameters, what the branch conditions passed so far say about it
// (unknown / nil / non-nil); branches that contradict the state are not taken.
// It returns, per parameter, the instructions that dereference it — or hand it
// to a module function that dereferences the corresponding parameter without a
// test — in a state other than non-nil.
func nilDerefsPathSensitive(fn *ssa.Function, params []*ssa.Parameter) map[*ssa.Parameter][]ssa.Instruction {
	const (
		unknown = 0
		isNil   = 1
		nonNil  = 2
	)
	type state [4]int8
	idx := map[ssa.Value]int{}
	for i, p := range params {
		if i < 4 {
			idx[p] = i
		}
	}
	type item struct {
		b    *ssa.BasicBlock
		from *ssa.BasicBlock // the predecessor this visit came from (selects phi edges)
		s    state
	}
	out := map[*ssa.Parameter][]ssa.Instruction{}
	reported := map[ssa.Instruction]bool{}
	seen := map[item]bool{}
	work := []item{{fn.Blocks[0], nil, state{}}}
	derefsIn := func(ins ssa.Instruction, p *ssa.Parameter) bool {
		switch x := ins.(type) {
		case *ssa.FieldAddr:
			return x.X == ssa.Value(p)
		case *ssa.UnOp:
			return x.Op == token.MUL && x.X == ssa.Value(p)
		case *ssa.Call:
			if x.Call.IsInvoke() && x.Call.Value == ssa.Value(p) {
				return true
			}
			callee := x.Call.StaticCallee()
			if callee == nil || callee.Blocks == nil {
				return false
			}
			for ai, a := range x.Call.Args {
				if a != ssa.Value(p) || ai >= len(callee.Params) {
					continue
				}
				q := callee.Params[ai]
				for _, u := range derefUses(q) {
					if !nilGuarded(u.Block(), q) && !eitherNilReturns(u.Block(), q) {
						return true
					}
				}
			}
		}
		return false
	}
	for len(work) > 0 {
		it := work[len(work)-1]
		work = work[:len(work)-1]
		if seen[it] {
			continue
		}
		seen[it] = true
		for _, ins := range it.b.Instrs {
			for _, p := range params {
				if it.s[idx[p]] != nonNil && derefsIn(ins, p) && !reported[ins] {
					reported[ins] = true
					out[p] = append(out[p], ins)
				}
			}
		}
		last := it.b.Instrs[len(it.b.Instrs)-1]
		if ifi, ok := last.(*ssa.If); ok && len(it.b.Succs) == 2 {
			cond := ifi.Cond
			// `case a == nil && b == nil:` is built as a phi of the two tests: take the edge of the predecessor we came from
			if phi, ok := cond.(*ssa.Phi); ok && phi.Block() == it.b && it.from != nil {
				for pi, pred := range it.b.Preds {
					if pred == it.from {
						cond = phi.Edges[pi]
						break
					}
				}
			}
			if k, ok := cond.(*ssa.Const); ok && k.Value != nil && (k.Value.String() == "true" || k.Value.String() == "false") {
				si := 0
				if k.Value.String() == "false" {
					si = 1
				}
				work = append(work, item{it.b.Succs[si], it.b, it.s})
				continue
			}
			if bo, ok := cond.(*ssa.BinOp); ok && (bo.Op == token.EQL || bo.Op == token.NEQ) {
				var pv ssa.Value
				if isNilConst(bo.Y) {
					pv = bo.X
				} else if isNilConst(bo.X) {
					pv = bo.Y
				}
				if i, tracked := idx[pv]; tracked && pv != nil {
					for si, succ := range it.b.Succs {
						saysNil := (bo.Op == token.EQL) == (si == 0)
						want := int8(nonNil)
						if saysNil {
							want = isNil
						}
						if it.s[i] != unknown && it.s[i] != want {
							continue // infeasible
						}
						ns := it.s
						ns[i] = want
						work = append(work, item{succ, it.b, ns})
					}
					continue
				}
			}
		}
		for _, succ := range it.b.Succs {
			work = append(work, item{succ, it.b, it.s})
		}
	}
	return out
}

// eitherNilReturns: blk is only reached when p != nil because an earlier
// `if lhs == nil || rhs == nil { return … }` (any disjunction containing p == nil) left the function.
func eitherNilReturns(blk *ssa.BasicBlock, p ssa.Value) bool {
	fn := blk.Parent()
	// every path from entry to blk passes a block where `p == nil` was tested and the true edge leaves to a return
	for _, b := range fn.Blocks {
		ifi, ok := b.Instrs[len(b.Instrs)-1].(*ssa.If)
		if !ok || !b.Dominates(blk) {
			continue
		}
		bo, ok := ifi.Cond.(*ssa.BinOp)
		if !ok || !((bo.X == p && isNilConst(bo.Y)) || (bo.Y == p && isNilConst(bo.X))) {
			continue
		}
		var nilSucc *ssa.BasicBlock
		switch bo.Op {
		case token.EQL:
			nilSucc = b.Succs[0]
		case token.NEQ:
			nilSucc = b.Succs[1]
		default:
			continue
		}
		// from the nil side, blk must be unreachable
		if !reaches(nilSucc, blk) {
			return true
		}
	}
	return false
}
