package main

import (
	"encoding/json"
	"fmt"
	"os"
	"os/exec"
	"path/filepath"
	"sort"
	"strings"
)

// thoroughExtras: what the thorough tier adds to the quick rules.
//  1. the same rules on cross-target loads (GOOS=windows, GOOS=darwin), so
//     files excluded by build constraints on linux are analysed too;
//  2. mutant replay: every seeded change under /verif/seeded that this
//     property's check is recorded to detect is applied to a scratch worktree
//     of the repository (outside /repo and /verif, removed afterwards) and the
//     check must report a violation there — a regression of the checker itself
//     is a fatal condition, not a pass.
func thoroughExtras(r *Report, repo, verif, prop string) {
	self, err := os.Executable()
	if err != nil {
		r.Fatal("thorough: cannot locate own executable: %v", err)
		return
	}
	run := func(env []string, args ...string) (int, string) {
		cmd := exec.Command(self, args...)
		cmd.Env = append(append(os.Environ(), "YQCHECK_NESTED=1"), env...)
		out, err := cmd.CombinedOutput()
		code := 0
		if ee, ok := err.(*exec.ExitError); ok {
			code = ee.ExitCode()
		} else if err != nil {
			code = 3
		}
		return code, string(out)
	}
	tmp, err := os.MkdirTemp("", "yqcheck-thorough-")
	if err != nil {
		r.Fatal("thorough: %v", err)
		return
	}
	defer os.RemoveAll(tmp)

	// 1. cross-target variants
	variants := map[string]interface{}{}
	for _, goos := range []string{"windows", "darwin"} {
		code, out := run([]string{"YQCHECK_GOOS=" + goos, "YQCHECK_OUT=" + tmp}, "-repo", repo, "-verif", verif, "-property", prop, "-tier", "quick", "-evidence", filepath.Join(tmp, goos+".json"))
		variants["GOOS="+goos] = fmt.Sprintf("exit %d", code)
		switch code {
		case 0:
		case 1:
			for _, l := range strings.Split(out, "\n") {
				if strings.HasPrefix(l, "   ") && strings.Contains(l, "/") && !strings.HasPrefix(l, "   rule") && !strings.HasPrefix(l, "   note") {
					r.Finding("V0", "GOOS="+goos+" "+strings.TrimSpace(strings.SplitN(l, " at ", 2)[0]), "-", "under GOOS="+goos+": "+strings.TrimSpace(l))
				}
			}
		default:
			r.Fatal("thorough: the GOOS=%s variant gave no verdict (exit %d): %s", goos, code, lastLines(out, 5))
		}
	}
	r.Analysed["cross_target_variants"] = variants

	// 2. mutant replay
	seeded := filepath.Join(verif, "seeded")
	ents, _ := os.ReadDir(seeded)
	type rep struct {
		Name    string `json:"name"`
		Result  string `json:"result"`
		Applied bool   `json:"applied"`
	}
	var reps []rep
	detected, expected := 0, 0
	var names []string
	for _, e := range ents {
		if e.IsDir() {
			names = append(names, e.Name())
		}
	}
	sort.Strings(names)
	for _, n := range names {
		b, err := os.ReadFile(filepath.Join(seeded, n, "meta.json"))
		if err != nil {
			continue
		}
		var meta struct {
			DetectedBy []string `json:"detected_by"` // "Cxx: rule/key" per check that fires
		}
		if json.Unmarshal(b, &meta) != nil {
			continue
		}
		mine := false
		for _, d := range meta.DetectedBy {
			if strings.HasPrefix(d, prop+":") {
				mine = true
			}
		}
		if !mine {
			continue
		}
		expected++
		wt := filepath.Join(tmp, "wt-"+n)
		if out, err := exec.Command("git", "-C", repo, "worktree", "add", "-q", "--detach", wt, "HEAD").CombinedOutput(); err != nil {
			// the repository under test may not be a git checkout with HEAD: copy instead
			_ = out
			if out2, err2 := exec.Command("cp", "-a", repo, wt).CombinedOutput(); err2 != nil {
				reps = append(reps, rep{n, "skipped: cannot make a scratch copy: " + string(out2), false})
				continue
			}
		}
		cleanup := func() {
			exec.Command("git", "-C", repo, "worktree", "remove", "--force", wt).Run()
			os.RemoveAll(wt)
		}
		// the working tree under test may differ from HEAD: bring the scratch copy to the same content
		if diff, err := exec.Command("git", "-C", repo, "diff", "HEAD").Output(); err == nil && len(diff) > 0 {
			ap := exec.Command("git", "-C", wt, "apply")
			ap.Stdin = strings.NewReader(string(diff))
			ap.Run()
		}
		patch := filepath.Join(seeded, n, "patch.diff")
		if err := exec.Command("git", "-C", wt, "apply", patch).Run(); err != nil {
			if err2 := exec.Command("git", "-C", wt, "apply", "--3way", patch).Run(); err2 != nil {
				reps = append(reps, rep{n, "skipped: the seeded patch no longer applies to the tree under test", false})
				cleanup()
				continue
			}
		}
		code, out := run(nil, "-repo", wt, "-verif", verif, "-property", prop, "-tier", "quick", "-evidence", filepath.Join(tmp, n+".json"))
		cleanup()
		if code == 1 {
			detected++
			first := ""
			for _, l := range strings.Split(out, "\n") {
				if strings.HasPrefix(l, "   ") && strings.Contains(l, " at ") && !strings.HasPrefix(l, "   rule") {
					first = strings.TrimSpace(strings.SplitN(l, " at ", 2)[0])
					break
				}
			}
			reps = append(reps, rep{n, "detected: " + first, true})
		} else {
			reps = append(reps, rep{n, fmt.Sprintf("NOT detected (exit %d)", code), true})
			r.Fatal("thorough: the checker no longer detects seeded change %s (exit %d): the rule regressed", n, code)
		}
	}
	r.Analysed["mutant_replay"] = reps
	r.Analysed["mutant_replay_detected"] = fmt.Sprintf("%d of %d recorded-detectable seeded changes for %s", detected, expected, prop)

	// 3. refactoring replay: behaviour-preserving rewrites under /verif/refactors
	// (independently written, suite-confirmed) must leave the check silent.
	refDir := filepath.Join(verif, "refactors")
	rents, _ := os.ReadDir(refDir)
	var rnames []string
	for _, e := range rents {
		if e.IsDir() {
			rnames = append(rnames, e.Name())
		}
	}
	sort.Strings(rnames)
	silent, tried := 0, 0
	var rreps []rep
	for _, n := range rnames {
		patch := filepath.Join(refDir, n, "patch.diff")
		if _, err := os.Stat(patch); err != nil {
			continue
		}
		wt := filepath.Join(tmp, "rf-"+n)
		if err := exec.Command("git", "-C", repo, "worktree", "add", "-q", "--detach", wt, "HEAD").Run(); err != nil {
			if err2 := exec.Command("cp", "-a", repo, wt).Run(); err2 != nil {
				rreps = append(rreps, rep{n, "skipped: cannot make a scratch copy", false})
				continue
			}
		}
		cleanup := func() {
			exec.Command("git", "-C", repo, "worktree", "remove", "--force", wt).Run()
			os.RemoveAll(wt)
		}
		if diff, err := exec.Command("git", "-C", repo, "diff", "HEAD").Output(); err == nil && len(diff) > 0 {
			ap := exec.Command("git", "-C", wt, "apply")
			ap.Stdin = strings.NewReader(string(diff))
			ap.Run()
		}
		if err := exec.Command("git", "-C", wt, "apply", patch).Run(); err != nil {
			rreps = append(rreps, rep{n, "skipped: the refactoring no longer applies to the tree under test", false})
			cleanup()
			continue
		}
		tried++
		code, out := run(nil, "-repo", wt, "-verif", verif, "-property", prop, "-tier", "quick", "-evidence", filepath.Join(tmp, n+".json"))
		cleanup()
		if code == 0 {
			silent++
			rreps = append(rreps, rep{n, "silent (exit 0)", true})
		} else {
			rreps = append(rreps, rep{n, fmt.Sprintf("NOT silent (exit %d)", code), true})
			r.Fatal("thorough: the check is not silent on the behaviour-preserving refactoring %s (exit %d): %s", n, code, lastLines(out, 4))
		}
	}
	r.Analysed["refactoring_replay"] = rreps
	r.Analysed["refactoring_replay_silent"] = fmt.Sprintf("%d of %d applicable behaviour-preserving refactorings leave %s silent", silent, tried, prop)
	r.Note("thorough: cross-target variants %v; mutant replay %d/%d detected; refactoring replay %d/%d silent", variants, detected, expected, silent, tried)
}

func lastLines(s string, n int) string {
	ls := strings.Split(strings.TrimSpace(s), "\n")
	if len(ls) > n {
		ls = ls[len(ls)-n:]
	}
	return strings.Join(ls, " | ")
}
