package main

import (
	"encoding/json"
	"fmt"
	"os"
	"os/exec"
	"path/filepath"
	"runtime"
	"sort"
	"strings"
	"sync"
)

// thoroughExtras: what the thorough tier adds to the quick rules.
//  1. the same rules on cross-target loads (GOOS=windows, GOOS=darwin), so
//     files excluded by build constraints on linux are analysed too;
//  2. mutant replay: every seeded change under /verif/seeded that this
//     property's check is recorded to detect is applied to a scratch worktree
//     of the repository (outside /repo and /verif, removed afterwards) and the
//     check must report a violation there — a regression of the checker itself
//     is a fatal condition, not a pass.
func thoroughExtras(r *Report, repo, verif, prop string) {
	self, err := os.Executable()
	if err != nil {
		r.Fatal("thorough: cannot locate own executable: %v", err)
		return
	}
	run := func(env []string, args ...string) (int, string) {
		cmd := exec.Command(self, args...)
		cmd.Env = append(append(os.Environ(), "YQCHECK_NESTED=1"), env...)
		out, err := cmd.CombinedOutput()
		code := 0
		if ee, ok := err.(*exec.ExitError); ok {
			code = ee.ExitCode()
		} else if err != nil {
			code = 3
		}
		return code, string(out)
	}
	tmp, err := os.MkdirTemp("", "yqcheck-thorough-")
	if err != nil {
		r.Fatal("thorough: %v", err)
		return
	}
	defer os.RemoveAll(tmp)

	// 1. cross-target variants
	variants := map[string]interface{}{}
	for _, goos := range []string{"windows", "darwin"} {
		code, out := run([]string{"YQCHECK_GOOS=" + goos, "YQCHECK_OUT=" + tmp}, "-repo", repo, "-verif", verif, "-property", prop, "-tier", "quick", "-evidence", filepath.Join(tmp, goos+".json"))
		variants["GOOS="+goos] = fmt.Sprintf("exit %d", code)
		switch code {
		case 0:
		case 1:
			for _, l := range strings.Split(out, "\n") {
				if strings.HasPrefix(l, "   ") && strings.Contains(l, "/") && !strings.HasPrefix(l, "   rule") && !strings.HasPrefix(l, "   note") {
					r.Finding("V0", "GOOS="+goos+" "+strings.TrimSpace(strings.SplitN(l, " at ", 2)[0]), "-", "under GOOS="+goos+": "+strings.TrimSpace(l))
				}
			}
		default:
			r.Fatal("thorough: the GOOS=%s variant gave no verdict (exit %d): %s", goos, code, lastLines(out, 5))
		}
	}
	r.Analysed["cross_target_variants"] = variants

	// 2. mutant replay
	seeded := filepath.Join(verif, "seeded")
	ents, _ := os.ReadDir(seeded)
	type rep struct {
		Name    string `json:"name"`
		Result  string `json:"result"`
		Applied bool   `json:"applied"`
	}
	var reps []rep
	detected, expected := 0, 0
	var names []string
	for _, e := range ents {
		if e.IsDir() {
			names = append(names, e.Name())
		}
	}
	sort.Strings(names)
	var mine []string
	for _, n := range names {
		b, err := os.ReadFile(filepath.Join(seeded, n, "meta.json"))
		if err != nil {
			continue
		}
		var meta struct {
			DetectedBy []string `json:"detected_by"` // "Cxx: rule/key" per check that fires
		}
		if json.Unmarshal(b, &meta) != nil {
			continue
		}
		for _, d := range meta.DetectedBy {
			if strings.HasPrefix(d, prop+":") {
				mine = append(mine, n)
				break
			}
		}
	}
	expected = len(mine)
	var gitMu sync.Mutex // git worktree add/remove take a lock on the repository: one at a time
	scratch := func(wt string) bool {
		gitMu.Lock()
		defer gitMu.Unlock()
		if err := exec.Command("git", "-C", repo, "worktree", "add", "-q", "--detach", wt, "HEAD").Run(); err != nil {
			// the repository under test may not be a git checkout with HEAD: copy instead
			if err2 := exec.Command("cp", "-a", repo, wt).Run(); err2 != nil {
				return false
			}
		}
		// the working tree under test may differ from HEAD: bring the scratch copy to the same content
		if diff, err := exec.Command("git", "-C", repo, "diff", "HEAD").Output(); err == nil && len(diff) > 0 {
			ap := exec.Command("git", "-C", wt, "apply")
			ap.Stdin = strings.NewReader(string(diff))
			ap.Run()
		}
		return true
	}
	cleanup := func(wt string) {
		gitMu.Lock()
		defer gitMu.Unlock()
		exec.Command("git", "-C", repo, "worktree", "remove", "--force", wt).Run()
		os.RemoveAll(wt)
	}
	workers := runtime.NumCPU() / 2
	if workers < 1 {
		workers = 1
	}
	if workers > 8 {
		workers = 8
	}
	type outcome struct {
		rep   rep
		fatal string
		ok    bool
	}
	inParallel := func(items []string, one func(n string) outcome) []outcome {
		res := make([]outcome, len(items))
		var wg sync.WaitGroup
		sem := make(chan struct{}, workers)
		for i, n := range items {
			wg.Add(1)
			sem <- struct{}{}
			go func(i int, n string) {
				defer wg.Done()
				defer func() { <-sem }()
				res[i] = one(n)
			}(i, n)
		}
		wg.Wait()
		return res
	}
	for _, o := range inParallel(mine, func(n string) outcome {
		wt := filepath.Join(tmp, "wt-"+n)
		if !scratch(wt) {
			return outcome{rep: rep{n, "skipped: cannot make a scratch copy", false}}
		}
		defer cleanup(wt)
		patch := filepath.Join(seeded, n, "patch.diff")
		if err := exec.Command("git", "-C", wt, "apply", patch).Run(); err != nil {
			if err2 := exec.Command("git", "-C", wt, "apply", "--3way", patch).Run(); err2 != nil {
				return outcome{rep: rep{n, "skipped: the seeded patch no longer applies to the tree under test", false}}
			}
		}
		code, out := run(nil, "-repo", wt, "-verif", verif, "-property", prop, "-tier", "quick", "-evidence", filepath.Join(tmp, n+".json"))
		if code == 1 {
			first := ""
			for _, l := range strings.Split(out, "\n") {
				if strings.HasPrefix(l, "   ") && strings.Contains(l, " at ") && !strings.HasPrefix(l, "   rule") {
					first = strings.TrimSpace(strings.SplitN(l, " at ", 2)[0])
					break
				}
			}
			return outcome{rep: rep{n, "detected: " + first, true}, ok: true}
		}
		return outcome{rep: rep{n, fmt.Sprintf("NOT detected (exit %d)", code), true},
			fatal: fmt.Sprintf("thorough: the checker no longer detects seeded change %s (exit %d): the rule regressed", n, code)}
	}) {
		reps = append(reps, o.rep)
		if o.ok {
			detected++
		}
		if o.fatal != "" {
			r.Fatal("%s", o.fatal)
		}
	}
	r.Analysed["mutant_replay"] = reps
	r.Analysed["mutant_replay_detected"] = fmt.Sprintf("%d of %d recorded-detectable seeded changes for %s", detected, expected, prop)

	// 3. refactoring replay: behaviour-preserving rewrites under /verif/refactors
	// (independently written, suite-confirmed) must leave the check silent.
	refDir := filepath.Join(verif, "refactors")
	rents, _ := os.ReadDir(refDir)
	var rnames []string
	for _, e := range rents {
		if e.IsDir() {
			rnames = append(rnames, e.Name())
		}
	}
	sort.Strings(rnames)
	silent, tried := 0, 0
	var rreps []rep
	var withPatch []string
	for _, n := range rnames {
		if _, err := os.Stat(filepath.Join(refDir, n, "patch.diff")); err == nil {
			withPatch = append(withPatch, n)
		}
	}
	for _, o := range inParallel(withPatch, func(n string) outcome {
		patch := filepath.Join(refDir, n, "patch.diff")
		wt := filepath.Join(tmp, "rf-"+n)
		if !scratch(wt) {
			return outcome{rep: rep{n, "skipped: cannot make a scratch copy", false}}
		}
		defer cleanup(wt)
		if err := exec.Command("git", "-C", wt, "apply", patch).Run(); err != nil {
			return outcome{rep: rep{n, "skipped: the refactoring no longer applies to the tree under test", false}}
		}
		code, out := run(nil, "-repo", wt, "-verif", verif, "-property", prop, "-tier", "quick", "-evidence", filepath.Join(tmp, n+".json"))
		if code == 0 {
			return outcome{rep: rep{n, "silent (exit 0)", true}, ok: true}
		}
		return outcome{rep: rep{n, fmt.Sprintf("NOT silent (exit %d)", code), true},
			fatal: fmt.Sprintf("thorough: the check is not silent on the behaviour-preserving refactoring %s (exit %d): %s", n, code, lastLines(out, 4))}
	}) {
		rreps = append(rreps, o.rep)
		if o.rep.Applied {
			tried++
		}
		if o.ok {
			silent++
		}
		if o.fatal != "" {
			r.Fatal("%s", o.fatal)
		}
	}
	r.Analysed["refactoring_replay"] = rreps
	r.Analysed["refactoring_replay_silent"] = fmt.Sprintf("%d of %d applicable behaviour-preserving refactorings leave %s silent", silent, tried, prop)
	r.Note("thorough: cross-target variants %v; mutant replay %d/%d detected; refactoring replay %d/%d silent", variants, detected, expected, silent, tried)
}

func lastLines(s string, n int) string {
	ls := strings.Split(strings.TrimSpace(s), "\n")
	if len(ls) > n {
		ls = ls[len(ls)-n:]
	}
	return strings.Join(ls, " | ")
}
