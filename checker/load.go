package main

import (
	"fmt"
	"go/ast"
	"go/token"
	"go/types"
	"os"
	"sort"
	"strings"

	"golang.org/x/tools/go/callgraph"
	"golang.org/x/tools/go/callgraph/cha"
	"golang.org/x/tools/go/callgraph/vta"
	"golang.org/x/tools/go/packages"
	"golang.org/x/tools/go/ssa"
	"golang.org/x/tools/go/ssa/ssautil"
)

const (
	modPath   = "github.com/mikefarah/yq/v4"
	yqlibPath = modPath + "/pkg/yqlib"
	cmdPath   = modPath + "/cmd"
)

// Prog is the resolved program: type-checked syntax of every package of the
// module (and, transitively, of its dependencies), plus SSA and a call graph
// built on demand.
type Prog struct {
	Dir   string
	Fset  *token.FileSet
	Roots []*packages.Package
	All   map[string]*packages.Package
	Yqlib *packages.Package
	Cmd   *packages.Package
	Main  *packages.Package

	SSA    *ssa.Program
	SSAPkg map[string]*ssa.Package
	cg     *callgraph.Graph
	cgKind string

	// override for fixture packages: the package that plays the role of yqlib
	LibPath string
}

func loadProg(dir string, tags string, patterns ...string) (*Prog, error) {
	os.Unsetenv("GOWORK")
	env := append(os.Environ(), "GOFLAGS=-mod=mod", "GOPROXY=off", "GOSUMDB=off", "GOTOOLCHAIN=local", "GOWORK=off")
	if goos := os.Getenv("YQCHECK_GOOS"); goos != "" {
		// cross-target load (thorough tier): covers files excluded by GOOS build constraints
		env = append(env, "GOOS="+goos, "CGO_ENABLED=0")
	}
	cfg := &packages.Config{
		Mode:  packages.LoadAllSyntax | packages.NeedModule,
		Dir:   dir,
		Env:   env,
		Tests: false,
	}
	if tags != "" {
		cfg.BuildFlags = []string{"-tags=" + tags}
	}
	if len(patterns) == 0 {
		patterns = []string{"./..."}
	}
	pkgs, err := packages.Load(cfg, patterns...)
	if err != nil {
		return nil, fmt.Errorf("packages.Load: %w", err)
	}
	if len(pkgs) == 0 {
		return nil, fmt.Errorf("no packages loaded from %s", dir)
	}
	p := &Prog{Dir: dir, Roots: pkgs, All: map[string]*packages.Package{}, SSAPkg: map[string]*ssa.Package{}, LibPath: yqlibPath}
	var errs []string
	packages.Visit(pkgs, nil, func(pk *packages.Package) {
		p.All[pk.PkgPath] = pk
		if strings.HasPrefix(pk.PkgPath, modPath) || pk.Module != nil && pk.Module.Main {
			for _, e := range pk.Errors {
				errs = append(errs, e.Error())
			}
		}
	})
	if len(errs) > 0 {
		sort.Strings(errs)
		return nil, fmt.Errorf("type-check/load errors in module packages:\n  %s", strings.Join(errs, "\n  "))
	}
	p.Fset = pkgs[0].Fset
	p.Yqlib = p.All[yqlibPath]
	p.Cmd = p.All[cmdPath]
	p.Main = p.All[modPath]
	return p, nil
}

func (p *Prog) buildSSA() {
	if p.SSA != nil {
		return
	}
	prog, _ := ssautil.AllPackages(p.Roots, ssa.InstantiateGenerics)
	prog.Build()
	p.SSA = prog
	for path, pk := range p.All {
		if sp := prog.Package(pk.Types); sp != nil {
			p.SSAPkg[path] = sp
		}
	}
}

// CallGraph returns the CHA graph (quick) or VTA seeded by CHA (thorough).
func (p *Prog) CallGraph(kind string) *callgraph.Graph {
	p.buildSSA()
	if p.cg != nil && p.cgKind == kind {
		return p.cg
	}
	g := cha.CallGraph(p.SSA)
	if kind == "vta" {
		g = vta.CallGraph(ssautil.AllFunctions(p.SSA), g)
	}
	p.cg, p.cgKind = g, kind
	return g
}

// isModule reports whether a package path belongs to the analysed module.
func (p *Prog) isModulePath(path string) bool {
	if pk, ok := p.All[path]; ok && pk.Module != nil && pk.Module.Main {
		return true
	}
	return strings.HasPrefix(path, modPath)
}

func (p *Prog) modulePackages() []*packages.Package {
	var out []*packages.Package
	for path, pk := range p.All {
		if p.isModulePath(path) {
			out = append(out, pk)
		}
	}
	sort.Slice(out, func(i, j int) bool { return out[i].PkgPath < out[j].PkgPath })
	return out
}

// pos renders a position relative to the analysed directory.
func (p *Prog) pos(pos token.Pos) string {
	if !pos.IsValid() {
		return "-"
	}
	ps := p.Fset.Position(pos)
	f := ps.Filename
	if strings.HasPrefix(f, p.Dir+"/") {
		f = f[len(p.Dir)+1:]
	}
	return fmt.Sprintf("%s:%d:%d", f, ps.Line, ps.Column)
}

// lib returns the package playing the role of yqlib.
func (p *Prog) lib() *packages.Package { return p.All[p.LibPath] }

// lookupFunc finds a package-level function or a method "T.m" / "(*T).m" in pkg.
func lookupFunc(pk *packages.Package, name string) *types.Func {
	if pk == nil {
		return nil
	}
	if i := strings.Index(name, "."); i >= 0 {
		tn, mn := strings.Trim(name[:i], "(*)"), name[i+1:]
		obj := pk.Types.Scope().Lookup(tn)
		if obj == nil {
			return nil
		}
		named, ok := obj.Type().(*types.Named)
		if !ok {
			return nil
		}
		for i := 0; i < named.NumMethods(); i++ {
			if named.Method(i).Name() == mn {
				return named.Method(i)
			}
		}
		return nil
	}
	f, _ := pk.Types.Scope().Lookup(name).(*types.Func)
	return f
}

// funcDecl returns the syntax of a function object declared in pk.
func funcDecl(pk *packages.Package, fn *types.Func) *ast.FuncDecl {
	if pk == nil || fn == nil {
		return nil
	}
	for _, f := range pk.Syntax {
		for _, d := range f.Decls {
			if fd, ok := d.(*ast.FuncDecl); ok && pk.TypesInfo.Defs[fd.Name] == fn {
				return fd
			}
		}
	}
	return nil
}

// allFuncDecls lists every function declaration of a package in source order.
func allFuncDecls(pk *packages.Package) []*ast.FuncDecl {
	var out []*ast.FuncDecl
	for _, f := range pk.Syntax {
		for _, d := range f.Decls {
			if fd, ok := d.(*ast.FuncDecl); ok {
				out = append(out, fd)
			}
		}
	}
	return out
}

// declName renders "Recv.Name" for a FuncDecl.
func declName(fd *ast.FuncDecl) string {
	if fd.Recv != nil && len(fd.Recv.List) > 0 {
		t := fd.Recv.List[0].Type
		if s, ok := t.(*ast.StarExpr); ok {
			t = s.X
		}
		if id, ok := t.(*ast.Ident); ok {
			return id.Name + "." + fd.Name.Name
		}
		if ix, ok := t.(*ast.IndexExpr); ok {
			if id, ok := ix.X.(*ast.Ident); ok {
				return id.Name + "." + fd.Name.Name
			}
		}
	}
	return fd.Name.Name
}

// ssaFuncName renders a stable name for an SSA function: pkg-relative, with
// receiver, and "$n" suffixes for closures.
func ssaFuncName(fn *ssa.Function) string {
	if fn == nil {
		return "<nil>"
	}
	if fn.Parent() != nil {
		return ssaFuncName(fn.Parent()) + "$" + strings.TrimPrefix(fn.Name(), fn.Parent().Name()+"$")
	}
	if recv := fn.Signature.Recv(); recv != nil {
		t := recv.Type()
		if pt, ok := t.(*types.Pointer); ok {
			t = pt.Elem()
		}
		if n, ok := t.(*types.Named); ok {
			return n.Obj().Name() + "." + fn.Name()
		}
	}
	return fn.Name()
}
