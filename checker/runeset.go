package main

import (
	"fmt"
	"go/ast"
	"go/constant"
	"go/token"
	"go/types"
	"sort"
	"strings"

	"golang.org/x/tools/go/packages"
)

// Exact set algebra over runes, used to evaluate character predicates written
// as boolean combinations of comparisons with constants. This is abstract
// interpretation of the predicate's syntax, not execution of it.

const maxRune = 0x10FFFF

type runeRange struct{ lo, hi rune }
type runeSet []runeRange // sorted, disjoint, non-adjacent

func rsAll() runeSet  { return runeSet{{0, maxRune}} }
func rsNone() runeSet { return nil }
func rsRange(lo, hi rune) runeSet {
	if lo < 0 {
		lo = 0
	}
	if hi > maxRune {
		hi = maxRune
	}
	if lo > hi {
		return nil
	}
	return runeSet{{lo, hi}}
}

func (a runeSet) norm() runeSet {
	sort.Slice(a, func(i, j int) bool { return a[i].lo < a[j].lo })
	var out runeSet
	for _, r := range a {
		if n := len(out); n > 0 && r.lo <= out[n-1].hi+1 {
			if r.hi > out[n-1].hi {
				out[n-1].hi = r.hi
			}
		} else {
			out = append(out, r)
		}
	}
	return out
}

func (a runeSet) union(b runeSet) runeSet {
	return append(append(runeSet{}, a...), b...).norm()
}

func (a runeSet) complement() runeSet {
	var out runeSet
	next := rune(0)
	for _, r := range a.norm() {
		if r.lo > next {
			out = append(out, runeRange{next, r.lo - 1})
		}
		next = r.hi + 1
	}
	if next <= maxRune {
		out = append(out, runeRange{next, maxRune})
	}
	return out
}

func (a runeSet) intersect(b runeSet) runeSet {
	return a.complement().union(b.complement()).complement()
}

func (a runeSet) minus(b runeSet) runeSet { return a.intersect(b.complement()) }

func (a runeSet) contains(r rune) bool {
	for _, x := range a {
		if x.lo <= r && r <= x.hi {
			return true
		}
	}
	return false
}

func (a runeSet) String() string {
	var parts []string
	for i, r := range a {
		if i >= 12 {
			parts = append(parts, "...")
			break
		}
		if r.lo == r.hi {
			parts = append(parts, fmt.Sprintf("%q", r.lo))
		} else {
			parts = append(parts, fmt.Sprintf("%q-%q", r.lo, r.hi))
		}
	}
	return "{" + strings.Join(parts, " ") + "}"
}

func rsFromString(chars string) runeSet {
	var s runeSet
	for _, r := range chars {
		s = append(s, runeRange{r, r})
	}
	return s.norm()
}

// runePredEval evaluates boolean expressions over one rune variable.
type runePredEval struct {
	pk    *packages.Package
	depth int
}

// eval returns the set of runes for which expr is true, given that `arg` is
// the rune variable. ok=false when the expression has a form it cannot decide.
func (ev *runePredEval) eval(e ast.Expr, arg types.Object) (runeSet, bool) {
	info := ev.pk.TypesInfo
	e = ast.Unparen(e)
	if b, ok := constBool(info, e); ok {
		if b {
			return rsAll(), true
		}
		return rsNone(), true
	}
	switch x := e.(type) {
	case *ast.UnaryExpr:
		if x.Op == token.NOT {
			s, ok := ev.eval(x.X, arg)
			return s.complement(), ok
		}
	case *ast.BinaryExpr:
		switch x.Op {
		case token.LOR:
			a, ok1 := ev.eval(x.X, arg)
			b, ok2 := ev.eval(x.Y, arg)
			return a.union(b), ok1 && ok2
		case token.LAND:
			a, ok1 := ev.eval(x.X, arg)
			b, ok2 := ev.eval(x.Y, arg)
			return a.intersect(b), ok1 && ok2
		case token.LSS, token.LEQ, token.GTR, token.GEQ, token.EQL, token.NEQ:
			op := x.Op
			var c int64
			var okc bool
			if ev.isArg(x.X, arg) {
				c, okc = ev.constRune(x.Y)
			} else if ev.isArg(x.Y, arg) {
				c, okc = ev.constRune(x.X)
				switch op {
				case token.LSS:
					op = token.GTR
				case token.GTR:
					op = token.LSS
				case token.LEQ:
					op = token.GEQ
				case token.GEQ:
					op = token.LEQ
				}
			}
			if !okc {
				return nil, false
			}
			r := rune(c)
			switch op {
			case token.LSS:
				return rsRange(0, r-1), true
			case token.LEQ:
				return rsRange(0, r), true
			case token.GTR:
				return rsRange(r+1, maxRune), true
			case token.GEQ:
				return rsRange(r, maxRune), true
			case token.EQL:
				return rsRange(r, r), true
			case token.NEQ:
				return rsRange(r, r).complement(), true
			}
		}
	case *ast.CallExpr:
		// call of another single-rune predicate of the same package with the rune as argument
		if len(x.Args) == 1 && ev.isArg(x.Args[0], arg) && ev.depth < 5 {
			if fn := calleeFunc(info, x); fn != nil && fn.Pkg() != nil && fn.Pkg().Path() == ev.pk.PkgPath {
				if fd := funcDecl(ev.pk, fn); fd != nil {
					ev.depth++
					s, ok := ev.evalPredFunc(fd)
					ev.depth--
					return s, ok
				}
			}
		}
	}
	return nil, false
}

func (ev *runePredEval) isArg(e ast.Expr, arg types.Object) bool {
	e = ast.Unparen(e)
	if id, ok := e.(*ast.Ident); ok {
		return ev.pk.TypesInfo.Uses[id] == arg
	}
	// rune(x) / int32(x) conversions of the argument
	if call, ok := e.(*ast.CallExpr); ok && len(call.Args) == 1 {
		if tv, ok := ev.pk.TypesInfo.Types[call.Fun]; ok && tv.IsType() {
			return ev.isArg(call.Args[0], arg)
		}
	}
	return false
}

func (ev *runePredEval) constRune(e ast.Expr) (int64, bool) {
	tv, ok := ev.pk.TypesInfo.Types[e]
	if !ok || tv.Value == nil {
		return 0, false
	}
	return constant.Int64Val(constant.ToInt(tv.Value))
}

// evalPredFunc: `func p(r rune) bool { return <expr> }` (single return).
func (ev *runePredEval) evalPredFunc(fd *ast.FuncDecl) (runeSet, bool) {
	if fd.Type.Params.NumFields() != 1 || fd.Body == nil || len(fd.Body.List) != 1 {
		return nil, false
	}
	ret, ok := fd.Body.List[0].(*ast.ReturnStmt)
	if !ok || len(ret.Results) != 1 || len(fd.Type.Params.List[0].Names) != 1 {
		return nil, false
	}
	arg := ev.pk.TypesInfo.Defs[fd.Type.Params.List[0].Names[0]]
	return ev.eval(ret.Results[0], arg)
}
