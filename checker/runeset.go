package main

import (
	"fmt"
	"go/ast"
	"go/constant"
	"go/token"
	"go/types"
	"sort"
	"strings"
	"unicode"

	"golang.org/x/tools/go/packages"
)

// Exact set algebra over runes, used to evaluate character predicates written
// as boolean combinations of comparisons with constants. This is abstract
// interpretation of the predicate's syntax, not execution of it.

const maxRune = 0x10FFFF

type runeRange struct{ lo, hi rune }
type runeSet []runeRange // sorted, disjoint, non-adjacent

func rsAll() runeSet  { return runeSet{{0, maxRune}} }
func rsNone() runeSet { return nil }
func rsRange(lo, hi rune) runeSet {
	if lo < 0 {
		lo = 0
	}
	if hi > maxRune {
		hi = maxRune
	}
	if lo > hi {
		return nil
	}
	return runeSet{{lo, hi}}
}

func (a runeSet) norm() runeSet {
	sort.Slice(a, func(i, j int) bool { return a[i].lo < a[j].lo })
	var out runeSet
	for _, r := range a {
		if n := len(out); n > 0 && r.lo <= out[n-1].hi+1 {
			if r.hi > out[n-1].hi {
				out[n-1].hi = r.hi
			}
		} else {
			out = append(out, r)
		}
	}
	return out
}

func (a runeSet) union(b runeSet) runeSet {
	return append(append(runeSet{}, a...), b...).norm()
}

func (a runeSet) complement() runeSet {
	var out runeSet
	next := rune(0)
	for _, r := range a.norm() {
		if r.lo > next {
			out = append(out, runeRange{next, r.lo - 1})
		}
		next = r.hi + 1
	}
	if next <= maxRune {
		out = append(out, runeRange{next, maxRune})
	}
	return out
}

func (a runeSet) intersect(b runeSet) runeSet {
	return a.complement().union(b.complement()).complement()
}

func (a runeSet) minus(b runeSet) runeSet { return a.intersect(b.complement()) }

func (a runeSet) contains(r rune) bool {
	for _, x := range a {
		if x.lo <= r && r <= x.hi {
			return true
		}
	}
	return false
}

func (a runeSet) String() string {
	var parts []string
	for i, r := range a {
		if i >= 12 {
			parts = append(parts, "...")
			break
		}
		if r.lo == r.hi {
			parts = append(parts, fmt.Sprintf("%q", r.lo))
		} else {
			parts = append(parts, fmt.Sprintf("%q-%q", r.lo, r.hi))
		}
	}
	return "{" + strings.Join(parts, " ") + "}"
}

func rsFromString(chars string) runeSet {
	var s runeSet
	for _, r := range chars {
		s = append(s, runeRange{r, r})
	}
	return s.norm()
}

// the classification tables of package unicode, as sets
var unicodePreds = map[string]func(rune) bool{
	"IsLetter": unicode.IsLetter, "IsDigit": unicode.IsDigit, "IsNumber": unicode.IsNumber,
	"IsSpace": unicode.IsSpace, "IsUpper": unicode.IsUpper, "IsLower": unicode.IsLower,
	"IsPunct": unicode.IsPunct, "IsGraphic": unicode.IsGraphic, "IsPrint": unicode.IsPrint,
	"IsControl": unicode.IsControl, "IsSymbol": unicode.IsSymbol, "IsMark": unicode.IsMark, "IsTitle": unicode.IsTitle,
}

var rsPredCache = map[string]runeSet{}

func rsFromPred(pred func(rune) bool) runeSet {
	key := fmt.Sprintf("%p", pred)
	if s, ok := rsPredCache[key]; ok {
		return s
	}
	var out runeSet
	inRun := false
	var lo rune
	for r := rune(0); r <= maxRune; r++ {
		if pred(r) {
			if !inRun {
				inRun, lo = true, r
			}
		} else if inRun {
			out = append(out, runeRange{lo, r - 1})
			inRun = false
		}
	}
	if inRun {
		out = append(out, runeRange{lo, maxRune})
	}
	rsPredCache[key] = out
	return out
}

// runePredEval evaluates boolean expressions over one rune variable.
type runePredEval struct {
	pk    *packages.Package
	depth int
	env   map[types.Object]runeBinding // locals defined once from the rune (`c := byte(r) | 0x20`)
	// assume: truth values given to conditions that are not about the rune (by source text, e.g. "i == 0")
	assume map[string]bool
	// fallOff: what a statement list yields when control runs off its end (nil = undecidable)
	fallOff *runeSet
}

// runeTerm: an integer expression in the rune variable — the variable itself
// put through a chain of exact transformers (narrowing conversion, bit
// operation or arithmetic with a constant). nil chain = the variable.
type runeTerm struct {
	chain []func(int64) int64
}

type runeBinding struct {
	term *runeTerm
	set  runeSet
	bool bool
}

func (t *runeTerm) apply(v int64) int64 {
	for _, f := range t.chain {
		v = f(v)
	}
	return v
}

func (t *runeTerm) then(f func(int64) int64) *runeTerm {
	n := &runeTerm{chain: append(append([]func(int64) int64(nil), t.chain...), f)}
	return n
}

// wrapTo: the value-changing part of a conversion to (or arithmetic in) a basic integer type.
func wrapTo(t types.Type) (func(int64) int64, bool) {
	b, ok := t.Underlying().(*types.Basic)
	if !ok {
		return nil, false
	}
	switch b.Kind() {
	case types.Uint8:
		return func(v int64) int64 { return int64(uint8(v)) }, true
	case types.Int8:
		return func(v int64) int64 { return int64(int8(v)) }, true
	case types.Uint16:
		return func(v int64) int64 { return int64(uint16(v)) }, true
	case types.Int16:
		return func(v int64) int64 { return int64(int16(v)) }, true
	case types.Uint32:
		return func(v int64) int64 { return int64(uint32(v)) }, true
	case types.Int32, types.UntypedRune:
		return func(v int64) int64 { return int64(int32(v)) }, true
	case types.Int, types.Int64, types.UntypedInt:
		return func(v int64) int64 { return v }, true
	case types.Uint, types.Uint64, types.Uintptr:
		// runes are non-negative and the transformers below keep values far from 2^63
		return func(v int64) int64 { return v }, true
	}
	return nil, false
}

// termOf: e as a term in the rune variable, when it has such a form.
func (ev *runePredEval) termOf(e ast.Expr, arg types.Object) (*runeTerm, bool) {
	info := ev.pk.TypesInfo
	e = ast.Unparen(e)
	switch x := e.(type) {
	case *ast.Ident:
		obj := info.Uses[x]
		if obj == arg {
			return &runeTerm{}, true
		}
		if b, ok := ev.env[obj]; ok && b.term != nil {
			return b.term, true
		}
	case *ast.CallExpr:
		if len(x.Args) == 1 {
			if tv, ok := info.Types[x.Fun]; ok && tv.IsType() {
				t, ok := ev.termOf(x.Args[0], arg)
				if !ok {
					return nil, false
				}
				w, ok := wrapTo(tv.Type)
				if !ok {
					return nil, false
				}
				return t.then(w), true
			}
		}
	case *ast.BinaryExpr:
		var t *runeTerm
		var k int64
		var okT, okK, termLeft bool
		if t, okT = ev.termOf(x.X, arg); okT {
			k, okK = ev.constRune(x.Y)
			termLeft = true
		} else if t, okT = ev.termOf(x.Y, arg); okT {
			k, okK = ev.constRune(x.X)
		}
		if !okT || !okK {
			return nil, false
		}
		w, ok := wrapTo(info.TypeOf(e))
		if !ok {
			return nil, false
		}
		var f func(int64) int64
		switch x.Op {
		case token.OR:
			f = func(v int64) int64 { return v | k }
		case token.AND:
			f = func(v int64) int64 { return v & k }
		case token.XOR:
			f = func(v int64) int64 { return v ^ k }
		case token.ADD:
			f = func(v int64) int64 { return v + k }
		case token.AND_NOT:
			if termLeft {
				f = func(v int64) int64 { return v &^ k }
			}
		case token.SUB:
			if termLeft {
				f = func(v int64) int64 { return v - k }
			} else {
				f = func(v int64) int64 { return k - v }
			}
		case token.SHR:
			if termLeft && k >= 0 && k < 63 {
				f = func(v int64) int64 { return v >> uint(k) }
			}
		case token.SHL:
			if termLeft && k >= 0 && k < 20 {
				f = func(v int64) int64 { return v << uint(k) }
			}
		}
		if f == nil {
			return nil, false
		}
		return t.then(f).then(w), true
	}
	return nil, false
}

// preimage: the runes whose transformed value satisfies keep. The rune domain
// is finite, so the preimage of a set under an exact transformer chain is
// computed by pushing every rune through the chain — set algebra on the
// predicate's model, nothing of yq is executed.
func (t *runeTerm) preimage(keep func(int64) bool) runeSet {
	var out runeSet
	inRun := false
	var lo rune
	for r := rune(0); r <= maxRune; r++ {
		if keep(t.apply(int64(r))) {
			if !inRun {
				inRun, lo = true, r
			}
		} else if inRun {
			out = append(out, runeRange{lo, r - 1})
			inRun = false
		}
	}
	if inRun {
		out = append(out, runeRange{lo, maxRune})
	}
	return out
}

func flipCmp(op token.Token) token.Token {
	switch op {
	case token.LSS:
		return token.GTR
	case token.GTR:
		return token.LSS
	case token.LEQ:
		return token.GEQ
	case token.GEQ:
		return token.LEQ
	}
	return op
}

// eval returns the set of runes for which expr is true, given that `arg` is
// the rune variable. ok=false when the expression has a form it cannot decide.
func (ev *runePredEval) eval(e ast.Expr, arg types.Object) (runeSet, bool) {
	info := ev.pk.TypesInfo
	e = ast.Unparen(e)
	if b, ok := constBool(info, e); ok {
		if b {
			return rsAll(), true
		}
		return rsNone(), true
	}
	if b, ok := ev.assume[types.ExprString(e)]; ok {
		if b {
			return rsAll(), true
		}
		return rsNone(), true
	}
	switch x := e.(type) {
	case *ast.Ident:
		if b, ok := ev.env[info.Uses[x]]; ok && b.bool {
			return b.set, true
		}
	case *ast.UnaryExpr:
		if x.Op == token.NOT {
			s, ok := ev.eval(x.X, arg)
			return s.complement(), ok
		}
	case *ast.BinaryExpr:
		switch x.Op {
		case token.LOR:
			a, ok1 := ev.eval(x.X, arg)
			b, ok2 := ev.eval(x.Y, arg)
			return a.union(b), ok1 && ok2
		case token.LAND:
			a, ok1 := ev.eval(x.X, arg)
			b, ok2 := ev.eval(x.Y, arg)
			return a.intersect(b), ok1 && ok2
		case token.LSS, token.LEQ, token.GTR, token.GEQ, token.EQL, token.NEQ:
			op := x.Op
			var c int64
			var okc bool
			var t *runeTerm
			var okt bool
			if t, okt = ev.termOf(x.X, arg); okt {
				c, okc = ev.constRune(x.Y)
			} else if t, okt = ev.termOf(x.Y, arg); okt {
				c, okc = ev.constRune(x.X)
				op = flipCmp(op)
			}
			if !okc || !okt {
				return nil, false
			}
			if len(t.chain) > 0 {
				var keep func(int64) bool
				switch op {
				case token.LSS:
					keep = func(v int64) bool { return v < c }
				case token.LEQ:
					keep = func(v int64) bool { return v <= c }
				case token.GTR:
					keep = func(v int64) bool { return v > c }
				case token.GEQ:
					keep = func(v int64) bool { return v >= c }
				case token.EQL:
					keep = func(v int64) bool { return v == c }
				case token.NEQ:
					keep = func(v int64) bool { return v != c }
				}
				return t.preimage(keep), true
			}
			if c < 0 || c > maxRune {
				// out-of-domain constant: decide against the whole domain
				switch op {
				case token.LSS, token.LEQ, token.EQL:
					if c < 0 {
						return rsNone(), true
					}
					if op == token.EQL {
						return rsNone(), true
					}
					return rsAll(), true
				case token.GTR, token.GEQ:
					if c < 0 {
						return rsAll(), true
					}
					return rsNone(), true
				case token.NEQ:
					return rsAll(), true
				}
			}
			r := rune(c)
			switch op {
			case token.LSS:
				return rsRange(0, r-1), true
			case token.LEQ:
				return rsRange(0, r), true
			case token.GTR:
				return rsRange(r+1, maxRune), true
			case token.GEQ:
				return rsRange(r, maxRune), true
			case token.EQL:
				return rsRange(r, r), true
			case token.NEQ:
				return rsRange(r, r).complement(), true
			}
		}
	case *ast.CallExpr:
		// a predicate of package unicode applied to the rune: its table is the set
		if len(x.Args) == 1 && ev.isArg(x.Args[0], arg) {
			if fn := calleeFunc(info, x); fn != nil && fn.Pkg() != nil && fn.Pkg().Path() == "unicode" {
				if pred, ok := unicodePreds[fn.Name()]; ok {
					return rsFromPred(pred), true
				}
			}
		}
		// call of another single-rune predicate of the same package with the rune as argument
		if len(x.Args) == 1 && ev.isArg(x.Args[0], arg) && ev.depth < 5 {
			if fn := calleeFunc(info, x); fn != nil && fn.Pkg() != nil && fn.Pkg().Path() == ev.pk.PkgPath {
				if fd := funcDecl(ev.pk, fn); fd != nil {
					ev.depth++
					s, ok := ev.evalPredFunc(fd)
					ev.depth--
					return s, ok
				}
			}
		}
	}
	return nil, false
}

// isArg: e is the rune variable itself, possibly through value-preserving
// conversions (rune, int32, int, int64, uint32 …: every rune fits).
func (ev *runePredEval) isArg(e ast.Expr, arg types.Object) bool {
	t, ok := ev.termOf(e, arg)
	if !ok {
		return false
	}
	if len(t.chain) == 0 {
		return true
	}
	// a chain that is the identity on the whole domain
	for r := rune(0); r <= maxRune; r++ {
		if t.apply(int64(r)) != int64(r) {
			return false
		}
	}
	return true
}

func (ev *runePredEval) constRune(e ast.Expr) (int64, bool) {
	tv, ok := ev.pk.TypesInfo.Types[e]
	if !ok || tv.Value == nil {
		return 0, false
	}
	return constant.Int64Val(constant.ToInt(tv.Value))
}

// evalPredFunc: `func p(r rune) bool { … }` whose body is a sequence of
// single definitions from the rune, `if cond { return … }` steps, a switch on
// a term with constant cases, and a final return.
func (ev *runePredEval) evalPredFunc(fd *ast.FuncDecl) (runeSet, bool) {
	if fd.Type.Params.NumFields() != 1 || fd.Body == nil || len(fd.Type.Params.List[0].Names) != 1 {
		return nil, false
	}
	arg := ev.pk.TypesInfo.Defs[fd.Type.Params.List[0].Names[0]]
	saved := ev.env
	ev.env = map[types.Object]runeBinding{}
	defer func() { ev.env = saved }()
	return ev.evalStmts(fd.Body.List, arg)
}

func (ev *runePredEval) evalStmts(list []ast.Stmt, arg types.Object) (runeSet, bool) {
	info := ev.pk.TypesInfo
	if len(list) == 0 {
		if ev.fallOff != nil {
			return *ev.fallOff, true
		}
		return nil, false
	}
	switch s := list[0].(type) {
	case *ast.ReturnStmt:
		if len(s.Results) != 1 {
			return nil, false
		}
		return ev.eval(s.Results[0], arg)
	case *ast.AssignStmt:
		if s.Tok != token.DEFINE || len(s.Lhs) != 1 || len(s.Rhs) != 1 {
			return nil, false
		}
		id, ok := s.Lhs[0].(*ast.Ident)
		if !ok {
			return nil, false
		}
		obj := info.Defs[id]
		if obj == nil || assignedAgain(info, list[1:], obj) {
			return nil, false
		}
		if t, ok := ev.termOf(s.Rhs[0], arg); ok {
			ev.env[obj] = runeBinding{term: t}
		} else if set, ok := ev.eval(s.Rhs[0], arg); ok {
			ev.env[obj] = runeBinding{set: set, bool: true}
		} else {
			return nil, false
		}
		return ev.evalStmts(list[1:], arg)
	case *ast.IfStmt:
		if s.Init != nil {
			return nil, false
		}
		cond, ok := ev.eval(s.Cond, arg)
		if !ok {
			return nil, false
		}
		thenSet, ok := ev.evalStmts(s.Body.List, arg)
		if !ok {
			return nil, false
		}
		var elseList []ast.Stmt
		switch e := s.Else.(type) {
		case nil:
			elseList = list[1:]
		case *ast.BlockStmt:
			elseList = e.List
		case *ast.IfStmt:
			elseList = []ast.Stmt{e}
			// an else-if chain that falls through continues with the rest
			elseList = append(elseList, list[1:]...)
		default:
			return nil, false
		}
		elseSet, ok := ev.evalStmts(elseList, arg)
		if !ok {
			return nil, false
		}
		return cond.intersect(thenSet).union(cond.complement().intersect(elseSet)), true
	case *ast.SwitchStmt:
		if s.Init != nil {
			return nil, false
		}
		var tag *runeTerm
		if s.Tag != nil {
			t, ok := ev.termOf(s.Tag, arg)
			if !ok {
				return nil, false
			}
			tag = t
		}
		taken := rsNone()
		result := rsNone()
		var deflt []ast.Stmt
		hasDefault := false
		for _, cl := range s.Body.List {
			cc := cl.(*ast.CaseClause)
			if cc.List == nil {
				hasDefault, deflt = true, cc.Body
				continue
			}
			clause := rsNone()
			for _, ce := range cc.List {
				if tag != nil {
					k, ok := ev.constRune(ce)
					if !ok {
						return nil, false
					}
					clause = clause.union(tag.preimage(func(v int64) bool { return v == k }))
				} else {
					cs, ok := ev.eval(ce, arg)
					if !ok {
						return nil, false
					}
					clause = clause.union(cs)
				}
			}
			clause = clause.minus(taken)
			taken = taken.union(clause)
			if len(cc.Body) == 0 {
				// empty clause: falls out of the switch
				rest, ok := ev.evalStmts(list[1:], arg)
				if !ok {
					return nil, false
				}
				result = result.union(clause.intersect(rest))
				continue
			}
			body, ok := ev.evalStmts(cc.Body, arg)
			if !ok {
				return nil, false
			}
			result = result.union(clause.intersect(body))
		}
		var rest runeSet
		var ok bool
		if hasDefault && len(deflt) > 0 {
			rest, ok = ev.evalStmts(deflt, arg)
		} else {
			rest, ok = ev.evalStmts(list[1:], arg)
		}
		if !ok {
			return nil, false
		}
		return result.union(taken.complement().intersect(rest)), true
	}
	return nil, false
}

// assignedAgain: obj is written by a later statement (then it is not a single definition).
func assignedAgain(info *types.Info, list []ast.Stmt, obj types.Object) bool {
	again := false
	for _, st := range list {
		ast.Inspect(st, func(n ast.Node) bool {
			switch x := n.(type) {
			case *ast.AssignStmt:
				for _, l := range x.Lhs {
					if id, ok := l.(*ast.Ident); ok && info.Uses[id] == obj {
						again = true
					}
				}
			case *ast.IncDecStmt:
				if id, ok := x.X.(*ast.Ident); ok && info.Uses[id] == obj {
					again = true
				}
			case *ast.UnaryExpr:
				if x.Op == token.AND {
					if id, ok := x.X.(*ast.Ident); ok && info.Uses[id] == obj {
						again = true
					}
				}
			}
			return true
		})
	}
	return again
}
