// yqcheck decides structural clauses of the yq properties C02..C19 from the
// source under -repo, without running yq. See /verif/DESIGN.md.
package main

import (
	"flag"
	"fmt"
	"go/types"
	"os"
	"path/filepath"
	"runtime/debug"
	"sort"
	"strconv"
	"strings"

	"golang.org/x/tools/go/ssa"
)

type propCheck struct {
	explanation string
	run         func(c *Ctx)
}

// Ctx is what a property check gets.
type Ctx struct {
	P    *Prog
	R    *Report
	Tier string
	Ops  *OpTable
	Lex  *LexTable

	modFuncs []*ssa.Function
	mfx      *mutfx
	noTables bool
}

var checks = map[string]*propCheck{}

func register(id, explanation string, run func(c *Ctx)) {
	checks[id] = &propCheck{explanation: explanation, run: run}
}

func main() {
	repo := flag.String("repo", "/repo", "repository to analyse")
	prop := flag.String("property", "", "property id (C02..C19)")
	tier := flag.String("tier", os.Getenv("VERIF_TIER"), "quick|thorough")
	evidence := flag.String("evidence", "", "evidence file to write")
	verif := flag.String("verif", "/verif", "verif directory (known_findings.json, out/)")
	dump := flag.String("dump", "", "debug: dump a table (ops|lex)")
	tags := flag.String("tags", "verif", "build tags")
	flag.Parse()
	if *tier == "" {
		*tier = "quick"
	}
	seed, _ := strconv.Atoi(os.Getenv("VERIF_SEED"))

	if *dump != "" {
		p, err := loadProg(*repo, *tags)
		if err != nil {
			fmt.Println("FATAL", err)
			os.Exit(2)
		}
		if strings.HasPrefix(*dump, "fx") {
			c := &Ctx{P: p, R: newReport("dump", "quick", 0)}
			m := newMutFX(c)
			m.run()
			fmt.Println("rounds:", c.R.Analysed["mutfx_rounds"], "functions:", len(m.funcs))
			filter := strings.TrimPrefix(*dump, "fx:")
			for _, fn := range m.funcs {
				if filter != "fx" && !strings.Contains(funcKey(fn), filter) {
					continue
				}
				m.dumpSummary(fn)
			}
			return
		}
		if *dump == "x1" {
			c := &Ctx{P: p, R: newReport("dump", "quick", 0)}
			ruleX1(c, "X1")
			for _, o := range c.R.obligs {
				if o.Verdict != "discharged" {
					fmt.Printf("%s %s\n     at %s: %s\n     via %s\n", o.Verdict, o.Key, o.Pos, o.Reason, o.Path)
				}
			}
			n := 0
			for _, o := range c.R.obligs {
				if o.Verdict == "discharged" {
					n++
				}
			}
			fmt.Println("discharged:", n, "fatal:", c.R.fatal)
			return
		}
		if *dump == "idx" {
			c := &Ctx{P: p, R: newReport("dump", "quick", 0)}
			np, nu := 0, 0
			for _, fn := range c.moduleFuncs() {
				for _, s := range indexSites(fn) {
					if s.Proven {
						np++
					} else {
						nu++
						fmt.Printf("UNPROVEN %-50s %-40s need>=%d fact=%s %s\n", funcKey(fn), exprOfValue(s.Base)+":"+s.Desc, s.Need, s.Fact, p.pos(s.Pos))
					}
				}
			}
			fmt.Println("proven", np, "unproven", nu)
			vp, vu := 0, 0
			for _, fn := range c.moduleFuncs() {
				for _, s := range varIndexSites(fn) {
					if s.Proven {
						vp++
					} else {
						vu++
						fmt.Printf("VAR-UNPROVEN %-46s %-30s idx=%-22s %s  %s\n", funcKey(fn), exprOfValue(s.Base), exprOfValue(s.Index), s.Why, p.pos(s.Pos))
					}
				}
			}
			fmt.Println("variable-index proven", vp, "unproven", vu)
			return
		}
		if *dump == "encstate" {
			c := &Ctx{P: p, R: newReport("dump", "quick", 0)}
			for _, w := range encoderFieldWrites(c) {
				fmt.Printf("%-30s %-24s in %-45s %s\n", w.typ, w.field, funcKey(w.fn), p.pos(w.pos))
			}
			return
		}
		if *dump == "ta" {
			c := &Ctx{P: p, R: newReport("dump", "quick", 0)}
			for _, fn := range c.moduleFuncs() {
				eachInstr(fn, func(ins ssa.Instruction) {
					ta, ok := ins.(*ssa.TypeAssert)
					if !ok || ta.CommaOk {
						return
					}
					src := exprOfValue(ta.X)
					fmt.Printf("%-50s %-40s .(%s)  %s\n", funcKey(fn), src, types.TypeString(ta.AssertedType, func(*types.Package) string { return "" }), p.pos(ta.Pos()))
				})
			}
			return
		}
		if *dump == "lex" {
			c := &Ctx{P: p, R: newReport("dump", "quick", 0)}
			if !c.tables() {
				fmt.Println("tables failed")
				return
			}
			for _, lr := range c.Lex.Rules {
				for _, t := range lr.Tokens {
					var ops []string
					for _, o := range t.Ops {
						ops = append(ops, o.Type)
					}
					fmt.Printf("%-3d %-45q kind=%-22s flag=%-7s ops=%s\n", lr.Index, lr.Pattern, t.Kind, t.Flag, strings.Join(ops, ","))
				}
			}
			return
		}
		if *dump == "prefs" {
			c := &Ctx{P: p, R: newReport("dump", "quick", 0)}
			for _, s := range pfSites(c) {
				fmt.Printf("%-20s %-50s -> %-50s %s %s\n", s.how, funcKey(s.fn), s.callee, s.tname, p.pos(s.call.Pos()))
			}
			return
		}
		if *dump == "ro" {
			c := &Ctx{P: p, R: newReport("dump", "quick", 0)}
			dumpCensus(c)
			return
		}
		if *dump == "selftest" {
			problems, fired := selfTest()
			fmt.Println("fired", fired)
			for _, pr := range problems {
				fmt.Println("PROBLEM", pr)
			}
			return
		}
		if *dump == "errs" {
			c := &Ctx{P: p, R: newReport("dump", "quick", 0)}
			for _, fn := range c.moduleFuncs() {
				for _, s := range errorDroppedSites(c, fn) {
					fmt.Printf("%-16s %-60s %s  [%s]\n", s.Kind, p.pos(s.Instr.Pos()), s.Desc, s.Key)
				}
				for _, s := range errorSwallowedSites(c, fn) {
					fmt.Printf("%-16s %-60s %s  [%s]\n", s.Kind, p.pos(s.Instr.Pos()), s.Desc, s.Key)
				}
				for _, s := range recoverLostSites(c, fn) {
					fmt.Printf("%-16s %-60s %s  [%s]\n", s.Kind, p.pos(s.Instr.Pos()), s.Desc, s.Key)
				}
			}
			return
		}
		dumpTables(p, *dump)
		return
	}

	pc := checks[*prop]
	if pc == nil {
		var ids []string
		for id := range checks {
			ids = append(ids, id)
		}
		sort.Strings(ids)
		fmt.Printf("unknown property %q; known: %s\n", *prop, strings.Join(ids, " "))
		os.Exit(2)
	}
	if *evidence == "" {
		*evidence = filepath.Join(*verif, "evidence", *prop+".json")
	}
	r := newReport(*prop, *tier, seed)
	r.Explanation = pc.explanation
	cmdline := fmt.Sprintf("%s/bin/yqcheck -repo %s -property %s -tier %s", *verif, *repo, *prop, *tier)
	known, err := loadKnown(filepath.Join(*verif, "known_findings.json"))
	if err != nil {
		fmt.Println("FATAL", err)
		os.Exit(2)
	}

	exit := func() (code int) {
		defer func() {
			if e := recover(); e != nil {
				r.Fatal("analyser panic: %v\n%s", e, debug.Stack())
				code = r.Finish(*verif, *evidence, known, cmdline)
			}
		}()
		p, err := loadProg(*repo, *tags)
		if err != nil {
			r.Fatal("load: %v", err)
			return r.Finish(*verif, *evidence, known, cmdline)
		}
		mods := p.modulePackages()
		var names []string
		nfuncs := 0
		for _, m := range mods {
			names = append(names, m.PkgPath)
			nfuncs += len(allFuncDecls(m))
		}
		r.Analysed["packages_loaded"] = len(p.All)
		r.Analysed["module_packages"] = names
		r.Analysed["module_function_decls"] = nfuncs
		if p.Yqlib == nil || p.Cmd == nil || p.Main == nil {
			r.Fatal("expected module packages %s, %s, %s not all loaded", modPath, cmdPath, yqlibPath)
			return r.Finish(*verif, *evidence, known, cmdline)
		}
		if os.Getenv("YQCHECK_NESTED") == "" {
			problems, fired := selfTest()
			r.Analysed["selftest_rules_fired_on_fixture"] = fired
			for _, pr := range problems {
				r.Fatal("self-test: %s", pr)
			}
		}
		c := &Ctx{P: p, R: r, Tier: *tier}
		pc.run(c)
		if *tier == "thorough" && os.Getenv("YQCHECK_NESTED") == "" {
			thoroughExtras(r, *repo, *verif, *prop)
		}
		return r.Finish(*verif, *evidence, known, cmdline)
	}()
	os.Exit(exit)
}

// tables loads the operator and lexer tables once.
func (c *Ctx) tables() bool {
	if c.noTables {
		return false
	}
	if c.Ops != nil {
		return true
	}
	ops, err := extractOpTable(c.P)
	if err != nil {
		c.R.Fatal("operator table: %v", err)
		return false
	}
	lex, err := extractLexTable(c.P, ops)
	if err != nil {
		c.R.Fatal("lexer table: %v", err)
		return false
	}
	c.Ops, c.Lex = ops, lex
	c.R.Analysed["operation_types"] = len(ops.List)
	c.R.Analysed["lexer_rules"] = len(lex.Rules)
	return true
}

func dumpTables(p *Prog, what string) {
	ops, err := extractOpTable(p)
	if err != nil {
		fmt.Println("FATAL", err)
		os.Exit(2)
	}
	if what == "ops" {
		for _, o := range ops.List {
			fmt.Printf("%-28s %-24s args=%d prec=%d check=%v handler=%s\n", o.VarName, o.Type, o.NumArgs, o.Precedence, o.Check, o.Handler.Name())
		}
		fmt.Println(len(ops.List), "operation types")
		return
	}
	lex, err := extractLexTable(p, ops)
	if err != nil {
		fmt.Println("FATAL", err)
		os.Exit(2)
	}
	for _, r := range lex.Rules {
		fmt.Printf("%3d %-40q notoken=%v problem=%q\n", r.Index, r.Pattern, r.NoToken, r.Problem)
		for _, t := range r.Tokens {
			fmt.Printf("       kind=%s ops=%s assign=%s flag=%s%s prefs=%v\n", t.Kind, opNames(t.Ops), opNames(t.AssignOps), t.Flag, opNames(t.FlagOps), t.PrefTypes)
		}
	}
}

func opNames(o []*OpType) string {
	var s []string
	for _, x := range o {
		s = append(s, x.VarName)
	}
	return "[" + strings.Join(s, ",") + "]"
}
