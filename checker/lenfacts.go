package main

import (
	"fmt"
	"go/constant"
	"go/token"
	"go/types"
	"strings"

	"golang.org/x/tools/go/ssa"
)

// Interval reasoning over len(X) / X.Len() for SSA values X, using only the
// branch conditions that dominate a program point. Values 0..62 are tracked
// exactly, bit 63 stands for "63 or more".

type lenSet uint64

const lenAll lenSet = ^lenSet(0)

func lenGE(k int64) lenSet {
	if k <= 0 {
		return lenAll
	}
	if k > 63 {
		return 0
	}
	return lenAll << uint(k)
}
func lenEQ(k int64) lenSet {
	if k < 0 {
		return 0
	}
	if k >= 63 {
		return 1 << 63
	}
	return 1 << uint(k)
}
func lenLT(k int64) lenSet { return ^lenGE(k) }

func (s lenSet) String() string {
	if s == lenAll {
		return "any"
	}
	if s == 0 {
		return "none"
	}
	var parts []string
	for i := 0; i < 64; i++ {
		if s&(1<<uint(i)) == 0 {
			continue
		}
		j := i
		for j+1 < 64 && s&(1<<uint(j+1)) != 0 {
			j++
		}
		switch {
		case j == 63 && i == 63:
			parts = append(parts, ">=63")
		case j == 63:
			parts = append(parts, fmt.Sprintf(">=%d", i))
		case i == j:
			parts = append(parts, fmt.Sprintf("%d", i))
		default:
			parts = append(parts, fmt.Sprintf("%d..%d", i, j))
		}
		i = j
	}
	return "{" + strings.Join(parts, ",") + "}"
}

// lenOf recognises `len(X)` (builtin), `X.Len()` (container/list, any Len
// method) and returns X.
func lenOf(v ssa.Value) (ssa.Value, bool) {
	switch c := v.(type) {
	case *ssa.Call:
		if b, ok := c.Call.Value.(*ssa.Builtin); ok && b.Name() == "len" && len(c.Call.Args) == 1 {
			return c.Call.Args[0], true
		}
		if c.Call.IsInvoke() {
			if c.Call.Method.Name() == "Len" {
				return c.Call.Value, true
			}
			return nil, false
		}
		if callee := c.Call.StaticCallee(); callee != nil && callee.Name() == "Len" && callee.Signature.Recv() != nil && len(c.Call.Args) == 1 {
			return c.Call.Args[0], true
		}
	case *ssa.Convert:
		return lenOf(c.X)
	case *ssa.ChangeType:
		return lenOf(c.X)
	}
	return nil, false
}

func constInt64(v ssa.Value) (int64, bool) {
	switch c := v.(type) {
	case *ssa.Const:
		if c.Value == nil {
			return 0, false
		}
		if c.Value.Kind() != constant.Int {
			return 0, false
		}
		n, ok := constant.Int64Val(c.Value)
		return n, ok
	case *ssa.Convert:
		return constInt64(c.X)
	case *ssa.ChangeType:
		return constInt64(c.X)
	}
	return 0, false
}

// condLen decodes an atomic condition `len(X) op c` into (X, set when true).
func condLen(v ssa.Value) (ssa.Value, lenSet, bool) {
	b, ok := v.(*ssa.BinOp)
	if !ok {
		if u, ok := v.(*ssa.UnOp); ok && u.Op == token.NOT {
			x, s, ok := condLen(u.X)
			return x, ^s, ok
		}
		return nil, 0, false
	}
	op := b.Op
	lx, lok := lenOf(b.X)
	c, cok := constInt64(b.Y)
	if !lok || !cok {
		// c op len(X)
		lx, lok = lenOf(b.Y)
		c, cok = constInt64(b.X)
		if !lok || !cok {
			return nil, 0, false
		}
		switch op {
		case token.LSS:
			op = token.GTR
		case token.GTR:
			op = token.LSS
		case token.LEQ:
			op = token.GEQ
		case token.GEQ:
			op = token.LEQ
		}
	}
	switch op {
	case token.LSS:
		return lx, lenLT(c), true
	case token.LEQ:
		return lx, lenLT(c + 1), true
	case token.GTR:
		return lx, lenGE(c + 1), true
	case token.GEQ:
		return lx, lenGE(c), true
	case token.EQL:
		return lx, lenEQ(c), true
	case token.NEQ:
		return lx, ^lenEQ(c), true
	}
	return nil, 0, false
}

// sameLenBase: two SSA values denote the same sequence for the purpose of a
// length fact. Identity, or loads of the same non-escaping local / same field
// address chain with no intervening store (approximated: same Alloc / same
// FieldAddr base value and field).
func sameLenBase(a, b ssa.Value) bool {
	if a == b {
		return true
	}
	ua, ok1 := a.(*ssa.UnOp)
	ub, ok2 := b.(*ssa.UnOp)
	if ok1 && ok2 && ua.Op == token.MUL && ub.Op == token.MUL {
		if ua.X == ub.X {
			return true
		}
		fa, ok1 := ua.X.(*ssa.FieldAddr)
		fb, ok2 := ub.X.(*ssa.FieldAddr)
		if ok1 && ok2 && fa.Field == fb.Field && sameLenBase(fa.X, fb.X) {
			return true
		}
	}
	// x.Field of the same struct value
	f1, ok1 := a.(*ssa.Field)
	f2, ok2 := b.(*ssa.Field)
	if ok1 && ok2 && f1.Field == f2.Field && sameLenBase(f1.X, f2.X) {
		return true
	}
	return false
}

// domFacts returns the constraint on len(base) that holds on entry to block
// blk, from the conditions of dominating branches.
func domFacts(blk *ssa.BasicBlock, base ssa.Value) lenSet {
	set := lenAll
	for b := blk; b != nil; {
		d := b.Idom()
		if d == nil {
			break
		}
		if ifi, ok := d.Instrs[len(d.Instrs)-1].(*ssa.If); ok {
			// which successor leads (exclusively) to b's dominator subtree?
			for si, s := range d.Succs {
				if soleEntry(s, d) && s.Dominates(blk) && d.Succs[0] != d.Succs[1] {
					if x, cs, ok := condLen(ifi.Cond); ok && sameLenBase(x, base) {
						if si == 0 {
							set &= cs
						} else {
							set &= ^cs
						}
					}
				}
			}
		}
		b = d
	}
	return set
}

// An indexSite is an index or slice expression with a recognisable bound need.
type indexSite struct {
	Instr  ssa.Instruction
	Base   ssa.Value
	Need   int64 // minimal len(base) required
	Desc   string
	Proven bool
	Fact   lenSet
	Pos    token.Pos
}

// lenMinus recognises `len(X) - k` (k>=0 const) and returns X, k.
func lenMinus(v ssa.Value) (ssa.Value, int64, bool) {
	if x, ok := lenOf(v); ok {
		return x, 0, true
	}
	if b, ok := v.(*ssa.BinOp); ok && b.Op == token.SUB {
		if x, ok := lenOf(b.X); ok {
			if k, ok := constInt64(b.Y); ok {
				return x, k, true
			}
		}
	}
	return nil, 0, false
}

// indexSites lists index/slice instructions of fn whose index is a constant
// or len(base)-k, with the length they need and whether dominating branch
// conditions establish it.
func indexSites(fn *ssa.Function) []*indexSite {
	var out []*indexSite
	add := func(ins ssa.Instruction, base, idx ssa.Value, isSliceBound bool, what string) {
		if idx == nil {
			return
		}
		var need int64
		desc := ""
		if k, ok := constInt64(idx); ok {
			if isSliceBound {
				need = k
			} else {
				need = k + 1
			}
			desc = fmt.Sprintf("%s const %d", what, k)
		} else if x, k, ok := lenMinus(idx); ok && sameLenBase(x, base) {
			// X[len(X)-k] needs len >= k (index: k>=1 and len>=k; slice bound: len>=k)
			need = k
			desc = fmt.Sprintf("%s len-%d", what, k)
			if !isSliceBound && k == 0 {
				need = 64 // X[len(X)] is never valid
			}
		} else {
			return
		}
		if need <= 0 {
			return
		}
		s := &indexSite{Instr: ins, Base: base, Need: need, Desc: desc, Pos: ins.Pos()}
		s.Fact = domFacts(ins.Block(), base)
		s.Proven = s.Fact&^lenGE(need) == 0
		out = append(out, s)
	}
	for _, b := range fn.Blocks {
		for _, ins := range b.Instrs {
			switch x := ins.(type) {
			case *ssa.IndexAddr:
				if _, isArr := derefType(x.X.Type()).Underlying().(*types.Array); isArr {
					continue
				}
				add(x, x.X, x.Index, false, "index")
			case *ssa.Index:
				if _, isArr := x.X.Type().Underlying().(*types.Array); isArr {
					continue
				}
				add(x, x.X, x.Index, false, "index")
			case *ssa.Lookup:
				if _, isMap := x.X.Type().Underlying().(*types.Map); isMap {
					continue
				}
				add(x, x.X, x.Index, false, "index")
			case *ssa.Slice:
				if _, isArr := derefType(x.X.Type()).Underlying().(*types.Array); isArr {
					continue
				}
				add(x, x.X, x.Low, true, "slice-low")
				add(x, x.X, x.High, true, "slice-high")
			}
		}
	}
	return out
}

func derefType(t types.Type) types.Type {
	if p, ok := t.Underlying().(*types.Pointer); ok {
		return p.Elem()
	}
	return t
}

// exprOfValue gives a short, position-free description of an SSA value for
// obligation keys.
func exprOfValue(v ssa.Value) string {
	switch x := v.(type) {
	case *ssa.Parameter:
		return x.Name()
	case *ssa.FreeVar:
		return x.Name()
	case *ssa.Global:
		return x.Name()
	case *ssa.Const:
		return x.String()
	case *ssa.UnOp:
		if x.Op == token.MUL {
			return exprOfValue(x.X)
		}
		return x.Op.String() + exprOfValue(x.X)
	case *ssa.FieldAddr:
		return exprOfValue(x.X) + "." + fieldName(x)
	case *ssa.Field:
		return exprOfValue(x.X) + "." + fieldNameOfField(x)
	case *ssa.Alloc:
		if x.Comment != "" {
			return x.Comment
		}
		return "local"
	case *ssa.Phi:
		if x.Comment != "" {
			return x.Comment
		}
		return "phi"
	case *ssa.Call:
		if x.Call.IsInvoke() {
			return exprOfValue(x.Call.Value) + "." + x.Call.Method.Name() + "()"
		}
		if c := x.Call.StaticCallee(); c != nil {
			return c.Name() + "()"
		}
		if b, ok := x.Call.Value.(*ssa.Builtin); ok {
			return b.Name() + "()"
		}
		return "call()"
	case *ssa.Extract:
		return exprOfValue(x.Tuple) + fmt.Sprintf("#%d", x.Index)
	case *ssa.IndexAddr:
		return exprOfValue(x.X) + "[]"
	case *ssa.Index:
		return exprOfValue(x.X) + "[]"
	case *ssa.Slice:
		return exprOfValue(x.X) + "[:]"
	case *ssa.TypeAssert:
		return exprOfValue(x.X)
	case *ssa.MakeInterface:
		return exprOfValue(x.X)
	case *ssa.ChangeType:
		return exprOfValue(x.X)
	case *ssa.Convert:
		return exprOfValue(x.X)
	}
	return v.Name()
}
