package main

import (
	"fmt"
	"go/constant"
	"go/token"
	"go/types"
	"strings"

	"golang.org/x/tools/go/ssa"
)

// Interval reasoning over len(X) / X.Len() for SSA values X, using only the
// branch conditions that dominate a program point. Values 0..62 are tracked
// exactly, bit 63 stands for "63 or more".

type lenSet uint64

const lenAll lenSet = ^lenSet(0)

func lenGE(k int64) lenSet {
	if k <= 0 {
		return lenAll
	}
	if k > 63 {
		return 0
	}
	return lenAll << uint(k)
}
func lenEQ(k int64) lenSet {
	if k < 0 {
		return 0
	}
	if k >= 63 {
		return 1 << 63
	}
	return 1 << uint(k)
}
func lenLT(k int64) lenSet { return ^lenGE(k) }

func (s lenSet) String() string {
	if s == lenAll {
		return "any"
	}
	if s == 0 {
		return "none"
	}
	var parts []string
	for i := 0; i < 64; i++ {
		if s&(1<<uint(i)) == 0 {
			continue
		}
		j := i
		for j+1 < 64 && s&(1<<uint(j+1)) != 0 {
			j++
		}
		switch {
		case j == 63 && i == 63:
			parts = append(parts, ">=63")
		case j == 63:
			parts = append(parts, fmt.Sprintf(">=%d", i))
		case i == j:
			parts = append(parts, fmt.Sprintf("%d", i))
		default:
			parts = append(parts, fmt.Sprintf("%d..%d", i, j))
		}
		i = j
	}
	return "{" + strings.Join(parts, ",") + "}"
}

// lenOf recognises `len(X)` (builtin), `X.Len()` (container/list, any Len
// method) and returns X.
func lenOf(v ssa.Value) (ssa.Value, bool) {
	switch c := v.(type) {
	case *ssa.Call:
		if b, ok := c.Call.Value.(*ssa.Builtin); ok && b.Name() == "len" && len(c.Call.Args) == 1 {
			return c.Call.Args[0], true
		}
		if c.Call.IsInvoke() {
			if c.Call.Method.Name() == "Len" {
				return c.Call.Value, true
			}
			return nil, false
		}
		if callee := c.Call.StaticCallee(); callee != nil && callee.Name() == "Len" && callee.Signature.Recv() != nil && len(c.Call.Args) == 1 {
			return c.Call.Args[0], true
		}
	case *ssa.Convert:
		return lenOf(c.X)
	case *ssa.ChangeType:
		return lenOf(c.X)
	}
	return nil, false
}

func constInt64(v ssa.Value) (int64, bool) {
	switch c := v.(type) {
	case *ssa.Const:
		if c.Value == nil {
			return 0, false
		}
		if c.Value.Kind() != constant.Int {
			return 0, false
		}
		n, ok := constant.Int64Val(c.Value)
		return n, ok
	case *ssa.Convert:
		return constInt64(c.X)
	case *ssa.ChangeType:
		return constInt64(c.X)
	}
	return 0, false
}

// condLen decodes an atomic condition `len(X) op c` into (X, set when true).
func condLen(v ssa.Value) (ssa.Value, lenSet, bool) {
	b, ok := v.(*ssa.BinOp)
	if !ok {
		if u, ok := v.(*ssa.UnOp); ok && u.Op == token.NOT {
			x, s, ok := condLen(u.X)
			return x, ^s, ok
		}
		return nil, 0, false
	}
	op := b.Op
	// s != "" / s == ""
	if op == token.EQL || op == token.NEQ {
		for _, pr := range [][2]ssa.Value{{b.X, b.Y}, {b.Y, b.X}} {
			if cst, ok := pr[1].(*ssa.Const); ok && cst.Value != nil && cst.Value.Kind() == constant.String && constant.StringVal(cst.Value) == "" {
				if op == token.EQL {
					return pr[0], lenEQ(0), true
				}
				return pr[0], lenGE(1), true
			}
		}
	}
	lx, lok := lenOf(b.X)
	c, cok := constInt64(b.Y)
	if !lok || !cok {
		// c op len(X)
		lx, lok = lenOf(b.Y)
		c, cok = constInt64(b.X)
		if !lok || !cok {
			return nil, 0, false
		}
		switch op {
		case token.LSS:
			op = token.GTR
		case token.GTR:
			op = token.LSS
		case token.LEQ:
			op = token.GEQ
		case token.GEQ:
			op = token.LEQ
		}
	}
	switch op {
	case token.LSS:
		return lx, lenLT(c), true
	case token.LEQ:
		return lx, lenLT(c + 1), true
	case token.GTR:
		return lx, lenGE(c + 1), true
	case token.GEQ:
		return lx, lenGE(c), true
	case token.EQL:
		return lx, lenEQ(c), true
	case token.NEQ:
		return lx, ^lenEQ(c), true
	}
	return nil, 0, false
}

// sameLenBase: two SSA values denote the same sequence for the purpose of a
// length fact. Identity, or loads of the same non-escaping local / same field
// address chain with no intervening store (approximated: same Alloc / same
// FieldAddr base value and field).
func sameLenBase(a, b ssa.Value) bool {
	if a == b {
		return true
	}
	ua, ok1 := a.(*ssa.UnOp)
	ub, ok2 := b.(*ssa.UnOp)
	if ok1 && ok2 && ua.Op == token.MUL && ub.Op == token.MUL {
		if ua.X == ub.X {
			return true
		}
		fa, ok1 := ua.X.(*ssa.FieldAddr)
		fb, ok2 := ub.X.(*ssa.FieldAddr)
		if ok1 && ok2 && fa.Field == fb.Field && sameLenBase(fa.X, fb.X) {
			return true
		}
	}
	// element loads s[i] of the same slice and index
	if ok1 && ok2 && ua.Op == token.MUL && ub.Op == token.MUL {
		ia, ok1 := ua.X.(*ssa.IndexAddr)
		ib, ok2 := ub.X.(*ssa.IndexAddr)
		if ok1 && ok2 && ia.Index == ib.Index && sameLenBase(ia.X, ib.X) {
			return true
		}
	}
	// x.Field of the same struct value
	f1, ok1 := a.(*ssa.Field)
	f2, ok2 := b.(*ssa.Field)
	if ok1 && ok2 && f1.Field == f2.Field && sameLenBase(f1.X, f2.X) {
		return true
	}
	return false
}

// domFacts returns the constraint on len(base) that holds on entry to block
// blk, from the conditions of dominating branches.
func domFacts(blk *ssa.BasicBlock, base ssa.Value) lenSet {
	set := flowFacts(blk, base)
	for b := blk; b != nil; {
		d := b.Idom()
		if d == nil {
			break
		}
		if ifi, ok := d.Instrs[len(d.Instrs)-1].(*ssa.If); ok {
			// which successor leads (exclusively) to b's dominator subtree?
			for si, s := range d.Succs {
				if soleEntry(s, d) && s.Dominates(blk) && d.Succs[0] != d.Succs[1] {
					if x, cs, ok := condLen(ifi.Cond); ok && sameLenBase(x, base) {
						if si == 0 {
							set &= cs
						} else {
							set &= ^cs
						}
					}
				}
			}
		}
		b = d
	}
	return set
}

// An indexSite is an index or slice expression with a recognisable bound need.
type indexSite struct {
	Instr  ssa.Instruction
	Base   ssa.Value
	Need   int64 // minimal len(base) required
	Desc   string
	Proven bool
	Fact   lenSet
	Pos    token.Pos
}

// lenMinus recognises `len(X) - k` (k>=0 const) and returns X, k.
func lenMinus(v ssa.Value) (ssa.Value, int64, bool) {
	if x, ok := lenOf(v); ok {
		return x, 0, true
	}
	if b, ok := v.(*ssa.BinOp); ok && b.Op == token.SUB {
		if x, ok := lenOf(b.X); ok {
			if k, ok := constInt64(b.Y); ok {
				return x, k, true
			}
		}
	}
	return nil, 0, false
}

// indexSites lists index/slice instructions of fn whose index is a constant
// or len(base)-k, with the length they need and whether dominating branch
// conditions establish it.
func indexSites(fn *ssa.Function) []*indexSite {
	var out []*indexSite
	add := func(ins ssa.Instruction, base, idx ssa.Value, isSliceBound bool, what string) {
		if idx == nil {
			return
		}
		var need int64
		desc := ""
		if k, ok := constInt64(idx); ok {
			if isSliceBound {
				need = k
			} else {
				need = k + 1
			}
			desc = fmt.Sprintf("%s const %d", what, k)
		} else if x, k, ok := lenMinus(idx); ok && sameLenBase(x, base) {
			// X[len(X)-k] needs len >= k (index: k>=1 and len>=k; slice bound: len>=k)
			need = k
			desc = fmt.Sprintf("%s len-%d", what, k)
			if !isSliceBound && k == 0 {
				need = 64 // X[len(X)] is never valid
			}
		} else {
			return
		}
		if need <= 0 {
			return
		}
		s := &indexSite{Instr: ins, Base: base, Need: need, Desc: desc, Pos: ins.Pos()}
		s.Fact = domFacts(ins.Block(), base)
		s.Proven = s.Fact&^lenGE(need) == 0
		out = append(out, s)
	}
	for _, b := range fn.Blocks {
		for _, ins := range b.Instrs {
			switch x := ins.(type) {
			case *ssa.IndexAddr:
				if _, isArr := derefType(x.X.Type()).Underlying().(*types.Array); isArr {
					continue
				}
				add(x, x.X, x.Index, false, "index")
			case *ssa.Index:
				if _, isArr := x.X.Type().Underlying().(*types.Array); isArr {
					continue
				}
				add(x, x.X, x.Index, false, "index")
			case *ssa.Lookup:
				if _, isMap := x.X.Type().Underlying().(*types.Map); isMap {
					continue
				}
				add(x, x.X, x.Index, false, "index")
			case *ssa.Slice:
				if _, isArr := derefType(x.X.Type()).Underlying().(*types.Array); isArr {
					continue
				}
				add(x, x.X, x.Low, true, "slice-low")
				add(x, x.X, x.High, true, "slice-high")
				// low <= high: X[a : len(X)-k] needs len >= a+k
				if x.Low != nil && x.High != nil {
					if a, ok := constInt64(x.Low); ok {
						if hb, k, ok := lenMinus(x.High); ok && sameLenBase(hb, x.X) && a+k > 0 {
							s := &indexSite{Instr: x, Base: x.X, Need: a + k, Desc: fmt.Sprintf("slice %d:len-%d", a, k), Pos: x.Pos()}
							s.Fact = domFacts(x.Block(), x.X)
							s.Proven = s.Fact&^lenGE(a+k) == 0
							out = append(out, s)
						}
					}
				}
			}
		}
	}
	return out
}

func derefType(t types.Type) types.Type {
	if p, ok := t.Underlying().(*types.Pointer); ok {
		return p.Elem()
	}
	return t
}

// exprOfValue gives a short, position-free description of an SSA value for
// obligation keys.
func exprOfValue(v ssa.Value) string {
	switch x := v.(type) {
	case *ssa.Parameter:
		return x.Name()
	case *ssa.FreeVar:
		return x.Name()
	case *ssa.Global:
		return x.Name()
	case *ssa.Const:
		return x.String()
	case *ssa.UnOp:
		if x.Op == token.MUL {
			return exprOfValue(x.X)
		}
		return x.Op.String() + exprOfValue(x.X)
	case *ssa.FieldAddr:
		return exprOfValue(x.X) + "." + fieldName(x)
	case *ssa.Field:
		return exprOfValue(x.X) + "." + fieldNameOfField(x)
	case *ssa.Alloc:
		if x.Comment != "" {
			return x.Comment
		}
		return "local"
	case *ssa.Phi:
		if x.Comment != "" {
			return x.Comment
		}
		return "phi"
	case *ssa.Call:
		if x.Call.IsInvoke() {
			return exprOfValue(x.Call.Value) + "." + x.Call.Method.Name() + "()"
		}
		if c := x.Call.StaticCallee(); c != nil {
			return c.Name() + "()"
		}
		if b, ok := x.Call.Value.(*ssa.Builtin); ok {
			return b.Name() + "()"
		}
		return "call()"
	case *ssa.Extract:
		return exprOfValue(x.Tuple) + fmt.Sprintf("#%d", x.Index)
	case *ssa.IndexAddr:
		return exprOfValue(x.X) + "[]"
	case *ssa.Index:
		return exprOfValue(x.X) + "[]"
	case *ssa.Slice:
		return exprOfValue(x.X) + "[:]"
	case *ssa.TypeAssert:
		return exprOfValue(x.X)
	case *ssa.MakeInterface:
		return exprOfValue(x.X)
	case *ssa.ChangeType:
		return exprOfValue(x.X)
	case *ssa.Convert:
		return exprOfValue(x.X)
	}
	return v.Name()
}

// ---- variable indices -------------------------------------------------------

// idxPlus decomposes v into (base index value, constant offset).
func idxPlus(v ssa.Value) (ssa.Value, int64) {
	if b, ok := v.(*ssa.BinOp); ok {
		if k, ok := constInt64(b.Y); ok {
			if b.Op == token.ADD {
				x, k0 := idxPlus(b.X)
				return x, k0 + k
			}
			if b.Op == token.SUB {
				x, k0 := idxPlus(b.X)
				return x, k0 - k
			}
		}
		if k, ok := constInt64(b.X); ok && b.Op == token.ADD {
			x, k0 := idxPlus(b.Y)
			return x, k0 + k
		}
	}
	if c, ok := v.(*ssa.Convert); ok {
		return idxPlus(c.X)
	}
	return v, 0
}

// lenValueOf: v is len(base) (possibly computed earlier and kept in a value).
func lenValueOf(v ssa.Value, base ssa.Value) bool {
	if x, ok := lenOf(v); ok && sameLenBase(x, base) {
		return true
	}
	return false
}

// nonNegative: the index value cannot be negative: constants >= 0, len(),
// loop counters starting at a non-negative value and only incremented, range
// indices (go/ssa lowers `for i := range s` to phi(-1, i+1)+1).
func nonNegative(v ssa.Value, depth int, seen map[ssa.Value]bool) bool {
	if lb, ok := lowerBound(v, 0, map[ssa.Value]bool{}); ok && lb >= 0 {
		return true
	}
	// induction over the loop iterations: a phi met again is assumed
	// non-negative; every operation on the cycle must preserve that.
	if depth > 8 {
		return false
	}
	if known, ok := seen[v]; ok {
		return known
	}
	switch x := v.(type) {
	case *ssa.Phi:
		seen[v] = true
		for _, e := range x.Edges {
			if !nonNegative(e, depth+1, seen) {
				seen[v] = false
				return false
			}
		}
		return true
	case *ssa.BinOp:
		switch x.Op {
		case token.ADD, token.MUL, token.QUO:
			return nonNegative(x.X, depth+1, seen) && nonNegative(x.Y, depth+1, seen)
		case token.REM:
			return nonNegative(x.X, depth+1, seen)
		}
	case *ssa.Convert:
		return nonNegative(x.X, depth+1, seen)
	case *ssa.Parameter:
		// what every caller passes (the function must only be called directly)
		return paramNonNegative(x)
	}
	return false
}

// lowerBound: a constant the value is never below. Loop-carried edges of a phi
// that only add a non-negative constant to the phi itself are monotone and are
// skipped.
func lowerBound(v ssa.Value, depth int, onPath map[ssa.Value]bool) (int64, bool) {
	if depth > 8 {
		return 0, false
	}
	if k, ok := constInt64(v); ok {
		return k, true
	}
	if _, ok := lenOf(v); ok {
		return 0, true
	}
	switch x := v.(type) {
	case *ssa.Phi:
		if onPath[x] {
			return 0, false
		}
		onPath[x] = true
		defer delete(onPath, x)
		have := false
		var lb int64
		for _, e := range x.Edges {
			if base, off := idxPlus(e); base == ssa.Value(x) {
				if off >= 0 {
					continue // monotone self edge
				}
				return 0, false
			}
			l, ok := lowerBound(e, depth+1, onPath)
			if !ok {
				return 0, false
			}
			if !have || l < lb {
				lb, have = l, true
			}
		}
		return lb, have
	case *ssa.BinOp:
		switch x.Op {
		case token.ADD:
			a, ok1 := lowerBound(x.X, depth+1, onPath)
			b, ok2 := lowerBound(x.Y, depth+1, onPath)
			if ok1 && ok2 {
				return a + b, true
			}
		case token.SUB:
			if k, ok := constInt64(x.Y); ok {
				if a, ok := lowerBound(x.X, depth+1, onPath); ok {
					return a - k, true
				}
			}
		case token.MUL, token.QUO:
			a, ok1 := lowerBound(x.X, depth+1, onPath)
			b, ok2 := lowerBound(x.Y, depth+1, onPath)
			if ok1 && ok2 && a >= 0 && b >= 0 {
				if x.Op == token.MUL {
					return a * b, true
				}
				return 0, true
			}
		case token.REM:
			a, ok1 := lowerBound(x.X, depth+1, onPath)
			if ok1 && a >= 0 {
				return 0, true
			}
		}
	case *ssa.Extract:
		if _, ok := x.Tuple.(*ssa.Next); ok && x.Index == 1 {
			return 0, true
		}
	case *ssa.Convert:
		return lowerBound(x.X, depth+1, onPath)
	}
	return 0, false
}

// varIndexSite: an index expression whose index is not a constant / len-k.
type varIndexSite struct {
	Instr  ssa.Instruction
	Base   ssa.Value
	Index  ssa.Value
	Proven bool
	Why    string
	Pos    token.Pos
	Slice  bool
	Pair   bool // proven under the invariant "a mapping's children come in key/value pairs"
	LowOK  bool
	UpOK   bool
}

// isNodeSlice: []*CandidateNode, []*yaml.Node and the like.
func isNodeSlice(t types.Type) bool {
	sl, ok := t.Underlying().(*types.Slice)
	if !ok {
		return false
	}
	p, ok := sl.Elem().Underlying().(*types.Pointer)
	if !ok {
		return false
	}
	n, ok := p.Elem().(*types.Named)
	if !ok {
		return false
	}
	switch n.Obj().Name() {
	case "CandidateNode", "Node":
		return true
	}
	return false
}

// stepsByTwoFromEven: v = phi(even constant >= 0, v+2).
func stepsByTwoFromEven(v ssa.Value) bool {
	phi, ok := v.(*ssa.Phi)
	if !ok {
		return false
	}
	entries := 0
	for _, e := range phi.Edges {
		if k, ok := constInt64(e); ok {
			if k < 0 || k%2 != 0 {
				return false
			}
			entries++
			continue
		}
		if b, off := idxPlus(e); b == ssa.Value(phi) && off == 2 {
			continue
		}
		return false
	}
	return entries > 0
}

// madeWithLen: the length operands of the make() calls that produce base in
// this function: base itself, or — for a field — every store to that field.
func madeWithLen(fn *ssa.Function, base ssa.Value) []ssa.Value {
	if m, ok := base.(*ssa.MakeSlice); ok {
		return []ssa.Value{m.Len}
	}
	u, ok := base.(*ssa.UnOp)
	if !ok || u.Op != token.MUL {
		return nil
	}
	var out []ssa.Value
	bad := false
	for _, b := range fn.Blocks {
		for _, ins := range b.Instrs {
			st, ok := ins.(*ssa.Store)
			if !ok {
				continue
			}
			same := st.Addr == u.X
			if !same {
				fa, ok1 := st.Addr.(*ssa.FieldAddr)
				fb, ok2 := u.X.(*ssa.FieldAddr)
				same = ok1 && ok2 && fa.Field == fb.Field && sameLenBase(fa.X, fb.X)
			}
			if !same {
				continue
			}
			if m, ok := st.Val.(*ssa.MakeSlice); ok {
				out = append(out, m.Len)
			} else {
				bad = true
			}
		}
	}
	if bad {
		return nil
	}
	return out
}

// sameLength: two values that denote the same length (same value, or len() of the same slice).
func sameLength(a, b ssa.Value) bool {
	if a == b {
		return true
	}
	x, ok1 := lenOf(a)
	y, ok2 := lenOf(b)
	if ok1 && ok2 && sameLenBase(x, y) {
		return true
	}
	// len(s) of a slice that was made with length L is L
	madeWith := func(s ssa.Value, l ssa.Value) bool {
		ins, ok := s.(ssa.Instruction)
		if !ok || ins.Parent() == nil {
			return false
		}
		lens := madeWithLen(ins.Parent(), s)
		if len(lens) == 0 {
			return false
		}
		for _, m := range lens {
			if m != l {
				return false
			}
		}
		return true
	}
	if ok1 && !ok2 && madeWith(x, b) {
		return true
	}
	if ok2 && !ok1 && madeWith(y, a) {
		return true
	}
	return false
}

// condLen2 decodes a branch condition into what it says about len(X) when it is
// true and when it is false. Besides condLen's comparisons it knows
// strings.HasPrefix / HasSuffix / bytes.HasPrefix with a constant: true gives
// len(X) >= len(constant), false gives nothing.
func condLen2(v ssa.Value) (x ssa.Value, whenTrue, whenFalse lenSet, ok bool) {
	if x, s, ok := condLen(v); ok {
		return x, s, ^s, true
	}
	if u, isU := v.(*ssa.UnOp); isU && u.Op == token.NOT {
		x, t, f, ok := condLen2(u.X)
		return x, f, t, ok
	}
	if call, isCall := v.(*ssa.Call); isCall && !call.Call.IsInvoke() && len(call.Call.Args) == 2 {
		switch calleeName(&call.Call) {
		case "strings.HasPrefix", "strings.HasSuffix":
			if k, isK := call.Call.Args[1].(*ssa.Const); isK && k.Value != nil && k.Value.Kind() == constant.String {
				return call.Call.Args[0], lenGE(int64(len(constant.StringVal(k.Value)))), lenAll, true
			}
		}
	}
	return nil, 0, 0, false
}

// flowFacts: what the branch conditions say about len(base) on entry to blk,
// as a forward dataflow over the CFG (union at joins), so that a block reached
// from either arm of `a || b` keeps what both arms give. base is an SSA value
// (or a load that sameLenBase identifies), so its length does not change.
func flowFacts(blk *ssa.BasicBlock, base ssa.Value) lenSet {
	fn := blk.Parent()
	in := make([]lenSet, len(fn.Blocks))
	in[0] = lenAll
	for changed := true; changed; {
		changed = false
		for _, b := range fn.Blocks {
			if in[b.Index] == 0 {
				continue
			}
			var t, f lenSet = lenAll, lenAll
			two := false
			if ifi, ok := b.Instrs[len(b.Instrs)-1].(*ssa.If); ok && len(b.Succs) == 2 && b.Succs[0] != b.Succs[1] {
				if x, wt, wf, ok := condLen2(ifi.Cond); ok && sameLenBase(x, base) {
					t, f, two = wt, wf, true
				}
			}
			for si, s := range b.Succs {
				out := in[b.Index]
				if two {
					if si == 0 {
						out &= t
					} else {
						out &= f
					}
				}
				if nv := in[s.Index] | out; nv != in[s.Index] {
					in[s.Index] = nv
					changed = true
				}
			}
		}
	}
	if in[blk.Index] == 0 {
		return lenAll // unreachable by this approximation: claim nothing
	}
	return in[blk.Index]
}
