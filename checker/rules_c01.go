package main

import (
	"fmt"
	"go/token"
	"sort"
	"strings"

	"golang.org/x/tools/go/ssa"
)

// C01 — narrow structural clauses of the context-passing semantics. The value
// every operator computes is not decided here; what is decided is the plumbing
// the statement names: `|` composes, `,` concatenates left then right, binary
// operators pair left-major, every operator the front end can produce is
// dispatched, result streams are built front to back, and the scope of one
// evaluation does not leak into a sibling.

func init() {
	register("C01", "Decides only the plumbing clauses of the context-passing semantics, from the shape of the code: (N1) pipeOperator evaluates the right side on the left side's results in a context derived from its own, and returns the right side's results; (N2) unionOperator evaluates both sides in its own context and emits the left results before the right results; (N3) doCrossFunc / resultsForRHS iterate the left results in the outer loop and the right results in the inner loop, front to back, and call the calculation with (left, right) in that order, appending at the back; (N4) every operation type the lexer emits or post-processing inserts has a handler in the operator table; (N5) no result list is built or walked back to front outside the two update operators that do so deliberately (no PushFront / InsertBefore / Move*, Back()/Prev() only there); (N6) the Context returned by one evaluation is not the context of another (scoping); (N7) list-mutating calls act only on lists the function created or received as out-parameters, never on the MatchingNodes of its context or of an evaluation result; (N8) only path traversal and string == call the glob key matcher. (N11) traversePathOperator hands on every node the traversal returns. Does NOT decide what any operator computes, nor when an error is due: those clauses quantify over runtime values.", runC01)
}

func runC01(c *Ctx) {
	r := c.R
	r.Rule("N1", "`|` composes: right side runs on the left side's results, its results are the pipe's results", 2)
	r.Rule("N2", "`,` concatenates: both sides in the operator's context, left results first", 3)
	r.Rule("N3", "binary operators pair left-major, front to back, calculation(left, right)", 5)
	r.Rule("N4", "every operation type the front end can produce has a handler", 100)
	r.Rule("N5", "result streams are built and walked front to back", 1)
	c.P.buildSSA()
	checkN1(c, "N1")
	checkN2(c)
	checkN3(c)
	checkN4(c)
	checkN5(c)
	ruleS6(c, "N6")
	checkN7(c)
	checkN8(c)
	checkN10(c)
	r.Rule("N9", "`,` hands on every result of both operands", 2)
	ruleNoFilter(c, "N9", "unionOperator", map[string]bool{"PushBack": true}, nil, "a result of one operand of `,` is dropped because of what it is (its key, its parent …): `a, b` is no longer the results of a followed by the results of b")
	ruleN11(c, "N11")
}

// checkN7: an operator appends to and removes from lists it made itself (or
// was handed as an out-parameter). The list inside a Context it received, or
// inside the Context an evaluation returned, belongs to someone else: `.` and
// `$x` return the caller's own list, so growing it changes what the enclosing
// operator iterates.
func checkN7(c *Ctx) {
	r := c.R
	r.Rule("N7", "operators mutate only node lists they created or were handed as out-parameters", 100)
	mutators := map[string]bool{"PushBack": true, "PushFront": true, "PushBackList": true, "PushFrontList": true, "Remove": true, "InsertAfter": true, "InsertBefore": true, "Init": true, "MoveToBack": true, "MoveToFront": true}
	for _, fn := range c.moduleFuncs() {
		if !strings.HasPrefix(funcKey(fn), "yqlib.") {
			continue
		}
		seen := map[string]int{}
		eachInstr(fn, func(ins ssa.Instruction) {
			call, ok := ins.(*ssa.Call)
			if !ok || call.Call.StaticCallee() == nil {
				return
			}
			callee := call.Call.StaticCallee()
			if !mutators[callee.Name()] || !strings.HasPrefix(calleeName(&call.Call), "(*container/list.List).") {
				return
			}
			key := fmt.Sprintf("%s/%s(%s)", funcKey(fn), callee.Name(), exprOfValue(call.Call.Args[0]))
			seen[key]++
			if seen[key] > 1 {
				key = fmt.Sprintf("%s#%d", key, seen[key])
			}
			owner, why := listOwner(fn, call.Call.Args[0], 0, map[ssa.Value]bool{})
			switch owner {
			case "own", "out-param":
				r.Discharge("N7", key, c.P.pos(call.Pos()), why)
			case "foreign":
				r.Finding("N7", key, c.P.pos(call.Pos()), "the list changed here is "+why+": it is not this operator's to change — `.` and `$x` hand back the caller's own list, so the enclosing operator sees nodes appear in (or vanish from) the stream it is iterating")
			default:
				r.Discharge("N7", key, c.P.pos(call.Pos()), "list of unknown origin ("+why+"): not a Context's MatchingNodes")
			}
		})
	}
}

// listOwner classifies a *list.List value: "own" (list.New() here, or the
// MatchingNodes of a Context built here around such a list), "out-param" (a
// *list.List parameter), "foreign" (MatchingNodes of the context parameter or
// of an evaluation result), "" unknown.
func listOwner(fn *ssa.Function, v ssa.Value, d int, seen map[ssa.Value]bool) (string, string) {
	if d > 8 || seen[v] {
		return "", "cyclic"
	}
	seen[v] = true
	switch x := v.(type) {
	case *ssa.Call:
		if calleeName(&x.Call) == "container/list.New" {
			return "own", "created with list.New() in this function"
		}
		if x.Call.StaticCallee() != nil {
			return "own", "returned by " + x.Call.StaticCallee().Name() + "()"
		}
	case *ssa.Parameter:
		return "out-param", "list parameter " + x.Name()
	case *ssa.FreeVar:
		return "out-param", "captured list " + x.Name()
	case *ssa.Phi:
		worst, why := "own", "every incoming value is this function's own list"
		for _, e := range x.Edges {
			o, w := listOwner(fn, e, d+1, seen)
			if o == "foreign" {
				return o, w
			}
			if o != "own" {
				worst, why = o, w
			}
		}
		return worst, why
	case *ssa.UnOp:
		// load of a field MatchingNodes, or of a local
		if fa, ok := x.X.(*ssa.FieldAddr); ok {
			if fieldName(fa) == "MatchingNodes" {
				return contextOwner(fn, fa.X, d+1, seen)
			}
			return "", "field " + fieldName(fa)
		}
		if al, ok := x.X.(*ssa.Alloc); ok && al.Referrers() != nil {
			worst, why := "own", "local list"
			for _, ref := range *al.Referrers() {
				if st, ok := ref.(*ssa.Store); ok && st.Addr == al {
					o, w := listOwner(fn, st.Val, d+1, seen)
					if o == "foreign" {
						return o, w
					}
					if o != "own" {
						worst, why = o, w
					}
				}
			}
			return worst, why
		}
	case *ssa.Field:
		if fieldNameOfField(x) == "MatchingNodes" {
			return contextOwner(fn, x.X, d+1, seen)
		}
	}
	return "", exprOfValue(v)
}

// contextOwner: whose Context is v (a Context value or the address of one)?
func contextOwner(fn *ssa.Function, v ssa.Value, d int, seen map[ssa.Value]bool) (string, string) {
	if d > 8 {
		return "", "deep"
	}
	switch x := v.(type) {
	case *ssa.Parameter:
		if namedTypeName(x.Type()) == "Context" {
			// the context of an evaluation: the function also takes the navigator
			for _, p := range fn.Params {
				if structNameOfPtr(p.Type()) == "dataTreeNavigator" {
					return "foreign", "the MatchingNodes of the context this operator was given"
				}
			}
			return "out-param", "a Context passed in as an accumulator (no navigator parameter: not an evaluation)"
		}
	case *ssa.Extract:
		if call, ok := x.Tuple.(*ssa.Call); ok && isGetMatching(call) {
			return "foreign", "the MatchingNodes of the Context returned by evaluating " + exprOfValue(call.Call.Args[2])
		}
		if call, ok := x.Tuple.(*ssa.Call); ok && call.Call.StaticCallee() != nil {
			return "", "result of " + call.Call.StaticCallee().Name()
		}
	case *ssa.Call:
		if callee := x.Call.StaticCallee(); callee != nil {
			switch callee.Name() {
			case "ChildContext", "SingleChildContext", "SingleReadonlyChildContext":
				if len(x.Call.Args) == 2 && callee.Name() == "ChildContext" {
					return listOwner(fn, x.Call.Args[1], d+1, seen)
				}
				return "own", "a context built here by " + callee.Name()
			case "Clone", "ReadOnlyClone", "WritableClone":
				return contextOwner(fn, x.Call.Args[0], d+1, seen)
			}
		}
	case *ssa.UnOp:
		return contextOwner(fn, x.X, d+1, seen)
	case *ssa.Alloc:
		// a local Context variable: everything stored into it
		if x.Referrers() != nil {
			worst, why := "own", "a local context"
			n := 0
			for _, ref := range *x.Referrers() {
				if st, ok := ref.(*ssa.Store); ok && st.Addr == x {
					n++
					o, w := contextOwner(fn, st.Val, d+1, seen)
					if o == "foreign" {
						return o, w
					}
					if o != "own" {
						worst, why = o, w
					}
				}
			}
			if n > 0 {
				return worst, why
			}
		}
	case *ssa.Phi:
		for _, e := range x.Edges {
			if o, w := contextOwner(fn, e, d+1, seen); o == "foreign" {
				return o, w
			}
		}
	}
	return "", exprOfValue(v)
}

// checkN8: matching a key against a pattern (`*`, `?`) is what path traversal
// and `==` on strings do, and nothing else: every other operator compares keys
// for equality.
var n8Allowed = map[string]string{
	"yqlib.keyMatches":    "the traversal helper itself",
	"yqlib.matchKey":      "the matcher's entry point",
	"yqlib.deepMatch":     "the matcher",
	"yqlib.doTraverseMap": "path traversal: `.a*` selects by pattern",
	"yqlib.isEquals$1":    "`==` on strings supports patterns on its right-hand side (documented)",
}

func checkN8(c *Ctx) {
	r := c.R
	r.Rule("N8", "only path traversal and string `==` match keys by pattern", 3)
	n := 0
	for _, fn := range c.moduleFuncs() {
		eachInstr(fn, func(ins ssa.Instruction) {
			call, ok := ins.(*ssa.Call)
			if !ok || call.Call.StaticCallee() == nil {
				return
			}
			switch call.Call.StaticCallee().Name() {
			case "keyMatches", "matchKey", "deepMatch":
			default:
				return
			}
			if !strings.HasPrefix(funcKey(call.Call.StaticCallee()), "yqlib.") {
				return
			}
			n++
			key := fmt.Sprintf("%s/calls(%s)", funcKey(fn), call.Call.StaticCallee().Name())
			if why, ok := n8Allowed[funcKey(fn)]; ok {
				r.Discharge("N8", key, c.P.pos(call.Pos()), why)
			} else {
				r.Finding("N8", key, c.P.pos(call.Pos()), funcKey(fn)+" matches a key with the glob matcher of path traversal: a key or argument containing `*` or `?` now matches keys it is not equal to")
			}
		})
	}
	if n == 0 {
		r.Fatal("anchor moved: no call of keyMatches / matchKey / deepMatch found")
	}
}

// evalCalls: the GetMatchingNodes calls of fn in source order, with the
// expression operand's source text ("expressionNode.LHS" …).
type evalCall struct {
	call *ssa.Call
	exp  string
}

func evalCalls(fn *ssa.Function) []evalCall {
	var out []evalCall
	eachInstr(fn, func(ins ssa.Instruction) {
		if call, ok := ins.(*ssa.Call); ok && isGetMatching(call) {
			out = append(out, evalCall{call, exprOfValue(call.Call.Args[2])})
		}
	})
	sort.SliceStable(out, func(i, j int) bool { return out[i].call.Pos() < out[j].call.Pos() })
	return out
}

// evalRef: an evaluation (GetMatchingNodes call) belonging to operator `root`:
// made in root itself (via == nil) or in a module helper that root calls
// directly (via = that call), whose parameters stand for root's arguments.
type evalRef struct {
	call   *ssa.Call
	holder *ssa.Function
	via    *ssa.Call
	side   string // "LHS" / "RHS" / ""
}

// operatorEvals: the evaluations of root, direct and one helper level deep.
func operatorEvals(root *ssa.Function) []evalRef {
	var out []evalRef
	sideOf := func(text string) string {
		switch {
		case strings.HasSuffix(text, ".LHS"):
			return "LHS"
		case strings.HasSuffix(text, ".RHS"):
			return "RHS"
		}
		return ""
	}
	for _, e := range evalCalls(root) {
		out = append(out, evalRef{e.call, root, nil, sideOf(e.exp)})
	}
	eachInstr(root, func(ins ssa.Instruction) {
		via, ok := ins.(*ssa.Call)
		if !ok || isGetMatching(via) {
			return
		}
		h := via.Call.StaticCallee()
		if h == nil || h.Blocks == nil || h == root || !strings.HasPrefix(funcKey(h), "yqlib.") {
			return
		}
		for _, e := range evalCalls(h) {
			text := e.exp
			// the expression operand may be a parameter of the helper: what root passes for it
			if p, isP := e.call.Call.Args[2].(*ssa.Parameter); isP {
				if a := argOf(&via.Call, h, p); a != nil {
					text = exprOfValue(a)
				}
			}
			out = append(out, evalRef{e.call, h, via, sideOf(text)})
		}
	})
	return out
}

// ownContextAt: v, a value inside e.holder, is root's own context (for a helper:
// the helper's Context parameter for which root passes its own context).
func ownContextAt(root *ssa.Function, e evalRef, v ssa.Value) bool {
	if e.via == nil {
		return isOwnContext(root, v)
	}
	if al, ok := v.(*ssa.Alloc); ok {
		v = &ssa.UnOp{X: al}
	}
	var p *ssa.Parameter
	switch x := v.(type) {
	case *ssa.Parameter:
		p = x
	case *ssa.UnOp:
		if al, ok := x.X.(*ssa.Alloc); ok && al.Referrers() != nil {
			for _, ref := range *al.Referrers() {
				if st, ok := ref.(*ssa.Store); ok && st.Addr == al {
					if pp, ok := st.Val.(*ssa.Parameter); ok {
						p = pp
					}
				}
			}
		}
	}
	if p == nil {
		return false
	}
	a := argOf(&e.via.Call, e.holder, p)
	return a != nil && isOwnContext(root, a)
}

// nodesOfEvalInRoot: v, a value in root, is the MatchingNodes of the result of
// evaluation e — directly, or through the helper's result: Extract(via, k) where
// every successful return of the helper yields at k the Context of e (then
// .MatchingNodes is read in root) or its MatchingNodes.
func nodesOfEvalInRoot(v ssa.Value, e evalRef) bool {
	if e.via == nil {
		return matchingNodesOf(v, e.call)
	}
	helperYields := func(k int, wantNodes bool) bool {
		n := 0
		for _, b := range e.holder.Blocks {
			ret, ok := b.Instrs[len(b.Instrs)-1].(*ssa.Return)
			if !ok || k >= len(ret.Results) {
				continue
			}
			// error exits: last result non-nil constant / zero Context: skip returns whose error result is not a nil constant
			if last := ret.Results[len(ret.Results)-1]; isErrorType(last.Type()) {
				if c, isC := last.(*ssa.Const); !isC || !c.IsNil() {
					continue
				}
			}
			n++
			rv := ret.Results[k]
			// a result kept in a local: what was stored into it
			if u, ok := rv.(*ssa.UnOp); ok {
				if al, ok := u.X.(*ssa.Alloc); ok && al.Referrers() != nil {
					var stored []ssa.Value
					for _, ref := range *al.Referrers() {
						if st, ok := ref.(*ssa.Store); ok && st.Addr == al {
							stored = append(stored, st.Val)
						}
					}
					if len(stored) == 1 {
						rv = stored[0]
					}
				}
			}
			if wantNodes {
				if !matchingNodesOf(rv, e.call) {
					return false
				}
			} else {
				ex, ok := rv.(*ssa.Extract)
				if !ok || ex.Tuple != ssa.Value(e.call) || ex.Index != 0 {
					return false
				}
			}
		}
		return n > 0
	}
	switch x := v.(type) {
	case *ssa.Extract:
		return x.Tuple == ssa.Value(e.via) && helperYields(x.Index, true)
	case *ssa.Field:
		if fieldNameOfField(x) == "MatchingNodes" {
			if ex, ok := x.X.(*ssa.Extract); ok && ex.Tuple == ssa.Value(e.via) {
				return helperYields(ex.Index, false)
			}
		}
	case *ssa.UnOp:
		if fa, ok := x.X.(*ssa.FieldAddr); ok && fieldName(fa) == "MatchingNodes" {
			if al, ok := fa.X.(*ssa.Alloc); ok && al.Referrers() != nil {
				for _, ref := range *al.Referrers() {
					if st, ok := ref.(*ssa.Store); ok && st.Addr == al {
						if ex, ok := st.Val.(*ssa.Extract); ok && ex.Tuple == ssa.Value(e.via) {
							return helperYields(ex.Index, false)
						}
					}
				}
			}
		}
	}
	return false
}

// matchingNodesOf: v is the MatchingNodes field of the Context result of call.
func matchingNodesOf(v ssa.Value, call *ssa.Call) bool {
	switch x := v.(type) {
	case *ssa.Field:
		if fieldNameOfField(x) != "MatchingNodes" {
			return false
		}
		if ex, ok := x.X.(*ssa.Extract); ok {
			return ex.Tuple == ssa.Value(call) && ex.Index == 0
		}
	case *ssa.UnOp:
		if fa, ok := x.X.(*ssa.FieldAddr); ok && fieldName(fa) == "MatchingNodes" {
			// &local.MatchingNodes where local holds the result
			if al, ok := fa.X.(*ssa.Alloc); ok && al.Referrers() != nil {
				for _, ref := range *al.Referrers() {
					if st, ok := ref.(*ssa.Store); ok && st.Addr == al {
						if ex, ok := st.Val.(*ssa.Extract); ok && ex.Tuple == ssa.Value(call) && ex.Index == 0 {
							return true
						}
					}
				}
			}
		}
	}
	return false
}

// childContextOf: v = <ctx>.ChildContext(list) / SingleChildContext…; returns receiver and list operand.
func childContextOf(v ssa.Value) (recv, list ssa.Value, ok bool) {
	call, isCall := v.(*ssa.Call)
	if !isCall || call.Call.StaticCallee() == nil || call.Call.StaticCallee().Name() != "ChildContext" || len(call.Call.Args) != 2 {
		return nil, nil, false
	}
	return call.Call.Args[0], call.Call.Args[1], true
}

// isOwnContext: v is the handler's context parameter (by value or spilled).
func isOwnContext(fn *ssa.Function, v ssa.Value) bool {
	if len(fn.Params) < 2 {
		return false
	}
	p := fn.Params[1]
	if v == ssa.Value(p) {
		return true
	}
	if al, ok := v.(*ssa.Alloc); ok {
		v = &ssa.UnOp{X: al}
	}
	if u, ok := v.(*ssa.UnOp); ok {
		if al, ok := u.X.(*ssa.Alloc); ok && al.Referrers() != nil {
			n, fromParam := 0, false
			for _, ref := range *al.Referrers() {
				if st, ok := ref.(*ssa.Store); ok && st.Addr == al {
					n++
					if st.Val == ssa.Value(p) {
						fromParam = true
					}
				}
			}
			return n == 1 && fromParam
		}
	}
	return false
}

func checkN1(c *Ctx, rule string) {
	r := c.R
	fn := c.libFunc("pipeOperator")
	if fn == nil {
		r.Fatal("anchor missing: pipeOperator")
		return
	}
	var lhs, rhs *evalRef
	for _, e := range operatorEvals(fn) {
		e := e
		switch e.side {
		case "LHS":
			lhs = &e
		case "RHS":
			rhs = &e
		}
	}
	if lhs == nil || rhs == nil || lhs.holder != rhs.holder {
		r.Fatal("anchor moved: pipeOperator does not evaluate expressionNode.LHS and expressionNode.RHS (itself or in one helper)")
		return
	}
	// (a) the right side's context
	key := "pipeOperator/right-side-context"
	recv, list, ok := childContextOf(rhs.call.Call.Args[1])
	switch {
	case !ok:
		r.Finding(rule, key, c.P.pos(rhs.call.Pos()), "the right side of `|` is not evaluated in context.ChildContext(<left results>): either it does not see the left side's results or it inherits the left side's scope")
	case !ownContextAt(fn, *rhs, recv):
		r.Finding(rule, key, c.P.pos(rhs.call.Pos()), "the context of the right side of `|` is derived from "+exprOfValue(recv)+", not from the operator's own context")
	case !matchingNodesOf(list, lhs.call):
		r.Finding(rule, key, c.P.pos(rhs.call.Pos()), "the right side of `|` does not run on the left side's results ("+exprOfValue(list)+")")
	default:
		r.Discharge(rule, key, c.P.pos(rhs.call.Pos()), "context.ChildContext(lhs.MatchingNodes)")
	}
	// (b) what the pipe returns after evaluating the right side
	key = "pipeOperator/result"
	okRet, n := true, 0
	after := rhs.call.Block()
	if rhs.via != nil {
		after = rhs.via.Block()
	}
	for _, b := range fn.Blocks {
		ret, isRet := b.Instrs[len(b.Instrs)-1].(*ssa.Return)
		if !isRet || !after.Dominates(b) || len(ret.Results) != 2 {
			continue
		}
		if k, isK := ret.Results[1].(*ssa.Const); !isK || !k.IsNil() {
			continue // error exit
		}
		n++
		recvR, l, isChild := childContextOf(ret.Results[0])
		if !(isChild && nodesOfEvalInRoot(l, *rhs) && isOwnContext(fn, recvR)) {
			okRet = false
		}
	}
	if n > 0 && okRet {
		r.Discharge(rule, key, c.P.pos(fn.Pos()), "the pipe returns its own context with the right side's results: context.ChildContext(rhs.MatchingNodes)")
	} else {
		r.Finding(rule, key, c.P.pos(fn.Pos()), "a successful exit of pipeOperator after the right side does not return context.ChildContext(rhs.MatchingNodes): either other results, or the right side's own Context (its variables, its writable flag) escapes into the enclosing expression")
	}
}

// pushLoops: loops `for el := L.Front(); el != nil; el = el.Next() { dst.PushBack(el.Value…) }`
// in fn: returns for each the list L iterated (value) and the position.
type listLoop struct {
	list    ssa.Value // operand of Front()
	front   *ssa.Call
	forward bool
}

func listLoops(fn *ssa.Function) []listLoop {
	var out []listLoop
	eachInstr(fn, func(ins ssa.Instruction) {
		call, ok := ins.(*ssa.Call)
		if !ok {
			return
		}
		name := calleeName(&call.Call)
		if name == "(*container/list.List).PushBackList" && len(call.Call.Args) == 2 {
			// dst.PushBackList(L): L's elements appended front to back
			out = append(out, listLoop{call.Call.Args[1], call, true})
			return
		}
		if name != "(*container/list.List).Front" && name != "(*container/list.List).Back" {
			return
		}
		// a loop if the element flows into a phi that is also fed by Next()/Prev()
		if call.Referrers() == nil {
			return
		}
		for _, ref := range *call.Referrers() {
			phi, ok := ref.(*ssa.Phi)
			if !ok {
				continue
			}
			for _, e := range phi.Edges {
				if c2, ok := e.(*ssa.Call); ok {
					n2 := calleeName(&c2.Call)
					if n2 == "(*container/list.Element).Next" || n2 == "(*container/list.Element).Prev" {
						out = append(out, listLoop{call.Call.Args[0], call, name == "(*container/list.List).Front" && n2 == "(*container/list.Element).Next"})
					}
				}
			}
		}
	})
	return out
}

func checkN2(c *Ctx) {
	r := c.R
	fn := c.libFunc("unionOperator")
	if fn == nil {
		r.Fatal("anchor missing: unionOperator")
		return
	}
	var lhs, rhs *evalRef
	for _, e := range operatorEvals(fn) {
		e := e
		switch e.side {
		case "LHS":
			lhs = &e
		case "RHS":
			rhs = &e
		}
	}
	if lhs == nil || rhs == nil {
		r.Fatal("anchor moved: unionOperator does not evaluate expressionNode.LHS and expressionNode.RHS (itself or in a helper)")
		return
	}
	for _, side := range []struct {
		name string
		e    *evalRef
	}{{"left", lhs}, {"right", rhs}} {
		key := "unionOperator/" + side.name + "-context"
		if ownContextAt(fn, *side.e, side.e.call.Call.Args[1]) {
			r.Discharge("N2", key, c.P.pos(side.e.call.Pos()), "evaluated in the operator's own context")
		} else {
			r.Finding("N2", key, c.P.pos(side.e.call.Pos()), "the "+side.name+" operand of `,` is evaluated in "+exprOfValue(side.e.call.Call.Args[1])+", not in the operator's context: `a, b` is no longer the results of a followed by the results of b on the same input")
		}
	}
	var lLoop, rLoop *listLoop
	for _, l := range listLoops(fn) {
		l := l
		if nodesOfEvalInRoot(l.list, *lhs) {
			lLoop = &l
		}
		if nodesOfEvalInRoot(l.list, *rhs) {
			rLoop = &l
		}
	}
	key := "unionOperator/order"
	switch {
	case lLoop == nil || rLoop == nil:
		r.Undecided("N2", key, c.P.pos(fn.Pos()), "unionOperator's result list is not built by loops over (or PushBackList of) lhs.MatchingNodes and rhs.MatchingNodes: shape not recognised")
	case !lLoop.forward || !rLoop.forward:
		r.Finding("N2", key, c.P.pos(fn.Pos()), "an operand's results are walked back to front: the order of `a, b` is not that of a followed by that of b")
	case !lLoop.front.Block().Dominates(rLoop.front.Block()) || lLoop.front.Pos() > rLoop.front.Pos():
		r.Finding("N2", key, c.P.pos(rLoop.front.Pos()), "the right results are appended before the left results")
	default:
		r.Discharge("N2", key, c.P.pos(lLoop.front.Pos()), "left results are appended (front to back) before right results")
	}
}

func checkN3(c *Ctx) {
	r := c.R
	dcf := c.libFunc("doCrossFunc")
	rfr := c.libFunc("resultsForRHS")
	if dcf == nil || rfr == nil {
		r.Fatal("anchor missing: doCrossFunc / resultsForRHS")
		return
	}
	// outer loop: over the left results, forward, calling resultsForRHS with the element
	var lhs *ssa.Call
	for _, e := range evalCalls(dcf) {
		if strings.HasSuffix(e.exp, ".LHS") {
			lhs = e.call
		}
	}
	if lhs == nil {
		r.Fatal("anchor moved: doCrossFunc does not evaluate expressionNode.LHS")
		return
	}
	var outer *listLoop
	for _, l := range listLoops(dcf) {
		l := l
		if matchingNodesOf(l.list, lhs) {
			outer = &l
		}
	}
	key := "doCrossFunc/outer-loop"
	switch {
	case outer == nil:
		r.Undecided("N3", key, c.P.pos(dcf.Pos()), "doCrossFunc has no recognisable loop over the left operand's results")
	case !outer.forward:
		r.Finding("N3", key, c.P.pos(outer.front.Pos()), "the left operand's results are walked back to front")
	default:
		r.Discharge("N3", key, c.P.pos(outer.front.Pos()), "outer loop: left results, front to back")
	}
	// the call of resultsForRHS inside that loop passes the loop element as lhsCandidate and the RHS expression
	key = "doCrossFunc/per-left-result"
	okCall := false
	eachInstr(dcf, func(ins ssa.Instruction) {
		call, ok := ins.(*ssa.Call)
		if !ok || call.Call.StaticCallee() != rfr || len(call.Call.Args) < 5 {
			return
		}
		if ta, ok := call.Call.Args[2].(*ssa.TypeAssert); ok && strings.HasSuffix(exprOfValue(call.Call.Args[4]), ".RHS") {
			_ = ta
			okCall = true
		}
	})
	if okCall {
		r.Discharge("N3", key, c.P.pos(dcf.Pos()), "resultsForRHS(left element, expressionNode.RHS) per left result")
	} else {
		r.Undecided("N3", key, c.P.pos(dcf.Pos()), "doCrossFunc does not call resultsForRHS with the left element and expressionNode.RHS: shape not recognised")
	}
	// inner loop in resultsForRHS
	var rhs *ssa.Call
	for _, e := range evalCalls(rfr) {
		rhs = e.call
	}
	if rhs == nil {
		r.Fatal("anchor moved: resultsForRHS does not evaluate the right expression")
		return
	}
	var inner *listLoop
	for _, l := range listLoops(rfr) {
		l := l
		if matchingNodesOf(l.list, rhs) {
			inner = &l
		}
	}
	key = "resultsForRHS/inner-loop"
	switch {
	case inner == nil:
		r.Undecided("N3", key, c.P.pos(rfr.Pos()), "resultsForRHS has no recognisable loop over the right operand's results")
	case !inner.forward:
		r.Finding("N3", key, c.P.pos(inner.front.Pos()), "the right operand's results are walked back to front")
	default:
		r.Discharge("N3", key, c.P.pos(inner.front.Pos()), "inner loop: right results, front to back")
	}
	// calculation(d, context, lhsCandidate, rhsCandidate): argument order. The call
	// may sit in resultsForRHS or in a helper it calls; a helper's parameters are
	// resolved to what resultsForRHS passes for them.
	key = "resultsForRHS/calculation-arguments"
	lhsParam := rfr.Params[2]
	nCalc, badCalc := 0, ""
	isCalcCall := func(call *ssa.Call) bool {
		if call.Call.StaticCallee() != nil || call.Call.IsInvoke() || len(call.Call.Args) != 4 {
			return false
		}
		return namedTypeName(call.Call.Value.Type()) == "crossFunctionCalculation" || strings.Contains(exprOfValue(call.Call.Value), "Calculation")
	}
	checkArgs := func(pos token.Pos, lhsArgs, rhsArgs []ssa.Value) {
		nCalc++
		for _, a := range lhsArgs {
			if a != ssa.Value(lhsParam) {
				badCalc = c.P.pos(pos)
			}
		}
		for _, a := range rhsArgs {
			if k, isNil := a.(*ssa.Const); isNil && k.IsNil() {
				continue // the CalcWhenEmpty call
			}
			if _, isTA := a.(*ssa.TypeAssert); !isTA {
				badCalc = c.P.pos(pos)
			}
		}
	}
	eachInstr(rfr, func(ins ssa.Instruction) {
		call, ok := ins.(*ssa.Call)
		if !ok {
			return
		}
		if isCalcCall(call) {
			checkArgs(call.Pos(), []ssa.Value{call.Call.Args[2]}, []ssa.Value{call.Call.Args[3]})
			return
		}
		// a module helper called from here that makes the calculation call
		h := call.Call.StaticCallee()
		if h == nil || h.Blocks == nil || !strings.HasPrefix(funcKey(h), "yqlib.") {
			return
		}
		eachInstr(h, func(i2 ssa.Instruction) {
			c2, ok := i2.(*ssa.Call)
			if !ok || !isCalcCall(c2) {
				return
			}
			resolve := func(v ssa.Value) ssa.Value {
				if p, ok := v.(*ssa.Parameter); ok {
					if a := argOf(&call.Call, h, p); a != nil {
						return a
					}
				}
				return v
			}
			checkArgs(call.Pos(), []ssa.Value{resolve(c2.Call.Args[2])}, []ssa.Value{resolve(c2.Call.Args[3])})
		})
	})
	switch {
	case nCalc < 2:
		r.Undecided("N3", key, c.P.pos(rfr.Pos()), "fewer than two calculation calls found in resultsForRHS and the helpers it calls: shape not recognised")
	case badCalc == "":
		r.Discharge("N3", key, c.P.pos(rfr.Pos()), "Calculation(d, context, left candidate, right element) at every call")
	default:
		r.Finding("N3", key, badCalc, "the calculation is not called with (left candidate, right element) in that order")
	}
	// results are appended at the back
	key = "resultsForRHS/append"
	front := ""
	scan := func(f *ssa.Function) {
		eachInstr(f, func(ins ssa.Instruction) {
			if call, ok := ins.(*ssa.Call); ok {
				if n := calleeName(&call.Call); n == "(*container/list.List).PushFront" || n == "(*container/list.List).InsertBefore" {
					front = c.P.pos(call.Pos())
				}
			}
		})
	}
	scan(rfr)
	eachInstr(rfr, func(ins ssa.Instruction) {
		if call, ok := ins.(*ssa.Call); ok {
			if h := call.Call.StaticCallee(); h != nil && h.Blocks != nil && strings.HasPrefix(funcKey(h), "yqlib.") {
				scan(h)
			}
		}
	})
	if front == "" {
		r.Discharge("N3", key, c.P.pos(rfr.Pos()), "results are appended with PushBack")
	} else {
		r.Finding("N3", key, front, "a result is inserted at the front of the result list: the pairing is no longer emitted left-major")
	}
}

func firstNonEmpty(a, b string) string {
	if a != "" {
		return a
	}
	return b
}

func checkN4(c *Ctx) {
	r := c.R
	if !c.tables() {
		return
	}
	seen := map[*OpType]string{}
	for _, lr := range c.Lex.Rules {
		for _, t := range lr.Tokens {
			for _, o := range append(append([]*OpType{}, t.Ops...), t.AssignOps...) {
				if _, ok := seen[o]; !ok {
					seen[o] = fmt.Sprintf("lexer rule %q", lr.Pattern)
				}
			}
		}
	}
	for o := range implicitOps(c) {
		if _, ok := seen[o]; !ok {
			seen[o] = "token post-processing"
		}
	}
	var ops []*OpType
	for o := range seen {
		ops = append(ops, o)
	}
	sort.Slice(ops, func(i, j int) bool { return ops[i].VarName < ops[j].VarName })
	for _, o := range ops {
		key := o.Type + "(" + o.VarName + ")"
		if o.Handler != nil {
			r.Discharge("N4", key, c.P.pos(o.Pos), "handler "+o.Handler.Name()+" ("+seen[o]+")")
		} else {
			r.Finding("N4", key, c.P.pos(o.Pos), "the front end can produce this operation ("+seen[o]+") but its operationType record has no Handler: every expression using it fails with `Unknown operator`")
		}
	}
}

// n5Accepted: the two update operators that walk their targets back to front on purpose.
var n5Accepted = map[string]string{
	"yqlib.assignUpdateOperator": "relative update walks the matches back to front so that updates of earlier matches do not disturb later ones (outside the core fragment)",
	"yqlib.deleteChildOperator":  "delete walks the victims back to front so that positions stay valid (outside the core fragment)",
}

func checkN5(c *Ctx) {
	r := c.R
	n := 0
	for _, fn := range c.moduleFuncs() {
		if !strings.HasPrefix(funcKey(fn), "yqlib.") {
			continue
		}
		bad := ""
		eachInstr(fn, func(ins ssa.Instruction) {
			call, ok := ins.(*ssa.Call)
			if !ok {
				return
			}
			switch calleeName(&call.Call) {
			case "(*container/list.List).PushFront", "(*container/list.List).InsertBefore", "(*container/list.List).MoveToFront",
				"(*container/list.List).MoveBefore", "(*container/list.List).MoveAfter", "(*container/list.List).MoveToBack", "(*container/list.List).PushFrontList",
				"(*container/list.List).Back", "(*container/list.Element).Prev":
				bad = c.P.pos(call.Pos())
			}
		})
		if bad == "" {
			continue
		}
		n++
		key := funcKey(fn) + "/list-direction"
		if why, ok := n5Accepted[funcKey(fn)]; ok {
			r.Discharge("N5", key, bad, "accepted: "+why)
		} else {
			r.Finding("N5", key, bad, "a node list is built or walked back to front here: the order of the result stream is no longer the order the semantics defines")
		}
	}
	r.Discharge("N5", "module/front-to-back", "-", fmt.Sprintf("no other PushFront / InsertBefore / Move* / Back() / Prev() on a list in pkg/yqlib (%d accepted functions)", n))
}

// checkN10: a variable is bound on a context the operator derived itself
// (ChildContext / Clone copy the variable table), never on the context it was
// given: Context is passed by value but its Variables map is shared, so a
// binding made on the received context is visible to the caller after the
// scope of `… as $x | body` has ended.
var n10Accepted = map[string]string{
	"yqlib.decodeOperator": "binds a bookkeeping name (\"decoded: <key>\") that no expression can spell; nothing reads it back through `$`",
}

func checkN10(c *Ctx) {
	r := c.R
	r.Rule("N10", "variables are bound on a derived context, not on the one received", 3)
	n := 0
	for _, fn := range c.moduleFuncs() {
		if !strings.HasPrefix(funcKey(fn), "yqlib.") {
			continue
		}
		eachInstr(fn, func(ins ssa.Instruction) {
			call, ok := ins.(*ssa.Call)
			if !ok || call.Call.StaticCallee() == nil || call.Call.StaticCallee().Name() != "SetVariable" || len(call.Call.Args) == 0 {
				return
			}
			if structNameOfPtr(call.Call.Args[0].Type()) != "Context" {
				return
			}
			n++
			key := fmt.Sprintf("%s/SetVariable(%s)", funcKey(fn), exprOfValue(call.Call.Args[0]))
			owner, why := variablesOwner(fn, call.Call.Args[0], 0)
			switch {
			case owner != "foreign":
				r.Discharge("N10", key, c.P.pos(call.Pos()), "bound on a context this function built or derived")
			case n10Accepted[funcKey(fn)] != "":
				r.Discharge("N10", key, c.P.pos(call.Pos()), "accepted: "+n10Accepted[funcKey(fn)])
			default:
				r.Finding("N10", key, c.P.pos(call.Pos()), "the variable is bound on "+why+": the Variables map is shared with the caller, so the binding outlives its scope (an inner `as $x` overwrites the outer $x for the rest of the expression)")
			}
		})
	}
	if n == 0 {
		r.Fatal("anchor moved: no SetVariable call on a Context found")
	}
}

// variablesOwner: whose Variables map does the Context value (or address) v carry?
// "own": built by ChildContext / SingleChildContext / Clone… in this function (they
// allocate a new map) or a Context literal; "foreign": the context parameter of an
// evaluation, or the Context an evaluation returned (a handler may return the context
// it was given: `.` does).
func variablesOwner(fn *ssa.Function, v ssa.Value, d int) (string, string) {
	if d > 8 {
		return "", "deep"
	}
	switch x := v.(type) {
	case *ssa.Parameter:
		if namedTypeName(x.Type()) == "Context" || structNameOfPtr(x.Type()) == "Context" {
			for _, p := range fn.Params {
				if structNameOfPtr(p.Type()) == "dataTreeNavigator" {
					return "foreign", "the context this operator was given"
				}
			}
			return "out-param", "a Context handed in by a caller that is not an evaluation"
		}
	case *ssa.Extract:
		if call, ok := x.Tuple.(*ssa.Call); ok && isGetMatching(call) {
			return "foreign", "the Context returned by evaluating " + exprOfValue(call.Call.Args[2]) + " (which may be the very context that was passed in)"
		}
	case *ssa.Call:
		if callee := x.Call.StaticCallee(); callee != nil {
			switch callee.Name() {
			case "ChildContext", "SingleChildContext", "SingleReadonlyChildContext", "Clone", "ReadOnlyClone", "WritableClone":
				return "own", "derived by " + callee.Name() + " (new variable table)"
			}
		}
	case *ssa.UnOp:
		return variablesOwner(fn, x.X, d+1)
	case *ssa.Alloc:
		if x.Referrers() != nil {
			worst, why := "own", "a local context"
			n := 0
			for _, ref := range *x.Referrers() {
				if st, ok := ref.(*ssa.Store); ok && st.Addr == ssa.Value(x) {
					n++
					o, w := variablesOwner(fn, st.Val, d+1)
					if o == "foreign" {
						return o, w
					}
					if o != "own" {
						worst, why = o, w
					}
				}
			}
			if n > 0 {
				return worst, why
			}
			return "own", "a Context literal"
		}
	case *ssa.Phi:
		for _, e := range x.Edges {
			if o, w := variablesOwner(fn, e, d+1); o == "foreign" {
				return o, w
			}
		}
		return "own", "every incoming context is derived here"
	}
	return "", exprOfValue(v)
}
