package main

import (
	"fmt"
	"go/constant"
	"go/token"
	"go/types"
	"strings"

	"golang.org/x/tools/go/ssa"
)

// Element filters. A loop that is meant to hand EVERY element of a node list
// on (union's two copy loops, merge's loop over the right operand's
// descendants) may skip an element only for the reasons the pinned tree has.
// A new test on the element itself in front of the action (`if seen[key]
// { continue }`, `if tag == "!!null" { continue }`) silently drops results.

// elemOfCall: the *CandidateNode element value an action call is given (through MakeInterface / directly).
func nodeOperands(call *ssa.Call) []ssa.Value {
	var out []ssa.Value
	for _, a := range call.Call.Args {
		if mi, ok := a.(*ssa.MakeInterface); ok {
			a = mi.X
		}
		if isNodePtr(a.Type()) || isListElementPtr(a.Type()) {
			out = append(out, a)
		}
	}
	return out
}

type elemFilter struct {
	cond  ssa.Value
	taken bool
	text  string
}

// elementFilters: branch conditions that decide whether the action call runs
// for the element (control dependence inside the loop body: one way out of the
// branch always reaches the call, the other can reach the next iteration or an
// exit without it) and that depend on the element itself.
func elementFilters(c *Ctx, call *ssa.Call, elem ssa.Value) []elemFilter {
	var out []elemFilter
	fn := call.Parent()
	header := loopHeaderOf(elem)
	if header == nil {
		dominatingConds(call.Block(), func(cond ssa.Value, taken bool, at *ssa.BasicBlock) {
			if dependsOnValue(cond, elem, 0) || dependsOnElemDeep(cond, elem, 0) {
				out = append(out, elemFilter{cond, taken, describeCond(c, cond)})
			}
		})
		return out
	}
	isAction := func(ins ssa.Instruction) bool { return ins == ssa.Instruction(call) }
	// can control, starting at block s, get to the loop header again or leave the function without the action?
	avoids := func(s *ssa.BasicBlock) bool {
		if pathAvoiding(fn, s, 0, header, 0, isAction) {
			return true
		}
		for _, rb := range fn.Blocks {
			if _, isRet := rb.Instrs[len(rb.Instrs)-1].(*ssa.Return); isRet && header.Dominates(rb) {
				if pathAvoiding(fn, s, 0, rb, len(rb.Instrs)-1, isAction) {
					return true
				}
			}
		}
		return false
	}
	for _, b := range fn.Blocks {
		if !header.Dominates(b) || b == header {
			continue
		}
		ifi, ok := b.Instrs[len(b.Instrs)-1].(*ssa.If)
		if !ok || len(b.Succs) != 2 || !reaches(b, call.Block()) {
			continue
		}
		a0, a1 := avoids(b.Succs[0]), avoids(b.Succs[1])
		r0, r1 := reaches(b.Succs[0], call.Block()), reaches(b.Succs[1], call.Block())
		controls := (a0 && r1 && !a1) || (a1 && r0 && !a0) || (a0 != a1)
		if !controls {
			continue
		}
		// go/ssa does not share `el.Value.(*CandidateNode)` between two mentions: a second
		// mention in the condition is another load of the same list element
		root := listElementOf(elem)
		if dependsOnValue(ifi.Cond, elem, 0) || dependsOnElemDeep(ifi.Cond, elem, 0) || (root != nil && readsListElement(ifi.Cond, root, 0)) {
			out = append(out, elemFilter{ifi.Cond, a1 && !a0, describeCond(c, ifi.Cond)})
		}
	}
	return out
}

// loopHeaderOf: elem is `el.Value.(*CandidateNode)` for a list element el that is a loop phi; returns the phi's block.
func loopHeaderOf(elem ssa.Value) *ssa.BasicBlock {
	if phi, ok := elem.(*ssa.Phi); ok && isListElementPtr(phi.Type()) {
		return phi.Block()
	}
	if ta, ok := elem.(*ssa.TypeAssert); ok {
		elem = ta.X
	}
	u, ok := elem.(*ssa.UnOp)
	if !ok {
		return nil
	}
	fa, ok := u.X.(*ssa.FieldAddr)
	if !ok || fieldName(fa) != "Value" {
		return nil
	}
	if phi, ok := fa.X.(*ssa.Phi); ok {
		return phi.Block()
	}
	return nil
}

// dependsOnElemDeep: also through map lookups keyed by something computed from the element.
func dependsOnElemDeep(v ssa.Value, elem ssa.Value, d int) bool {
	if d > 8 {
		return false
	}
	switch x := v.(type) {
	case *ssa.Lookup:
		return dependsOnValue(x.Index, elem, 0) || dependsOnElemDeep(x.Index, elem, d+1)
	case *ssa.Extract:
		return dependsOnElemDeep(x.Tuple, elem, d+1)
	case *ssa.BinOp:
		return dependsOnElemDeep(x.X, elem, d+1) || dependsOnElemDeep(x.Y, elem, d+1)
	case *ssa.UnOp:
		return dependsOnElemDeep(x.X, elem, d+1)
	case *ssa.Phi:
		for _, e := range x.Edges {
			if dependsOnValue(e, elem, 0) || dependsOnElemDeep(e, elem, d+1) {
				return true
			}
		}
	}
	return false
}

func describeCond(c *Ctx, cond ssa.Value) string {
	return fmt.Sprintf("%s at %s", exprOfValue(cond), c.P.pos(cond.Pos()))
}

// isTagEquals: cond is `<elem>.Tag == "<tag>"` (either order, == or !=).
func isTagEquals(cond ssa.Value, elem ssa.Value, tag string) bool {
	bo, ok := cond.(*ssa.BinOp)
	if !ok || (bo.Op != token.EQL && bo.Op != token.NEQ) {
		return false
	}
	isTag := func(v ssa.Value) bool {
		u, ok := v.(*ssa.UnOp)
		if !ok {
			return false
		}
		fa, ok := u.X.(*ssa.FieldAddr)
		return ok && fa.X == elem && fieldName(fa) == "Tag"
	}
	isConst := func(v ssa.Value) bool {
		k, ok := v.(*ssa.Const)
		return ok && k.Value != nil && k.Value.Kind() == constant.String && constant.StringVal(k.Value) == tag
	}
	return (isTag(bo.X) && isConst(bo.Y)) || (isTag(bo.Y) && isConst(bo.X))
}

// ruleNoFilter: in fn, every call of one of `actions` that is given a node element
// is reached whatever that element is — except for conditions accept() allows.
func ruleNoFilter(c *Ctx, rule string, fnName string, actions map[string]bool, accept func(cond ssa.Value, elem ssa.Value) bool, consequence string) {
	r := c.R
	fn := c.libFunc(fnName)
	if fn == nil {
		r.Fatal("anchor missing: %s", fnName)
		return
	}
	n := 0
	eachInstr(fn, func(ins ssa.Instruction) {
		call, ok := ins.(*ssa.Call)
		if !ok {
			return
		}
		name := ""
		if call.Call.StaticCallee() != nil {
			name = call.Call.StaticCallee().Name()
		}
		if !actions[name] {
			return
		}
		for _, elem := range nodeOperands(call) {
			if _, isParam := elem.(*ssa.Parameter); isParam {
				continue
			}
			n++
			key := fmt.Sprintf("%s/%s(%s)#%d", fnName, name, exprOfValue(elem), n)
			var bad []string
			for _, f := range elementFilters(c, call, elem) {
				if accept != nil && accept(f.cond, elem) {
					continue
				}
				bad = append(bad, f.text)
			}
			if len(bad) == 0 {
				r.Discharge(rule, key, c.P.pos(call.Pos()), "reached for every element (no test on the element itself beyond the accepted ones)")
			} else {
				r.Finding(rule, key, c.P.pos(call.Pos()), fmt.Sprintf("%s is skipped depending on the element itself (%s): %s", name, strings.Join(bad, "; "), consequence))
			}
		}
	})
	if n == 0 {
		r.Undecided(rule, fnName+"/element-action", c.P.pos(fn.Pos()), "no call handing a node element on was found: shape not recognised")
	}
}

// listElementOf: elem is `el.Value.(*CandidateNode)`; returns el (the *list.Element value).
func listElementOf(elem ssa.Value) ssa.Value {
	if ta, ok := elem.(*ssa.TypeAssert); ok {
		elem = ta.X
	}
	u, ok := elem.(*ssa.UnOp)
	if !ok {
		return nil
	}
	fa, ok := u.X.(*ssa.FieldAddr)
	if !ok || fieldName(fa) != "Value" {
		return nil
	}
	return fa.X
}

// readsListElement: v is computed from el.Value (any load of it), through type
// assertions, field reads, comparisons and calls given it as an argument.
func readsListElement(v ssa.Value, el ssa.Value, d int) bool {
	if d > 10 {
		return false
	}
	switch x := v.(type) {
	case *ssa.TypeAssert:
		return readsListElement(x.X, el, d+1)
	case *ssa.UnOp:
		if fa, ok := x.X.(*ssa.FieldAddr); ok && fieldName(fa) == "Value" && fa.X == el {
			return true
		}
		return readsListElement(x.X, el, d+1)
	case *ssa.FieldAddr:
		return readsListElement(x.X, el, d+1)
	case *ssa.BinOp:
		return readsListElement(x.X, el, d+1) || readsListElement(x.Y, el, d+1)
	case *ssa.Call:
		for _, a := range x.Call.Args {
			if readsListElement(a, el, d+1) {
				return true
			}
		}
	case *ssa.Phi:
		for _, e := range x.Edges {
			if e != v && readsListElement(e, el, d+1) {
				return true
			}
		}
	case *ssa.Extract:
		return readsListElement(x.Tuple, el, d+1)
	case *ssa.MakeInterface:
		return readsListElement(x.X, el, d+1)
	}
	return false
}

// isListElementPtr: *container/list.Element
func isListElementPtr(t types.Type) bool {
	p, ok := t.(*types.Pointer)
	if !ok {
		return false
	}
	n, ok := p.Elem().(*types.Named)
	return ok && n.Obj().Name() == "Element" && n.Obj().Pkg() != nil && n.Obj().Pkg().Path() == "container/list"
}
