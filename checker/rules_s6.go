package main

import (
	"fmt"

	"golang.org/x/tools/go/ssa"
)

// Rule S6 — an evaluation result is not an evaluation context.
//
// d.GetMatchingNodes(ctx, e) returns a Context whose MatchingNodes are the
// results; its other fields (variables bound inside e, the date-time layout set
// by with_dtf, the read-only flag) belong to the evaluation of e. Handing that
// Context on as the context of another evaluation leaks e's scope into a
// sibling expression. The sites that do so on the pinned tree are the scoping
// operators themselves and are tabled; a new one is reported.

type s6Site struct {
	fn   *ssa.Function
	call *ssa.Call
	from *ssa.Call
}

func isGetMatching(call *ssa.Call) bool {
	callee := call.Call.StaticCallee()
	return callee != nil && callee.Name() == "GetMatchingNodes" && len(call.Call.Args) == 3
}

// ctxFromEvaluation: v is (derived without rebuilding from) the Context result of an evaluation.
func ctxFromEvaluation(v ssa.Value, d int, seen map[ssa.Value]bool) *ssa.Call {
	if d > 8 || seen[v] {
		return nil
	}
	seen[v] = true
	switch x := v.(type) {
	case *ssa.Extract:
		if call, ok := x.Tuple.(*ssa.Call); ok && x.Index == 0 && isGetMatching(call) {
			return call
		}
	case *ssa.Phi:
		for _, e := range x.Edges {
			if c := ctxFromEvaluation(e, d+1, seen); c != nil {
				return c
			}
		}
	case *ssa.UnOp:
		// load of a local Context variable: what was stored into it
		if al, ok := x.X.(*ssa.Alloc); ok && al.Referrers() != nil {
			for _, r := range *al.Referrers() {
				if st, ok := r.(*ssa.Store); ok && st.Addr == al {
					if c := ctxFromEvaluation(st.Val, d+1, seen); c != nil {
						return c
					}
				}
			}
		}
	}
	return nil
}

func s6Sites(c *Ctx) []s6Site {
	var out []s6Site
	for _, fn := range c.moduleFuncs() {
		eachInstr(fn, func(ins ssa.Instruction) {
			call, ok := ins.(*ssa.Call)
			if !ok || !isGetMatching(call) {
				return
			}
			if from := ctxFromEvaluation(call.Call.Args[1], 0, map[ssa.Value]bool{}); from != nil {
				out = append(out, s6Site{fn, call, from})
			}
		})
	}
	return out
}

var s6Accepted = map[string]string{
	"yqlib.delPathsOperator/GetMatchingNodes(complit)":              "the document is threaded through successive locally built DELETE_CHILD expressions; no user sub-expression is evaluated in that context",
	"yqlib.reduceOperator/GetMatchingNodes(expressionNode.RHS.RHS)": "reduce: the accumulator of one step is by definition the context of the next",
}

func ruleS6(c *Ctx, rule string) {
	r := c.R
	r.Rule(rule, "the Context returned by one evaluation is not used as the context of another", 50)
	bad := map[*ssa.Call]s6Site{}
	for _, s := range s6Sites(c) {
		bad[s.call] = s
	}
	for _, fn := range c.moduleFuncs() {
		seen := map[string]int{}
		eachInstr(fn, func(ins ssa.Instruction) {
			call, ok := ins.(*ssa.Call)
			if !ok || !isGetMatching(call) {
				return
			}
			key := fmt.Sprintf("%s/GetMatchingNodes(%s)", funcKey(fn), exprOfValue(call.Call.Args[2]))
			seen[key]++
			if seen[key] > 1 {
				key = fmt.Sprintf("%s#%d", key, seen[key])
			}
			s, isBad := bad[call]
			if !isBad {
				r.Discharge(rule, key, c.P.pos(call.Pos()), "context built from the operator's own context")
				return
			}
			if why, ok := s6Accepted[key]; ok {
				r.Discharge(rule, key, c.P.pos(call.Pos()), "accepted: "+why)
				return
			}
			r.Finding(rule, key, c.P.pos(call.Pos()), fmt.Sprintf("the context of this evaluation is the Context returned by the evaluation at %s: variables and settings made inside that expression (as $x, with_dtf, …) leak into this one", c.P.pos(s.from.Pos())))
		})
	}
}
