package main

import (
	"fmt"
	"go/token"
	"go/types"

	"golang.org/x/tools/go/ssa"
)

// Rule P8 — a result is used only where its error is known to be nil.
//
// For a call `v, err := f(…)` with v a pointer (or interface, map, slice of a
// module type) and err the error result: when the function tests err at all,
// every dereference of v must sit where `err == nil` holds on every path — i.e.
// be dominated by the nil side of a test of that err. A test that lets some
// errors through (`err != nil && !errors.Is(err, io.EOF)`) leaves v nil on the
// path it lets through, and the dereference panics.

type p8Site struct {
	fn     *ssa.Function
	call   *ssa.Call
	use    ssa.Instruction
	callee string
}

// errNilAt: blk is dominated by the nil side of a test of err.
func errNilAt(blk *ssa.BasicBlock, err ssa.Value) bool {
	ok := false
	dominatingConds(blk, func(cond ssa.Value, taken bool, at *ssa.BasicBlock) {
		bo, isB := cond.(*ssa.BinOp)
		if !isB {
			return
		}
		var other ssa.Value
		switch {
		case bo.X == err:
			other = bo.Y
		case bo.Y == err:
			other = bo.X
		default:
			return
		}
		c, isC := other.(*ssa.Const)
		if !isC || !c.IsNil() {
			return
		}
		if (bo.Op == token.NEQ && !taken) || (bo.Op == token.EQL && taken) {
			ok = true
		}
	})
	return ok
}

// derefUses: instructions that dereference pointer v (field access, load, method call on it).
func derefUses(v ssa.Value) []ssa.Instruction {
	var out []ssa.Instruction
	refs := v.Referrers()
	if refs == nil {
		return nil
	}
	for _, r := range *refs {
		switch x := r.(type) {
		case *ssa.FieldAddr:
			if x.X == v {
				out = append(out, x)
			}
		case *ssa.UnOp:
			if x.Op == token.MUL && x.X == v {
				out = append(out, x)
			}
		case *ssa.Call:
			if x.Call.IsInvoke() && x.Call.Value == v {
				out = append(out, x)
			}
		}
	}
	return out
}

func p8Sites(c *Ctx, fn *ssa.Function) (bad []p8Site, checked int) {
	eachInstr(fn, func(ins ssa.Instruction) {
		call, ok := ins.(*ssa.Call)
		if !ok {
			return
		}
		tup, ok := call.Type().(*types.Tuple)
		if !ok || tup.Len() != 2 || !isErrorType(tup.At(1).Type()) {
			return
		}
		if _, isPtr := tup.At(0).Type().Underlying().(*types.Pointer); !isPtr {
			return
		}
		var v, err ssa.Value
		if call.Referrers() == nil {
			return
		}
		for _, r := range *call.Referrers() {
			if ex, ok := r.(*ssa.Extract); ok {
				if ex.Index == 0 {
					v = ex
				} else {
					err = ex
				}
			}
		}
		if v == nil || err == nil {
			return
		}
		// is err tested at all? (an untested error is E1's business)
		tested := false
		if err.Referrers() != nil {
			for _, r := range *err.Referrers() {
				if bo, ok := r.(*ssa.BinOp); ok && (bo.Op == token.NEQ || bo.Op == token.EQL) {
					tested = true
				}
			}
		}
		if !tested {
			return
		}
		for _, u := range derefUses(v) {
			checked++
			if errNilAt(u.Block(), err) || nilGuarded(u.Block(), v) {
				continue
			}
			name := calleeName(&call.Call)
			if name == "" {
				name = "dynamic call"
			}
			bad = append(bad, p8Site{fn, call, u, shortCallee(name)})
		}
	})
	return bad, checked
}

var p8Accepted = map[string]string{}

func ruleP8(c *Ctx, rule string, min int) {
	r := c.R
	r.Rule(rule, "a pointer result is dereferenced only where its error result is known nil", min)
	for _, fn := range c.moduleFuncs() {
		bad, _ := p8Sites(c, fn)
		badAt := map[ssa.Instruction]p8Site{}
		for _, b := range bad {
			badAt[b.use] = b
		}
		seen := map[string]int{}
		eachInstr(fn, func(ins ssa.Instruction) {
			call, ok := ins.(*ssa.Call)
			if !ok {
				return
			}
			tup, ok := call.Type().(*types.Tuple)
			if !ok || tup.Len() != 2 || !isErrorType(tup.At(1).Type()) {
				return
			}
			if _, isPtr := tup.At(0).Type().Underlying().(*types.Pointer); !isPtr {
				return
			}
			name := calleeName(&call.Call)
			if name == "" {
				name = "dynamic"
			}
			key := fmt.Sprintf("%s/%s", funcKey(fn), shortCallee(name))
			seen[key]++
			if seen[key] > 1 {
				key = fmt.Sprintf("%s#%d", key, seen[key])
			}
			var first *p8Site
			for _, b := range bad {
				if b.call == call {
					b := b
					first = &b
					break
				}
			}
			if first == nil {
				r.Discharge(rule, key, c.P.pos(call.Pos()), "every dereference of the result sits on the nil side of a test of its error (or the error is handled by E1's rules)")
				return
			}
			if why, ok := p8Accepted[key]; ok {
				r.Discharge(rule, key, c.P.pos(call.Pos()), "accepted: "+why)
				return
			}
			r.Finding(rule, key, c.P.pos(call.Pos()), fmt.Sprintf("the result of %s is dereferenced at %s on a path where its error was tested but may still be non-nil (the test lets some errors through): nil-pointer panic when the call fails that way", first.callee, c.P.pos(nearestPos(first.use))))
		})
	}
}
