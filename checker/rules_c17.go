package main

import (
	"fmt"
	"go/ast"
	"go/constant"
	"go/token"
	"go/types"
	"regexp"
	"sort"
	"strings"

	"golang.org/x/tools/go/ssa"
)

// C17 — @sh and -o=shell output is injection-safe.

func init() {
	register("C17", "Decides structural necessary conditions of '@sh / -o=shell output is a single inert shell word / assignment': (H1) the set of runes the @sh encoder leaves unquoted — computed from the unsafeChars regex read from source AND from the shape of shouldQuote (every value it can return is `true` or the regex verdict) — is a subset of the POSIX-inert set [A-Za-z0-9_@%+=:,./-]; the quoting decision in encode is taken only through shouldQuote; (H2) the variable-name mapper of -o=shell returns only -1, '_' or a rune accepted by a predicate whose accepted set (exact interval algebra over its syntax) is [A-Za-z0-9_], and a root key is returned bare only under the first-rune test; (H3) quoteValue leaves a value bare only when every rune is in a predicate set ⊆ [A-Za-z0-9_], quotes with single quotes and replaces ' by a valid POSIX idiom; (H4) taint: scalar text (CandidateNode.Value) reaches an output write in the two shell encoders only through their sanitisers (encode / quoteValue / appendPath). Does NOT decide the two-state quoting automaton of encode for every string.", runC17)
}

const posixInert = "ABCDEFGHIJKLMNOPQRSTUVWXYZabcdefghijklmnopqrstuvwxyz0123456789_@%+=:,./-"
const identChars = "ABCDEFGHIJKLMNOPQRSTUVWXYZabcdefghijklmnopqrstuvwxyz0123456789_"

func runC17(c *Ctx) {
	r := c.R
	r.Rule("H1", "@sh: runes left unquoted ⊆ POSIX-inert set; decision only via the regex", 6)
	r.Rule("H2", "-o=shell names: mapper yields only [A-Za-z0-9_], root key prefixed unless it starts with [A-Za-z_]", 4)
	r.Rule("H3", "-o=shell values: bare only if all runes in [A-Za-z0-9_]; else single-quoted with a valid quote idiom", 2)
	r.Rule("H4", "scalar text reaches output only through a sanitiser", 3)
	ruleF1(c, "H5", 100)
	ruleF2(c, "H6")
	ruleH7(c)
	pk := c.P.lib()
	info := pk.TypesInfo
	inert := rsFromString(posixInert)
	ident := rsFromString(identChars)

	// ---- H1 ---------------------------------------------------------------
	should := c.libFunc("shEncoder.shouldQuote")
	if should == nil {
		r.Fatal("anchor missing: (*shEncoder).shouldQuote")
		return
	}
	// which global regexp decides?
	var reGlobal *ssa.Global
	var matchCall *ssa.Call
	eachInstr(should, func(ins ssa.Instruction) {
		call, ok := ins.(*ssa.Call)
		if !ok {
			return
		}
		n := calleeName(&call.Call)
		if strings.HasPrefix(n, "(*regexp.Regexp).Match") {
			if u, ok := call.Call.Args[0].(*ssa.UnOp); ok {
				if g, ok := u.X.(*ssa.Global); ok {
					reGlobal, matchCall = g, call
				}
			}
		}
	})
	if reGlobal == nil {
		r.Finding("H1", "shouldQuote/regex-verdict", c.P.pos(should.Pos()), "shouldQuote no longer consults a package-level regexp: the safe set cannot be established")
	} else {
		pat, pos, ok := globalRegexPattern(c, reGlobal.Name())
		if !ok {
			r.Undecided("H1", "unsafeChars/pattern", c.P.pos(reGlobal.Pos()), "pattern of "+reGlobal.Name()+" is not a constant passed to regexp.MustCompile")
		} else {
			re, err := regexp.Compile(pat)
			if err != nil {
				r.Finding("H1", "unsafeChars/compile", c.P.pos(pos), "regex does not compile: "+err.Error())
			} else {
				var safe runeSet
				for ch := rune(0); ch <= maxRune; ch++ {
					if ch >= 0xD800 && ch <= 0xDFFF {
						continue
					}
					if !re.MatchString(string(ch)) {
						safe = append(safe, runeRange{ch, ch})
					}
				}
				safe = safe.norm()
				extra := safe.minus(inert)
				r.Analysed["sh_safe_set"] = safe.String()
				if len(extra) == 0 {
					r.Discharge("H1", "unsafeChars/safe-set", c.P.pos(pos), fmt.Sprintf("runes not matched by %q = %s ⊆ POSIX-inert set", pat, safe))
				} else {
					r.Finding("H1", "unsafeChars/safe-set", c.P.pos(pos), fmt.Sprintf("runes %s are left unquoted by %q but are not shell-inert", extra, pat))
				}
				for _, meta := range " \t\n|&;<>()$`\\\"'*?[]#~!{}^" {
					key := fmt.Sprintf("unsafeChars/meta[%q]", meta)
					if re.MatchString(string(meta)) {
						r.Discharge("H1", key, c.P.pos(pos), "metacharacter is in the unsafe class")
					} else {
						r.Finding("H1", key, c.P.pos(pos), "shell metacharacter is not in the unsafe class: the one-character string is an injection")
					}
				}
			}
		}
		// argument of the match is the rune parameter converted to string
		argOK := false
		if len(matchCall.Call.Args) == 2 {
			if cv, ok := matchCall.Call.Args[1].(*ssa.Convert); ok {
				if _, ok := cv.X.(*ssa.Parameter); ok {
					argOK = true
				}
			}
		}
		if argOK {
			r.Discharge("H1", "shouldQuote/regex-argument", c.P.pos(matchCall.Pos()), "regex is applied to string(rune parameter)")
		} else {
			r.Finding("H1", "shouldQuote/regex-argument", c.P.pos(matchCall.Pos()), "regex is not applied to the rune being encoded")
		}
		// every returned value is `true` or the regex verdict
		eachInstr(should, func(ins ssa.Instruction) {
			ret, ok := ins.(*ssa.Return)
			if !ok || len(ret.Results) != 1 {
				return
			}
			bad := returnLeaves(ret.Results[0], func(v ssa.Value) bool {
				if v == ssa.Value(matchCall) {
					return true
				}
				if cst, ok := v.(*ssa.Const); ok && cst.Value != nil && cst.Value.Kind() == constant.Bool && constant.BoolVal(cst.Value) {
					return true
				}
				return false
			})
			key := "shouldQuote/return"
			if len(bad) == 0 {
				r.Discharge("H1", key, c.P.pos(ret.Pos()), "returns only `true` or the unsafe-class verdict: no rune is declared safe without consulting the class")
			} else {
				r.Finding("H1", key, c.P.pos(bad[0].Pos()), fmt.Sprintf("shouldQuote can return %s, a verdict not derived from the unsafe class: runes outside the inert set may be left unquoted", exprOfValue(bad[0])))
			}
		})
	}
	// encode consults shouldQuote
	enc := c.libFunc("shEncoder.encode")
	if enc == nil {
		r.Fatal("anchor missing: (*shEncoder).encode")
		return
	}
	ncalls := 0
	eachInstr(enc, func(ins ssa.Instruction) {
		if call, ok := ins.(*ssa.Call); ok && call.Call.StaticCallee() == should {
			ncalls++
			usedInIf := false
			flowUses(call, 0, map[ssa.Value]bool{}, func(u ssa.Instruction, v ssa.Value) {
				if _, ok := u.(*ssa.If); ok {
					usedInIf = true
				}
			})
			if usedInIf {
				r.Discharge("H1", "encode/shouldQuote-decides", c.P.pos(call.Pos()), "quote block is opened under the shouldQuote verdict")
			} else {
				r.Finding("H1", "encode/shouldQuote-decides", c.P.pos(call.Pos()), "shouldQuote verdict does not control a branch")
			}
		}
	})
	if ncalls == 0 {
		r.Finding("H1", "encode/shouldQuote-decides", c.P.pos(enc.Pos()), "encode no longer calls shouldQuote")
	}

	// ---- H2 ---------------------------------------------------------------
	ap := lookupFunc(pk, "appendPath")
	apDecl := funcDecl(pk, ap)
	if apDecl == nil {
		r.Fatal("anchor missing: appendPath")
		return
	}
	pe := &runePredEval{pk: pk}
	// the mapper: a function literal, or a named function of the package
	var mapType *ast.FuncType
	var mapBody *ast.BlockStmt
	var mapPos token.Pos
	ast.Inspect(apDecl, func(n ast.Node) bool {
		if call, ok := n.(*ast.CallExpr); ok {
			if fn := calleeFunc(info, call); fn != nil && fn.FullName() == "strings.Map" && len(call.Args) == 2 {
				switch m := ast.Unparen(call.Args[0]).(type) {
				case *ast.FuncLit:
					mapType, mapBody, mapPos = m.Type, m.Body, m.Pos()
				case *ast.Ident:
					if f, ok := info.Uses[m].(*types.Func); ok {
						if fd := funcDecl(pk, f); fd != nil && fd.Body != nil {
							mapType, mapBody, mapPos = fd.Type, fd.Body, fd.Pos()
						}
					}
				}
			}
		}
		return true
	})
	if mapBody == nil {
		r.Undecided("H2", "appendPath/mapper", c.P.pos(apDecl.Pos()), "variable names are no longer filtered through strings.Map with a mapper this rule can read (a function literal or a named function of the package)")
	} else {
		out, ok, why := mapperImage(pe, mapType, mapBody)
		if !ok {
			r.Undecided("H2", "appendPath/mapper", c.P.pos(mapPos), "mapper shape not recognised: "+why)
		} else {
			extra := out.minus(ident)
			if len(extra) == 0 {
				r.Discharge("H2", "appendPath/mapper-image", c.P.pos(mapPos), fmt.Sprintf("image of the mapper = %s ⊆ [A-Za-z0-9_] (or dropped)", out))
			} else {
				r.Finding("H2", "appendPath/mapper-image", c.P.pos(mapPos), fmt.Sprintf("mapper can emit %s into a shell variable name", extra))
			}
		}
	}
	// the first-rune predicate and the root-key prefix
	for _, pn := range []struct {
		name string
		want runeSet
	}{{"isAlphaOrUnderscore", rsFromString("ABCDEFGHIJKLMNOPQRSTUVWXYZabcdefghijklmnopqrstuvwxyz_")}, {"isAlphaNumericOrUnderscore", ident}} {
		fd := funcDecl(pk, lookupFunc(pk, pn.name))
		if fd == nil {
			r.Fatal("anchor missing: %s", pn.name)
			continue
		}
		s, ok := pe.evalPredFunc(fd)
		if !ok {
			r.Undecided("H2", pn.name+"/accepted-set", c.P.pos(fd.Pos()), "predicate is not a boolean combination of comparisons of its rune with constants")
		} else if len(s.minus(pn.want)) == 0 {
			r.Discharge("H2", pn.name+"/accepted-set", c.P.pos(fd.Pos()), fmt.Sprintf("accepts exactly %s ⊆ %s", s, pn.want))
		} else {
			r.Finding("H2", pn.name+"/accepted-set", c.P.pos(fd.Pos()), fmt.Sprintf("accepts %s, beyond the identifier characters", s.minus(pn.want)))
		}
	}
	checkRootKeyPrefix(c)

	// ---- H3 ---------------------------------------------------------------
	qv := funcDecl(pk, lookupFunc(pk, "quoteValue"))
	if qv == nil {
		r.Fatal("anchor missing: quoteValue")
		return
	}
	checkQuoteValue(c, pe, qv, ident)

	// ---- H4 ---------------------------------------------------------------
	checkShellTaint(c)
}

// globalRegexPattern finds `var name = regexp.MustCompile(<const>)`.
func globalRegexPattern(c *Ctx, name string) (string, token.Pos, bool) {
	pk := c.P.lib()
	for _, f := range pk.Syntax {
		for _, d := range f.Decls {
			gd, ok := d.(*ast.GenDecl)
			if !ok || gd.Tok != token.VAR {
				continue
			}
			for _, s := range gd.Specs {
				vs := s.(*ast.ValueSpec)
				for i, n := range vs.Names {
					if n.Name != name || i >= len(vs.Values) {
						continue
					}
					call, ok := vs.Values[i].(*ast.CallExpr)
					if !ok || len(call.Args) != 1 {
						return "", n.Pos(), false
					}
					fn := calleeFunc(pk.TypesInfo, call)
					if fn == nil || (fn.FullName() != "regexp.MustCompile" && fn.FullName() != "regexp.MustCompilePOSIX") {
						return "", n.Pos(), false
					}
					p, ok := constString(pk.TypesInfo, call.Args[0])
					return p, call.Args[0].Pos(), ok
				}
			}
		}
	}
	return "", token.NoPos, false
}

// returnLeaves walks phis and returns the leaf values not accepted by ok.
func returnLeaves(v ssa.Value, ok func(ssa.Value) bool) []ssa.Value {
	var bad []ssa.Value
	seen := map[ssa.Value]bool{}
	var walk func(v ssa.Value)
	walk = func(v ssa.Value) {
		if seen[v] {
			return
		}
		seen[v] = true
		if ok(v) {
			return
		}
		if phi, isPhi := v.(*ssa.Phi); isPhi {
			for _, e := range phi.Edges {
				walk(e)
			}
			return
		}
		bad = append(bad, v)
	}
	walk(v)
	return bad
}

// mapperImage computes the set of runes a strings.Map callback of the shape
//
//	if P(r) { return r } else if Q(r) { return -1 } ... return '_'
//
// can return (excluding -1).
func mapperImage(pe *runePredEval, ftype *ast.FuncType, body *ast.BlockStmt) (runeSet, bool, string) {
	if ftype.Params.NumFields() != 1 || len(ftype.Params.List[0].Names) != 1 {
		return nil, false, "not a one-parameter function"
	}
	arg := pe.pk.TypesInfo.Defs[ftype.Params.List[0].Names[0]]
	var image runeSet
	var walk func(stmts []ast.Stmt, reach runeSet) (runeSet, bool, string) // returns the set that falls through
	retVal := func(e ast.Expr, reach runeSet) (bool, string) {
		if pe.isArg(e, arg) {
			image = image.union(reach)
			return true, ""
		}
		if v, ok := pe.constRune(e); ok {
			if v >= 0 && len(reach) > 0 {
				image = image.union(rsRange(rune(v), rune(v)))
			}
			return true, ""
		}
		return false, "return value is neither the rune nor a constant"
	}
	walk = func(stmts []ast.Stmt, reach runeSet) (runeSet, bool, string) {
		for _, st := range stmts {
			switch s := st.(type) {
			case *ast.ReturnStmt:
				if len(s.Results) != 1 {
					return nil, false, "return arity"
				}
				if ok, why := retVal(s.Results[0], reach); !ok {
					return nil, false, why
				}
				return rsNone(), true, ""
			case *ast.IfStmt:
				if s.Init != nil {
					return nil, false, "if with init"
				}
				cond, ok := pe.eval(s.Cond, arg)
				if !ok {
					return nil, false, "condition not decidable"
				}
				thenOut, ok, why := walk(s.Body.List, reach.intersect(cond))
				if !ok {
					return nil, false, why
				}
				elseReach := reach.minus(cond)
				elseOut := elseReach
				if s.Else != nil {
					var list []ast.Stmt
					switch e := s.Else.(type) {
					case *ast.BlockStmt:
						list = e.List
					case *ast.IfStmt:
						list = []ast.Stmt{e}
					}
					elseOut, ok, why = walk(list, elseReach)
					if !ok {
						return nil, false, why
					}
				}
				reach = thenOut.union(elseOut)
			case *ast.SwitchStmt:
				// tagless switch: clauses tried in order, default last
				if s.Init != nil || s.Tag != nil {
					return nil, false, "switch with tag or init"
				}
				remaining := reach
				out := rsNone()
				var deflt *ast.CaseClause
				for _, cl := range s.Body.List {
					cc := cl.(*ast.CaseClause)
					if cc.List == nil {
						deflt = cc
						continue
					}
					cond := rsNone()
					for _, e := range cc.List {
						cs, ok := pe.eval(e, arg)
						if !ok {
							return nil, false, "case condition not decidable"
						}
						cond = cond.union(cs)
					}
					o, ok, why := walk(cc.Body, remaining.intersect(cond))
					if !ok {
						return nil, false, why
					}
					out = out.union(o)
					remaining = remaining.minus(cond)
				}
				if deflt != nil {
					o, ok, why := walk(deflt.Body, remaining)
					if !ok {
						return nil, false, why
					}
					out = out.union(o)
				} else {
					out = out.union(remaining)
				}
				reach = out
			default:
				return nil, false, fmt.Sprintf("statement %T", st)
			}
		}
		return reach, true, ""
	}
	rest, ok, why := walk(body.List, rsAll())
	if !ok {
		return nil, false, why
	}
	if len(rest) != 0 {
		return nil, false, "mapper can fall off its end"
	}
	return image, true, ""
}

// checkRootKeyPrefix: appendPath returns the bare mapped key only where the
// first-rune predicate held.
func checkRootKeyPrefix(c *Ctx) {
	r := c.R
	fn := c.libFunc("appendPath")
	first := c.libFunc("isAlphaOrUnderscore")
	if fn == nil || first == nil {
		r.Fatal("anchor missing: appendPath / isAlphaOrUnderscore")
		return
	}
	var mapped ssa.Value
	eachInstr(fn, func(ins ssa.Instruction) {
		if call, ok := ins.(*ssa.Call); ok && calleeName(&call.Call) == "strings.Map" {
			mapped = call
		}
	})
	if mapped == nil {
		return // reported by mapper rule
	}
	n := 0
	eachInstr(fn, func(ins ssa.Instruction) {
		ret, ok := ins.(*ssa.Return)
		if !ok || len(ret.Results) != 1 || ret.Results[0] != mapped {
			return
		}
		n++
		guarded := false
		dominatingConds(ret.Block(), func(cond ssa.Value, taken bool, at *ssa.BasicBlock) {
			v, neg := cond, false
			if u, ok := v.(*ssa.UnOp); ok && u.Op == token.NOT {
				v, neg = u.X, true
			}
			if call, ok := v.(*ssa.Call); ok && call.Call.StaticCallee() == first && taken != neg {
				guarded = true
			}
		})
		if guarded {
			r.Discharge("H2", "appendPath/root-key-bare", c.P.pos(ret.Pos()), "bare root key returned only when its first rune is in [A-Za-z_]")
		} else {
			r.Finding("H2", "appendPath/root-key-bare", c.P.pos(ret.Pos()), "root key can be returned without the `_` prefix although its first rune was not tested: NAME may start with a digit")
		}
	})
	if n == 0 {
		r.Discharge("H2", "appendPath/root-key-bare", c.P.pos(fn.Pos()), "the mapped key is never returned bare (always prefixed or appended to a path)")
	}
}

// checkQuoteValue: AST shape of quoteValue.
func checkQuoteValue(c *Ctx, pe *runePredEval, fd *ast.FuncDecl, ident runeSet) {
	r := c.R
	info := pe.pk.TypesInfo
	// (a) trigger predicate: the condition inside the range loop that sets the flag
	var trigger runeSet
	found := false
	undecided := ""
	scanLoops := func(body *ast.BlockStmt) {
		ast.Inspect(body, func(n ast.Node) bool {
			rs, ok := n.(*ast.RangeStmt)
			if !ok || rs.Value == nil {
				return true
			}
			vid, ok := rs.Value.(*ast.Ident)
			if !ok {
				return true
			}
			arg := info.Defs[vid]
			for _, st := range rs.Body.List {
				if ifs, ok := st.(*ast.IfStmt); ok {
					s, ok := pe.eval(ifs.Cond, arg)
					if !ok {
						undecided = "loop condition not decidable"
						continue
					}
					trigger = trigger.union(s)
					found = true
				}
			}
			return true
		})
	}
	scanLoops(fd.Body)
	if !found && undecided == "" {
		// the per-rune scan may sit in a package helper that is handed the value (isSafe(value))
		var param types.Object
		if fd.Type.Params.NumFields() > 0 && len(fd.Type.Params.List[0].Names) > 0 {
			param = info.Defs[fd.Type.Params.List[0].Names[0]]
		}
		ast.Inspect(fd.Body, func(n ast.Node) bool {
			call, ok := n.(*ast.CallExpr)
			if !ok || found {
				return true
			}
			fn := calleeFunc(info, call)
			if fn == nil || fn.Pkg() == nil || fn.Pkg().Path() != pe.pk.PkgPath {
				return true
			}
			for _, a := range call.Args {
				if id, ok := ast.Unparen(a).(*ast.Ident); ok && param != nil && info.Uses[id] == param {
					if hd := funcDecl(pe.pk, fn); hd != nil && hd.Body != nil {
						scanLoops(hd.Body)
					}
				}
			}
			return true
		})
	}
	switch {
	case undecided != "":
		r.Undecided("H3", "quoteValue/bare-set", c.P.pos(fd.Pos()), undecided)
	case !found:
		r.Undecided("H3", "quoteValue/bare-set", c.P.pos(fd.Pos()), "no per-rune test deciding whether a value needs quoting was found in quoteValue or in a helper it hands the value to: shape not recognised")
	default:
		bare := trigger.complement()
		if extra := bare.minus(ident); len(extra) == 0 {
			r.Discharge("H3", "quoteValue/bare-set", c.P.pos(fd.Pos()), fmt.Sprintf("values are left bare only if all runes ∈ %s", bare))
		} else {
			r.Finding("H3", "quoteValue/bare-set", c.P.pos(fd.Pos()), fmt.Sprintf("a value made of runes %s is emitted without quotes", extra))
		}
	}
	// (b) the quoted form
	okShape := false
	var badPos token.Pos
	ast.Inspect(fd.Body, func(n ast.Node) bool {
		ret, ok := n.(*ast.ReturnStmt)
		if !ok || len(ret.Results) != 1 {
			return true
		}
		if _, isIdent := ast.Unparen(ret.Results[0]).(*ast.Ident); isIdent {
			return true // bare return, judged by (a)
		}
		parts := flattenConcat(ret.Results[0])
		if len(parts) == 3 {
			l, ok1 := constString(info, parts[0])
			rr, ok2 := constString(info, parts[2])
			if call, ok := ast.Unparen(parts[1]).(*ast.CallExpr); ok && ok1 && ok2 && l == "'" && rr == "'" {
				if fn := calleeFunc(info, call); fn != nil && fn.FullName() == "strings.ReplaceAll" && len(call.Args) == 3 {
					from, okf := constString(info, call.Args[1])
					to, okt := constString(info, call.Args[2])
					if okf && okt && from == "'" && (to == `'"'"'` || to == `'\''`) {
						okShape = true
						return true
					}
				}
			}
		}
		badPos = ret.Pos()
		return true
	})
	if okShape && badPos == token.NoPos {
		r.Discharge("H3", "quoteValue/quoted-form", c.P.pos(fd.Pos()), "quoted form is '…' with every ' replaced by a valid POSIX idiom")
	} else {
		p := badPos
		if p == token.NoPos {
			p = fd.Pos()
		}
		r.Finding("H3", "quoteValue/quoted-form", c.P.pos(p), "quoted form is not `'` + ReplaceAll(value, `'`, <'\"'\"' | '\\''>) + `'`")
	}
}

func flattenConcat(e ast.Expr) []ast.Expr {
	e = ast.Unparen(e)
	if b, ok := e.(*ast.BinaryExpr); ok && b.Op == token.ADD {
		return append(flattenConcat(b.X), flattenConcat(b.Y)...)
	}
	return []ast.Expr{e}
}

// checkShellTaint: in the methods of the two shell encoders, a load of
// CandidateNode.Value reaches a writer call only through a sanitiser.
func checkShellTaint(c *Ctx) {
	r := c.R
	sanitiser := map[string]bool{"quoteValue": true, "appendPath": true, "encode": true}
	n := 0
	for _, fn := range c.moduleFuncs() {
		recv := fn.Signature.Recv()
		if recv == nil {
			continue
		}
		tn := namedTypeName(recv.Type())
		if tn != "shEncoder" && tn != "shellVariablesEncoder" {
			continue
		}
		eachInstr(fn, func(ins ssa.Instruction) {
			u, ok := ins.(*ssa.UnOp)
			if !ok || u.Op != token.MUL {
				return
			}
			fa, ok := u.X.(*ssa.FieldAddr)
			if !ok || fieldName(fa) != "Value" || namedTypeName(fa.X.Type()) != "CandidateNode" {
				return
			}
			n++
			key := fmt.Sprintf("%s/%s.Value", funcKey(fn), exprOfValue(fa.X))
			sink := taintReachesSink(u, sanitiser, 0, map[ssa.Value]bool{})
			if sink == nil {
				r.Discharge("H4", key, c.P.pos(u.Pos()), "scalar text flows to output only through quoteValue/appendPath/encode")
			} else {
				r.Finding("H4", key, c.P.pos(sink.Pos()), "scalar text reaches "+calleeName(callCommon(sink))+" without passing through the quoting function")
			}
		})
	}
	if n == 0 {
		r.Fatal("anchor moved: no read of CandidateNode.Value in the shell encoders")
	}
}

func taintReachesSink(v ssa.Value, sanitiser map[string]bool, depth int, seen map[ssa.Value]bool) ssa.Instruction {
	if depth > 10 || seen[v] || v.Referrers() == nil {
		return nil
	}
	seen[v] = true
	for _, ref := range *v.Referrers() {
		switch x := ref.(type) {
		case *ssa.Call:
			cal := x.Call.StaticCallee()
			if cal != nil && sanitiser[cal.Name()] {
				continue
			}
			name := calleeName(&x.Call)
			if strings.HasPrefix(name, "io.WriteString") || strings.Contains(name, ").Write") || strings.HasPrefix(name, "fmt.Fprint") || name == "github.com/mikefarah/yq/v4/pkg/yqlib.writeString" {
				return x
			}
			// value passed to some other function: follow its result (formatting helpers)
			if s := taintReachesSink(x, sanitiser, depth+1, seen); s != nil {
				return s
			}
		case *ssa.BinOp, *ssa.Phi, *ssa.Convert, *ssa.ChangeType, *ssa.MakeInterface, *ssa.Slice:
			if s := taintReachesSink(x.(ssa.Value), sanitiser, depth+1, seen); s != nil {
				return s
			}
		case *ssa.Store:
			// stored into a variadic slice element or a local: follow the container
			if ia, ok := x.Addr.(*ssa.IndexAddr); ok {
				if s := taintReachesSink(ia.X, sanitiser, depth+1, seen); s != nil {
					return s
				}
			}
			if al, ok := x.Addr.(*ssa.Alloc); ok {
				for _, r2 := range *al.Referrers() {
					if ld, ok := r2.(*ssa.UnOp); ok {
						if s := taintReachesSink(ld, sanitiser, depth+1, seen); s != nil {
							return s
						}
					}
				}
			}
		}
	}
	return nil
}

var _ = types.Typ

// ruleH7: every component of a -o=shell variable name passes through appendPath
// (which sanitises it and prefixes a root component that does not start with a
// letter or underscore): the path argument of each recursive doEncode call is
// the result of appendPath, or the path it was given.
func ruleH7(c *Ctx) {
	r := c.R
	r.Rule("H7", "every name component of -o=shell goes through appendPath", 2)
	fn := c.libFunc("shellVariablesEncoder.doEncode")
	if fn == nil {
		r.Fatal("anchor missing: (*shellVariablesEncoder).doEncode")
		return
	}
	// every call of doEncode in the module that does not pass a constant (the
	// root call passes ""), in source order; the calls may sit in doEncode itself
	// or in helpers it delegates a node kind to
	var calls []*ssa.Call
	for _, g := range c.moduleFuncs() {
		eachInstr(g, func(ins ssa.Instruction) {
			call, ok := ins.(*ssa.Call)
			if !ok || call.Call.StaticCallee() != fn {
				return
			}
			if _, isConst := call.Call.Args[len(call.Call.Args)-1].(*ssa.Const); isConst {
				return
			}
			calls = append(calls, call)
		})
	}
	sort.Slice(calls, func(i, j int) bool { return calls[i].Pos() < calls[j].Pos() })
	// okPath: v is appendPath(…), the root "", or a path parameter that only ever receives such values
	var okPath func(v ssa.Value, seen map[ssa.Value]bool) bool
	okPath = func(v ssa.Value, seen map[ssa.Value]bool) bool {
		if seen[v] {
			return true
		}
		seen[v] = true
		switch x := v.(type) {
		case *ssa.Const:
			return x.Value != nil && x.Value.Kind() == constant.String && constant.StringVal(x.Value) == ""
		case *ssa.Call:
			return x.Call.StaticCallee() != nil && x.Call.StaticCallee().Name() == "appendPath"
		case *ssa.Parameter:
			g := x.Parent()
			if g == fn {
				return true // what doEncode receives is what its callers pass: each call is an obligation of this rule
			}
			return callersEstablish(g, func(call *ssa.CallCommon, at *ssa.BasicBlock) bool {
				a := argOf(call, g, x)
				return a != nil && okPath(a, seen)
			})
		}
		return false
	}
	n := 0
	for _, call := range calls {
		n++
		arg := call.Call.Args[len(call.Call.Args)-1]
		key := fmt.Sprintf("doEncode/recursive-call#%d", n)
		if okPath(arg, map[ssa.Value]bool{}) {
			r.Discharge("H7", key, c.P.pos(call.Pos()), "child name = appendPath(path, component), or the path handed down unchanged")
		} else {
			r.Finding("H7", key, c.P.pos(call.Pos()), "the name of a child is built as "+exprOfValue(arg)+" without appendPath: a component that is the first of the name (a root sequence index, a digit-leading key) is not prefixed and the line is no longer NAME=VALUE with a legal NAME")
		}
	}
	if n == 0 {
		r.Undecided("H7", "doEncode/recursive-call", c.P.pos(fn.Pos()), "doEncode no longer calls itself for children: shape not recognised")
	}
}
