package main

import (
	"encoding/json"
	"fmt"
	"os"
	"path/filepath"
	"sort"
	"strings"
	"time"
)

// An Oblig is one thing a rule had to decide: a call site, a store, a table
// row, a pair of sibling functions. Its Key is stable under edits elsewhere:
// rule / enclosing function / construct — never a line number.
type Oblig struct {
	Rule    string `json:"rule"`
	Key     string `json:"key"`
	Pos     string `json:"pos"`
	Verdict string `json:"verdict"` // discharged | finding | undecided
	Reason  string `json:"reason"`
	Path    string `json:"path,omitempty"` // call path / witness
}

type ruleStat struct {
	Rule        string `json:"rule"`
	Doc         string `json:"doc"`
	Instances   int    `json:"instances"`
	Discharged  int    `json:"discharged"`
	Findings    int    `json:"findings"`
	Known       int    `json:"known"`
	Undecided   int    `json:"undecided"`
	MinExpected int    `json:"min_expected"`
}

type Report struct {
	Property    string
	Tier        string
	Seed        int
	Explanation string
	obligs      []Oblig
	rules       map[string]*ruleStat
	ruleOrder   []string
	Notes       []string
	Assumptions []string
	Analysed    map[string]interface{}
	fatal       []string
	keySeen     map[string]int
	start       time.Time
}

func newReport(prop, tier string, seed int) *Report {
	return &Report{Property: prop, Tier: tier, Seed: seed, Notes: []string{}, Assumptions: []string{}, rules: map[string]*ruleStat{}, Analysed: map[string]interface{}{}, keySeen: map[string]int{}, start: time.Now()}
}

// Rule declares a rule, its one-line doc and the minimum number of
// obligations it must produce (confirmed by hand on the pinned tree).
func (r *Report) Rule(id, doc string, min int) {
	if _, ok := r.rules[id]; !ok {
		r.rules[id] = &ruleStat{Rule: id, Doc: doc, MinExpected: min}
		r.ruleOrder = append(r.ruleOrder, id)
	}
}

func (r *Report) add(rule, key, pos, verdict, reason, path string) {
	if _, ok := r.rules[rule]; !ok {
		r.Rule(rule, "", 0)
	}
	full := rule + "/" + key
	r.keySeen[full]++
	if n := r.keySeen[full]; n > 1 {
		key = fmt.Sprintf("%s#%d", key, n)
	}
	r.obligs = append(r.obligs, Oblig{Rule: rule, Key: key, Pos: pos, Verdict: verdict, Reason: reason, Path: path})
}

func (r *Report) Discharge(rule, key, pos, reason string) {
	r.add(rule, key, pos, "discharged", reason, "")
}
func (r *Report) Finding(rule, key, pos, reason string) { r.add(rule, key, pos, "finding", reason, "") }
func (r *Report) FindingPath(rule, key, pos, reason, path string) {
	r.add(rule, key, pos, "finding", reason, path)
}
func (r *Report) Undecided(rule, key, pos, reason string) {
	r.add(rule, key, pos, "undecided", reason, "")
}
func (r *Report) Note(format string, a ...interface{}) {
	r.Notes = append(r.Notes, fmt.Sprintf(format, a...))
}
func (r *Report) Assume(s string) { r.Assumptions = append(r.Assumptions, s) }

// Fatal records a condition under which no verdict can be given (missing
// anchor, instance count below the confirmed minimum ...): exit 2.
func (r *Report) Fatal(format string, a ...interface{}) {
	r.fatal = append(r.fatal, fmt.Sprintf(format, a...))
}

// ---- known findings -------------------------------------------------------

type knownEntry struct {
	Property string `json:"property"`
	Rule     string `json:"rule"`
	Key      string `json:"key"`
	Status   string `json:"status"` // known | fixed
	What     string `json:"what"`
	Repro    string `json:"repro,omitempty"`
	Commit   string `json:"commit,omitempty"`
}

func loadKnown(path string) ([]knownEntry, error) {
	b, err := os.ReadFile(path)
	if err != nil {
		if os.IsNotExist(err) {
			return nil, nil
		}
		return nil, err
	}
	var f struct {
		Findings []knownEntry `json:"findings"`
	}
	if err := json.Unmarshal(b, &f); err != nil {
		return nil, fmt.Errorf("%s: %w", path, err)
	}
	return f.Findings, nil
}

// Finish prints the verdict lines, writes evidence and replay files and
// returns the process exit code.
func (r *Report) Finish(verifDir string, evidencePath string, known []knownEntry, checkerCmd string) int {
	knownIdx := map[string]knownEntry{}
	for _, k := range known {
		if k.Property == r.Property && k.Status == "known" {
			knownIdx[k.Rule+"/"+k.Key] = k
		}
	}
	var violations, knowns, undecided []Oblig
	for i := range r.obligs {
		o := &r.obligs[i]
		st := r.rules[o.Rule]
		st.Instances++
		switch o.Verdict {
		case "discharged":
			st.Discharged++
		case "undecided":
			st.Undecided++
			undecided = append(undecided, *o)
		case "finding":
			st.Findings++
			if k, ok := knownIdx[o.Rule+"/"+o.Key]; ok {
				st.Known++
				o.Verdict = "known-finding"
				o.Reason += " [known: " + k.What + "]"
				knowns = append(knowns, *o)
			} else {
				violations = append(violations, *o)
			}
		}
	}
	for _, id := range r.ruleOrder {
		st := r.rules[id]
		if st.Instances < st.MinExpected {
			r.Fatal("rule %s produced %d obligations, fewer than the %d confirmed by hand: an anchor moved or the rule went blind", id, st.Instances, st.MinExpected)
		}
	}
	// stale known entries: informational
	reported := map[string]bool{}
	for _, o := range knowns {
		reported[o.Rule+"/"+o.Key] = true
	}
	for k, e := range knownIdx {
		if !reported[k] {
			r.Note("known finding no longer reported (repaired or moved?): %s — %s", k, e.What)
		}
	}

	outDir := filepath.Join(verifDir, "out", r.Property)
	if alt := os.Getenv("YQCHECK_OUT"); alt != "" || os.Getenv("YQCHECK_NESTED") != "" {
		// nested (variant / replay) runs must not disturb the replay files of the main run
		if alt == "" {
			alt = os.TempDir()
		}
		outDir = filepath.Join(alt, "yqcheck-out-"+r.Property)
	}
	os.RemoveAll(outDir)
	exit := 0
	fmt.Printf("== %s tier=%s: %d obligations over %d rules\n", r.Property, r.Tier, len(r.obligs), len(r.ruleOrder))
	for _, id := range r.ruleOrder {
		st := r.rules[id]
		fmt.Printf("   rule %-4s instances=%-4d discharged=%-4d findings=%d (known %d) undecided=%d min=%d  %s\n", st.Rule, st.Instances, st.Discharged, st.Findings, st.Known, st.Undecided, st.MinExpected, st.Doc)
	}
	for _, n := range r.Notes {
		fmt.Printf("   note: %s\n", n)
	}
	for _, o := range knowns {
		fmt.Printf("KNOWN-FINDING: property=%s %s/%s at %s: %s\n", r.Property, o.Rule, o.Key, o.Pos, o.Reason)
	}
	if len(violations) > 0 {
		os.MkdirAll(outDir, 0o755)
		for i, o := range violations {
			p := filepath.Join(outDir, fmt.Sprintf("%d.txt", i+1))
			body := fmt.Sprintf("property: %s\nrule: %s (%s)\nkey: %s\nposition: %s\nreason: %s\n", r.Property, o.Rule, r.rules[o.Rule].Doc, o.Key, o.Pos, o.Reason)
			if o.Path != "" {
				body += "path:\n" + o.Path + "\n"
			}
			body += "re-run: " + checkerCmd + "\n"
			os.WriteFile(p, []byte(body), 0o644)
			fmt.Printf("   %s/%s at %s: %s\n", o.Rule, o.Key, o.Pos, o.Reason)
			fmt.Printf("VIOLATION property=%s replay=%s\n", r.Property, p)
		}
		exit = 1
	}
	if len(undecided) > 0 || len(r.fatal) > 0 {
		for _, o := range undecided {
			fmt.Printf("UNDECIDED %s/%s at %s: %s\n", o.Rule, o.Key, o.Pos, o.Reason)
		}
		for _, f := range r.fatal {
			fmt.Printf("FATAL %s\n", f)
		}
		if exit == 0 {
			exit = 2
		}
	}

	// evidence
	discharged := 0
	for _, o := range r.obligs {
		if o.Verdict == "discharged" {
			discharged++
		}
	}
	var stats []ruleStat
	for _, id := range r.ruleOrder {
		stats = append(stats, *r.rules[id])
	}
	samples := r.sampleObligs(60)
	distinct := map[string]bool{}
	for _, o := range r.obligs {
		distinct[o.Rule+"/"+o.Key] = true
	}
	cov := map[string]interface{}{
		"explanation":         r.Explanation,
		"obligations":         len(r.obligs),
		"discharged":          discharged,
		"known_findings":      len(knowns),
		"new_findings":        len(violations),
		"undecided":           len(undecided),
		"evaluations":         len(r.obligs),
		"distinct_nontrivial": len(distinct),
		"rule":                "one obligation per rule instance found in /repo's current source (call site, store, table row, function pair); distinct = distinct rule/function/construct keys; every obligation is non-trivial in that the rule had to inspect source to decide it",
		"rules":               stats,
		"samples":             samples,
		"checker_cmd":         checkerCmd,
		"trusted_base":        []string{"go/types + go/packages loader (x/tools v0.29.0)", "go/ssa construction", "this checker's rule implementations"},
		"analysed":            r.Analysed,
		"notes":               r.Notes,
		"fatal":               r.fatal,
		"exhaustive":          false,
	}
	ev := map[string]interface{}{
		"property_id": r.Property,
		"tier":        r.Tier,
		"seed":        r.Seed,
		"level":       "other",
		"coverage":    cov,
		"assumptions": r.Assumptions,
		"wall_s":      float64(int(time.Since(r.start).Seconds()*100)) / 100,
		"violations":  len(violations),
	}
	if evidencePath != "" {
		os.MkdirAll(filepath.Dir(evidencePath), 0o755)
		b, _ := json.MarshalIndent(ev, "", " ")
		if err := os.WriteFile(evidencePath, append(b, '\n'), 0o644); err != nil {
			fmt.Printf("FATAL cannot write evidence: %v\n", err)
			if exit == 0 {
				exit = 2
			}
		}
	}
	fmt.Printf("== %s: exit %d (%d discharged, %d known findings, %d violations, %d undecided) %.1fs\n", r.Property, exit, discharged, len(knowns), len(violations), len(undecided), time.Since(r.start).Seconds())
	return exit
}

// sampleObligs picks obligations for the evidence file: all non-discharged
// ones first, then a spread of discharged ones over all rules.
func (r *Report) sampleObligs(max int) []Oblig {
	var out []Oblig
	for _, o := range r.obligs {
		if o.Verdict != "discharged" {
			out = append(out, o)
		}
	}
	per := map[string]int{}
	var rest []Oblig
	for _, o := range r.obligs {
		if o.Verdict == "discharged" {
			per[o.Rule]++
			if per[o.Rule] <= 4 {
				rest = append(rest, o)
			}
		}
	}
	sort.SliceStable(rest, func(i, j int) bool { return rest[i].Rule < rest[j].Rule })
	out = append(out, rest...)
	if len(out) > max && max > 0 {
		// keep all non-discharged, trim the rest
		n := 0
		for _, o := range out {
			if o.Verdict != "discharged" {
				n++
			}
		}
		if n < max {
			out = out[:max]
		} else {
			out = out[:n]
		}
	}
	return out
}

func joinSorted(m map[string]bool) string {
	var s []string
	for k := range m {
		s = append(s, k)
	}
	sort.Strings(s)
	return strings.Join(s, ", ")
}
