package main

import (
	"fmt"
	"go/token"
	"go/types"
	"strings"

	"golang.org/x/tools/go/ssa"
)

// C15 — one consistent total order. O1: comparators touch values only through
// comparisons (no ordering by arithmetic difference); O2: no panic reachable
// from a comparator; O3: node arrays are sorted with a stable sort.

func init() {
	register("C15", "Decides structural necessary conditions of 'sort/min/max/< agree on one total preorder, stable, never panicking': (O1) in every function reachable from a sort.Interface Less method or from the COMPARE/MIN/MAX handlers, and in every module function, no ordering decision is derived from the sign of an integer difference (overflow breaks antisymmetry); (O2) no explicit panic is reachable from those comparator roots; (O3) every sort of non-basic elements uses a stable algorithm (sort.Stable / sort.SliceStable / slices.SortStableFunc); (O4) the sorted result is rebuilt from every element of the sorted array (the adding loop has no element-dependent filter). (O10) the glob matcher `==` uses on strings is unreachable from the functions that order two given nodes. Does NOT decide transitivity across tag classes nor agreement of the two hand-written comparators.", runC15)
}

// comparatorRoots: Less methods of module types implementing sort.Interface
// and the handlers of COMPARE / MIN / MAX.
func comparatorRoots(c *Ctx) []*ssa.Function {
	var roots []*ssa.Function
	for _, fn := range c.moduleFuncs() {
		if fn.Name() == "Less" && fn.Signature.Recv() != nil && fn.Signature.Params().Len() == 2 && fn.Signature.Results().Len() == 1 {
			roots = append(roots, fn)
		}
	}
	if c.tables() {
		for _, ty := range []string{"COMPARE", "MIN", "MAX"} {
			if o := c.Ops.byType(ty); o != nil && o.Handler != nil {
				if f := c.P.SSA.FuncValue(o.Handler); f != nil {
					roots = append(roots, f)
				}
			}
		}
	}
	return roots
}

func runC15(c *Ctx) {
	r := c.R
	r.Rule("O1", "no ordering decision from the sign of an integer difference", 10)
	r.Rule("O2", "no explicit panic reachable from a comparator", 4)
	r.Rule("O3", "sorts of nodes are stable", 1)
	r.Rule("O4", "sorted result rebuilt from every element (no filter in the adding loop)", 2)
	r.Rule("O5", "sort and the comparison operators parse numbers the same way", 1)

	r.Rule("O6", "Less decides only through the comparator: it compares no node text itself", 1)
	for _, fn := range c.moduleFuncs() {
		if fn.Name() != "Less" || fn.Signature.Recv() == nil {
			continue
		}
		key := funcKey(fn) + "/raw-text"
		bad := ""
		eachInstr(fn, func(ins ssa.Instruction) {
			bo, ok := ins.(*ssa.BinOp)
			if !ok {
				return
			}
			isText := func(v ssa.Value) bool {
				u, ok := v.(*ssa.UnOp)
				if !ok {
					return false
				}
				fa, ok := u.X.(*ssa.FieldAddr)
				return ok && structNameOfPtr(fa.X.Type()) == "CandidateNode" && fieldName(fa) == "Value"
			}
			if isText(bo.X) && isText(bo.Y) {
				bad = c.P.pos(bo.Pos())
			}
		})
		if bad == "" {
			r.Discharge("O6", key, c.P.pos(fn.Pos()), "no comparison of two nodes' Value text inside Less; the order comes from compare()")
		} else {
			r.Finding("O6", key, bad, "Less compares the Value text of the two nodes itself: scalars with the same spelling but different tags (\"null\" and null, \"true\" and true, \"1\" and 1) are then ordered without their type, which breaks `null < booleans < numbers < strings` and transitivity")
		}
	}

	ruleS6(c, "O7")
	ruleO8(c, "O8")

	roots := comparatorRoots(c)
	if len(roots) < 4 {
		r.Fatal("anchor missing: expected Less method(s) and COMPARE/MIN/MAX handlers as comparator roots, found %d", len(roots))
		return
	}
	// Static reachability (direct calls, closures created, function values
	// referenced). Sub-expression evaluation is not part of comparing two values:
	// the dynamic dispatch of GetMatchingNodes is a barrier, and dynamic calls of
	// callback parameters are not followed (the callbacks created by the roots
	// themselves are reached through their MakeClosure).
	kind := "static"
	reach := staticReach(c, roots, func(f *ssa.Function) bool { return f.Name() == "GetMatchingNodes" })
	r.Analysed["comparator_roots"] = len(roots)
	r.Analysed["functions_reachable_from_comparators"] = len(reach)
	r.Analysed["callgraph"] = kind

	// O1 over all module functions; obligations are numeric ordering sites
	for _, fn := range c.moduleFuncs() {
		_, inCmp := reach[fn]
		eachInstr(fn, func(ins ssa.Instruction) {
			bo, ok := ins.(*ssa.BinOp)
			if !ok {
				return
			}
			if isOrderOp(bo.Op) && isNumericType(bo.X.Type()) && !isConst(bo.X) && !isConst(bo.Y) && inCmp {
				key := fmt.Sprintf("%s/%s %s %s", funcKey(fn), exprOfValue(bo.X), bo.Op, exprOfValue(bo.Y))
				if isDifference(bo.X) || isDifference(bo.Y) {
					r.Finding("O1", key, c.P.pos(bo.Pos()), "ordering comparison on an arithmetic difference")
				} else {
					r.Discharge("O1", key, c.P.pos(bo.Pos()), "operands compared directly")
				}
				return
			}
			if bo.Op != token.SUB || !isIntegerType(bo.Type()) || isConst(bo.X) || isConst(bo.Y) {
				return
			}
			// x - y : does its sign decide something?
			why := signDecides(c, fn, bo)
			if why == "" {
				return
			}
			key := fmt.Sprintf("%s/%s - %s", funcKey(fn), exprOfValue(bo.X), exprOfValue(bo.Y))
			r.Finding("O1", key, c.P.pos(bo.Pos()), "order derived from the sign of an integer difference ("+why+"): overflows for operands more than 2^63 apart, so the order is not antisymmetric")
		})
	}

	// O10: the order never asks the pattern matcher. `==` on strings is a glob match (`"abc" == "a*"`),
	// which is not an equivalence; an ordering operator that consults it stops being antisymmetric.
	r.Rule("O10", "no comparator reaches the glob matcher that `==` uses on strings", 1)
	{
		// from the functions that decide the order of two given nodes (not from the handlers, which
		// also splat and traverse their operand): Less methods, the closure built by compare, compareScalars
		var pairRoots []*ssa.Function
		for _, fn := range c.moduleFuncs() {
			switch {
			case fn.Name() == "Less" && fn.Signature.Recv() != nil,
				fn.Name() == "compareScalars",
				fn.Name() == "compare" && fn.Parent() == nil, // the factory: what it captures for its closure is called from the closure
				fn.Parent() != nil && fn.Parent().Name() == "compare":
				pairRoots = append(pairRoots, fn)
			}
		}
		if len(pairRoots) < 2 {
			r.Fatal("anchor missing: expected Less, compareScalars and the closure of compare as pairwise comparators, found %d", len(pairRoots))
		}
		pairReach := staticReach(c, pairRoots, func(f *ssa.Function) bool { return f.Name() == "GetMatchingNodes" })
		var glob *ssa.Function
		for fn := range pairReach {
			if fn.Name() == "matchKey" || fn.Name() == "deepMatch" {
				glob = fn
			}
		}
		reach := pairReach
		if glob == nil {
			r.Discharge("O10", "comparators/no-glob-match", "-", fmt.Sprintf("matchKey / deepMatch are not among the %d functions reachable from the %d pairwise comparators", len(pairReach), len(pairRoots)))
		} else {
			r.FindingPath("O10", "comparators/no-glob-match", c.P.pos(glob.Pos()), "an ordering operator reaches the glob matcher "+glob.Name()+": `a <= b` then holds for a pattern b that matches a, whatever their order — the order is no longer antisymmetric and disagrees with sort", pathTo(reach, glob))
		}
	}
	// O2
	for fn := range reach {
		eachInstr(fn, func(ins ssa.Instruction) {
			if pn, ok := ins.(*ssa.Panic); ok {
				key := fmt.Sprintf("%s/panic(%s)", funcKey(fn), exprOfValue(pn.X))
				r.FindingPath("O2", key, c.P.pos(ins.Pos()), "explicit panic reachable from a comparator: a value that does not parse aborts the process", pathTo(reach, fn))
			}
		})
	}
	for _, root := range roots {
		r.Discharge("O2", "root "+funcKey(root), c.P.pos(root.Pos()), fmt.Sprintf("comparator root; %d module functions reachable, explicit panics listed separately", len(reach)))
	}

	ruleO3(c)
	checkO4(c)
	checkO5(c, reach)
}

// checkO5: the comparator behind sort and the comparator behind < <= > >= min
// max read numbers with the same parsing functions (sibling agreement): if
// one of them parsed `010` or `0x1F` differently the two orders would disagree.
func checkO5(c *Ctx, reach map[*ssa.Function]*ssa.Function) {
	r := c.R
	sortCmp := c.libFunc("sortableNodeArray.compare")
	opCmp := c.libFunc("compareScalars")
	if sortCmp == nil || opCmp == nil {
		r.Fatal("anchor missing: sortableNodeArray.compare / compareScalars")
		return
	}
	parsers := func(fn *ssa.Function) map[string]bool {
		out := map[string]bool{}
		eachInstr(fn, func(ins ssa.Instruction) {
			if cc := callCommon(ins); cc != nil {
				n := shortCallee(calleeName(cc))
				l := strings.ToLower(n)
				if (strings.Contains(l, "parseint") || strings.Contains(l, "parsefloat") || strings.Contains(l, "parseuint") || strings.Contains(l, "atoi")) && !strings.Contains(l, "datetime") {
					out[n] = true
				}
			}
		})
		return out
	}
	a, b := parsers(sortCmp), parsers(opCmp)
	key := "compare~compareScalars/number-parsing"
	if joinSorted(a) == joinSorted(b) && len(a) > 0 {
		r.Discharge("O5", key, c.P.pos(sortCmp.Pos()), "both comparators read numbers with {"+joinSorted(a)+"}")
	} else {
		r.Finding("O5", key, c.P.pos(sortCmp.Pos()), fmt.Sprintf("the sort comparator reads numbers with {%s} but the comparison operators with {%s}: one spelling (e.g. 010, 0x1F, 1_000) is ordered differently by sort than by < / min / max", joinSorted(a), joinSorted(b)))
	}
}

func ruleO3(c *Ctx) {
	r := c.R
	nsort := 0
	for _, fn := range c.moduleFuncs() {
		eachInstr(fn, func(ins ssa.Instruction) {
			cc := callCommon(ins)
			if cc == nil {
				return
			}
			name := calleeName(cc)
			stable := map[string]bool{"sort.Stable": true, "sort.SliceStable": true, "slices.SortStableFunc": true}
			unstable := map[string]bool{"sort.Sort": true, "sort.Slice": true, "slices.Sort": true, "slices.SortFunc": true}
			basicOK := map[string]bool{"sort.Strings": true, "sort.Ints": true, "sort.Float64s": true}
			if !stable[name] && !unstable[name] && !basicOK[name] {
				return
			}
			nsort++
			key := fmt.Sprintf("%s/%s(%s)", funcKey(fn), name, exprOfValue(cc.Args[0]))
			switch {
			case stable[name]:
				r.Discharge("O3", key, c.P.pos(ins.Pos()), "stable sort")
			case basicOK[name]:
				r.Discharge("O3", key, c.P.pos(ins.Pos()), "sort of basic values: equal elements are indistinguishable")
			default:
				if elemIsBasic(cc.Args[0]) {
					r.Discharge("O3", key, c.P.pos(ins.Pos()), "unstable sort of basic values: equal elements are indistinguishable")
				} else {
					r.Finding("O3", key, c.P.pos(ins.Pos()), "unstable sort of structured elements: equal elements lose their input order (pdqsort is unstable beyond 12 elements)")
				}
			}
		})
	}
	if nsort == 0 {
		r.Fatal("anchor missing: no sort call found in the module")
	}
}

func isDifference(v ssa.Value) bool {
	switch x := v.(type) {
	case *ssa.BinOp:
		return x.Op == token.SUB && !isConst(x.X) && !isConst(x.Y) && isIntegerType(x.Type())
	case *ssa.Convert:
		return isDifference(x.X)
	}
	return false
}

func elemIsBasic(v ssa.Value) bool {
	t := v.Type()
	if mi, ok := v.(*ssa.MakeInterface); ok {
		t = mi.X.Type()
	}
	switch u := t.Underlying().(type) {
	case *types.Slice:
		_, ok := u.Elem().Underlying().(*types.Basic)
		return ok
	}
	return false
}

// signDecides: the difference is compared with zero here, or returned from a
// function whose callers compare the result with zero.
func signDecides(c *Ctx, fn *ssa.Function, diff *ssa.BinOp) string {
	why := ""
	returned := false
	flowUses(diff, 0, map[ssa.Value]bool{}, func(ins ssa.Instruction, v ssa.Value) {
		switch x := ins.(type) {
		case *ssa.BinOp:
			if (isOrderOp(x.Op)) && (isZeroConst(x.X) || isZeroConst(x.Y)) {
				why = "compared with 0 in " + funcKey(fn)
			}
		case *ssa.Return:
			returned = true
		}
	})
	if why != "" || !returned {
		return why
	}
	// callers comparing fn's result with zero
	for _, g := range c.moduleFuncs() {
		eachInstr(g, func(ins ssa.Instruction) {
			call, ok := ins.(*ssa.Call)
			if !ok || call.Call.StaticCallee() != fn {
				return
			}
			flowUses(call, 0, map[ssa.Value]bool{}, func(u ssa.Instruction, v ssa.Value) {
				if x, ok := u.(*ssa.BinOp); ok && isOrderOp(x.Op) && (isZeroConst(x.X) || isZeroConst(x.Y)) {
					why = "returned by " + funcKey(fn) + " and compared with 0 in " + funcKey(g)
				}
			})
		})
	}
	return why
}

// checkO4: in the function that calls the stable sort on the node array, the
// loops that add the sorted elements to the result add every element: the
// Add* call is not control-dependent on a condition that reads the element.
func checkO4(c *Ctx) {
	r := c.R
	for _, fn := range c.moduleFuncs() {
		var sortCall ssa.Instruction
		var sorted ssa.Value
		eachInstr(fn, func(ins ssa.Instruction) {
			if cc := callCommon(ins); cc != nil {
				n := calleeName(cc)
				if (n == "sort.Stable" || n == "sort.Sort") && !elemIsBasic(cc.Args[0]) {
					sortCall = ins
					sorted = cc.Args[0]
					if mi, ok := sorted.(*ssa.MakeInterface); ok {
						sorted = mi.X
					}
				}
			}
		})
		if sortCall == nil {
			continue
		}
		n := checkO4Adds(c, funcKey(fn), fn, sorted, sortCall.Block())
		if n == 0 {
			// the rebuild may sit in a helper that is handed the sorted array
			eachInstr(fn, func(ins ssa.Instruction) {
				call, ok := ins.(*ssa.Call)
				if !ok || !sortCall.Block().Dominates(call.Block()) {
					return
				}
				h := call.Call.StaticCallee()
				if h == nil || h.Blocks == nil || !strings.HasPrefix(funcKey(h), "yqlib.") {
					return
				}
				for ai, a := range call.Call.Args {
					if sameLenBase(a, sorted) && ai < len(h.Params) {
						n += checkO4Adds(c, funcKey(fn), h, h.Params[ai], nil)
					}
				}
			})
		}
		if n == 0 {
			r.Undecided("O4", funcKey(fn)+"/no-add", c.P.pos(sortCall.Pos()), "no AddChild / AddKeyValueChild of the sorted elements found after the sort, here or in a helper that is handed the sorted array: shape not recognised")
		}
	}
}

// checkO4Adds: the Add* calls in fn (after block `after`, when given) that rebuild
// the result from the sorted array; returns how many were judged.
func checkO4Adds(c *Ctx, keyFn string, fn *ssa.Function, sorted ssa.Value, after *ssa.BasicBlock) int {
	r := c.R
	n := 0
	eachInstr(fn, func(ins ssa.Instruction) {
		cc := callCommon(ins)
		if cc == nil {
			return
		}
		cal := cc.StaticCallee()
		if cal == nil || (cal.Name() != "AddChild" && cal.Name() != "AddKeyValueChild") {
			return
		}
		if after != nil && !after.Dominates(ins.Block()) {
			return
		}
		n++
		key := fmt.Sprintf("%s/%s", keyFn, cal.Name())
		bad := ""
		dominatingConds(ins.Block(), func(cond ssa.Value, taken bool, at *ssa.BasicBlock) {
			if after != nil && (!after.Dominates(at) || at == after) {
				return
			}
			if dependsOnElement(cond, sorted, 0) {
				bad = "condition at " + c.P.pos(cond.Pos()) + " reads the sorted element"
			}
		})
		if bad == "" {
			r.Discharge("O4", key, c.P.pos(ins.Pos()), "every element of the sorted array is added (no element-dependent filter)")
		} else {
			r.Finding("O4", key, c.P.pos(ins.Pos()), "sorted elements are filtered while rebuilding the result: output is not a permutation of the input ("+bad+")")
		}
	})
	return n
}

// dependsOnElement: cond is computed from an element loaded from the sorted slice.
func dependsOnElement(v ssa.Value, sorted ssa.Value, depth int) bool {
	if depth > 10 {
		return false
	}
	switch x := v.(type) {
	case *ssa.IndexAddr:
		return sameLenBase(x.X, sorted) || dependsOnElement(x.X, sorted, depth+1)
	case *ssa.Index:
		return sameLenBase(x.X, sorted)
	case *ssa.UnOp:
		return dependsOnElement(x.X, sorted, depth+1)
	case *ssa.FieldAddr:
		return dependsOnElement(x.X, sorted, depth+1)
	case *ssa.Field:
		return dependsOnElement(x.X, sorted, depth+1)
	case *ssa.BinOp:
		return dependsOnElement(x.X, sorted, depth+1) || dependsOnElement(x.Y, sorted, depth+1)
	case *ssa.Call:
		for _, a := range x.Call.Args {
			if dependsOnElement(a, sorted, depth+1) {
				return true
			}
		}
		if x.Call.IsInvoke() {
			return dependsOnElement(x.Call.Value, sorted, depth+1)
		}
	case *ssa.Extract:
		return dependsOnElement(x.Tuple, sorted, depth+1)
	case *ssa.Next:
		return dependsOnElement(x.Iter, sorted, depth+1)
	case *ssa.Range:
		return sameLenBase(x.X, sorted)
	case *ssa.Phi:
		for _, e := range x.Edges {
			if e != v && dependsOnElement(e, sorted, depth+1) {
				return true
			}
		}
	}
	return false
}
