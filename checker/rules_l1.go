package main

import (
	"fmt"
	"go/token"
	"go/types"

	"golang.org/x/tools/go/ssa"
)

// Rule L1 — stale length.
//
// `n := len(x.Content)` is a snapshot. When x.Content may grow or shrink
// afterwards (a store to x.Content, x.AddChild…, or a call that hands x to a
// function that resizes its Content) and n is used again without having been
// taken anew, the padding / bounds arithmetic done with n no longer describes
// x. The rule reports every use of such a snapshot that a resize can reach
// without passing through the snapshot's definition again.
//
// The resize summaries (which function resizes which parameter's Content) are
// computed from the code to a fixed point; nothing is tabulated.

type resizeKey struct {
	fn  *ssa.Function
	arg int // index into fn.Params
}

type resizeInfo struct {
	c   *Ctx
	sum map[resizeKey]bool
}

func isNodePtr(t types.Type) bool {
	return structNameOfPtr(t) == "CandidateNode"
}

// contentAddrBase: for `&x.Content` returns x.
func contentAddrBase(v ssa.Value) ssa.Value {
	if fa, ok := v.(*ssa.FieldAddr); ok && fieldName(fa) == "Content" && isNodePtr(fa.X.Type()) {
		return fa.X
	}
	return nil
}

func paramIndex(fn *ssa.Function, v ssa.Value) int {
	for i, p := range fn.Params {
		if p == v {
			return i
		}
	}
	return -1
}

func newResizeInfo(c *Ctx) *resizeInfo {
	ri := &resizeInfo{c: c, sum: map[resizeKey]bool{}}
	funcs := c.moduleFuncs()
	for changed := true; changed; {
		changed = false
		for _, fn := range funcs {
			eachInstr(fn, func(ins ssa.Instruction) {
				for _, x := range ri.resized(ins) {
					if i := paramIndex(fn, x); i >= 0 && !ri.sum[resizeKey{fn, i}] {
						ri.sum[resizeKey{fn, i}] = true
						changed = true
					}
				}
			})
		}
	}
	return ri
}

// resized: the node values whose Content this instruction may resize.
func (ri *resizeInfo) resized(ins ssa.Instruction) []ssa.Value {
	switch x := ins.(type) {
	case *ssa.Store:
		if b := contentAddrBase(x.Addr); b != nil {
			// `x.Content = x.Content[:k]`/append/… — any store may change the length
			return []ssa.Value{b}
		}
	case *ssa.Call:
		callee := x.Call.StaticCallee()
		if callee == nil {
			return nil
		}
		if callee.Origin() != nil {
			callee = callee.Origin()
		}
		var out []ssa.Value
		for i, a := range x.Call.Args {
			if ri.sum[resizeKey{callee, i}] {
				out = append(out, a)
			}
		}
		return out
	}
	return nil
}

type staleSite struct {
	fn       *ssa.Function
	lenCall  *ssa.Call
	resize   ssa.Instruction
	use      ssa.Instruction
	baseExpr string
}

// lenOfContent: `len(*(&x.Content))` → x
func lenOfContent(ins ssa.Instruction) (ssa.Value, *ssa.Call) {
	call, ok := ins.(*ssa.Call)
	if !ok {
		return nil, nil
	}
	b, ok := call.Call.Value.(*ssa.Builtin)
	if !ok || b.Name() != "len" {
		return nil, nil
	}
	u, ok := call.Call.Args[0].(*ssa.UnOp)
	if !ok {
		return nil, nil
	}
	if base := contentAddrBase(u.X); base != nil {
		return base, call
	}
	return nil, nil
}

// staleLengthSites lists, per function, the snapshot uses a resize can reach.
// Also returns how many snapshots were examined.
func staleLengthSites(c *Ctx, ri *resizeInfo, fn *ssa.Function) (sites []staleSite, snapshots int) {
	type snap struct {
		base ssa.Value
		call *ssa.Call
	}
	var snaps []snap
	var resizes []struct {
		ins  ssa.Instruction
		base ssa.Value
	}
	eachInstr(fn, func(ins ssa.Instruction) {
		if b, call := lenOfContent(ins); b != nil {
			snaps = append(snaps, snap{b, call})
		}
		for _, b := range ri.resized(ins) {
			resizes = append(resizes, struct {
				ins  ssa.Instruction
				base ssa.Value
			}{ins, b})
		}
	})
	for _, s := range snaps {
		refs := s.call.Referrers()
		if refs == nil {
			continue
		}
		snapshots++
		uses := map[ssa.Instruction]bool{}
		// a phi use happens at the end of the corresponding predecessor
		phiUseAtEndOf := map[*ssa.BasicBlock]ssa.Instruction{}
		for _, u := range *refs {
			if _, isDbg := u.(*ssa.DebugRef); isDbg {
				continue
			}
			if phi, ok := u.(*ssa.Phi); ok {
				for i, e := range phi.Edges {
					if e == s.call {
						phiUseAtEndOf[phi.Block().Preds[i]] = phi
					}
				}
				continue
			}
			uses[u] = true
		}
		for _, m := range resizes {
			if m.base != s.base {
				continue
			}
			if use := reachesUseAvoidingDef(m.ins, s.call, uses, phiUseAtEndOf); use != nil {
				sites = append(sites, staleSite{fn, s.call, m.ins, use, exprOfValue(s.base)})
				break
			}
		}
	}
	return sites, snapshots
}

// reachesUseAvoidingDef walks the CFG forward from just after `from`; a path
// ends at `def`; the first use met is returned.
func reachesUseAvoidingDef(from ssa.Instruction, def ssa.Instruction, uses map[ssa.Instruction]bool, phiUse map[*ssa.BasicBlock]ssa.Instruction) ssa.Instruction {
	scan := func(b *ssa.BasicBlock, start int) (found ssa.Instruction, blocked bool) {
		for i := start; i < len(b.Instrs); i++ {
			ins := b.Instrs[i]
			if ins == def {
				return nil, true
			}
			if uses[ins] {
				return ins, false
			}
		}
		if p, ok := phiUse[b]; ok {
			return p, false
		}
		return nil, false
	}
	b := from.Block()
	start := 0
	for i, ins := range b.Instrs {
		if ins == from {
			start = i + 1
		}
	}
	if u, blocked := scan(b, start); u != nil {
		return u
	} else if blocked {
		return nil
	}
	seen := map[*ssa.BasicBlock]bool{}
	work := append([]*ssa.BasicBlock(nil), b.Succs...)
	for len(work) > 0 {
		nb := work[len(work)-1]
		work = work[:len(work)-1]
		if seen[nb] {
			continue
		}
		seen[nb] = true
		u, blocked := scan(nb, 0)
		if u != nil {
			return u
		}
		if blocked {
			continue
		}
		work = append(work, nb.Succs...)
	}
	return nil
}

// l1Accepted: snapshots that are meant to be stale, one line of reason each.
var l1Accepted = map[string]string{}

func ruleL1(c *Ctx, rule string, min int) {
	r := c.R
	r.Rule(rule, "a length snapshot of a node's Content is not used after the Content may have been resized", min)
	ri := newResizeInfo(c)
	total := 0
	for _, fn := range c.moduleFuncs() {
		sites, n := staleLengthSites(c, ri, fn)
		total += n
		bad := map[*ssa.Call]staleSite{}
		for _, s := range sites {
			bad[s.lenCall] = s
		}
		seenKey := map[string]int{}
		eachInstr(fn, func(ins ssa.Instruction) {
			b, call := lenOfContent(ins)
			if b == nil || call.Referrers() == nil {
				return
			}
			key := fmt.Sprintf("%s/len(%s.Content)", funcKey(fn), exprOfValue(b))
			seenKey[key]++
			if seenKey[key] > 1 {
				key = fmt.Sprintf("%s#%d", key, seenKey[key])
			}
			if s, isBad := bad[call]; isBad {
				if why, ok := l1Accepted[key]; ok {
					r.Discharge(rule, key, c.P.pos(call.Pos()), "accepted: "+why)
					return
				}
				r.Finding(rule, key, c.P.pos(call.Pos()), fmt.Sprintf("the length taken here is used again at %s after %s.Content may have been resized at %s, without being taken anew: padding and bounds arithmetic run on a stale length", c.P.pos(nearestPos(s.use)), s.baseExpr, c.P.pos(s.resize.Pos())))
			} else {
				r.Discharge(rule, key, c.P.pos(call.Pos()), "no resize of the node's Content reaches a later use of this snapshot")
			}
		})
	}
	_ = total
}

// nearestPos: the position of ins, or of the closest positioned instruction of its block.
func nearestPos(ins ssa.Instruction) token.Pos {
	if ins.Pos().IsValid() {
		return ins.Pos()
	}
	b := ins.Block()
	at := -1
	for i, x := range b.Instrs {
		if x == ins {
			at = i
		}
	}
	for d := 1; d < len(b.Instrs); d++ {
		for _, j := range []int{at + d, at - d} {
			if j >= 0 && j < len(b.Instrs) && b.Instrs[j].Pos().IsValid() {
				return b.Instrs[j].Pos()
			}
		}
	}
	return token.NoPos
}
