package main

import (
	"regexp/syntax"
	"sort"
	"unicode"
)

// Facts about the language of a lexer rule's regular expression, computed on
// its syntax tree: the length of the shortest match, and a bounded set of
// sample strings covering every alternative and both "absent" and "present"
// for every optional / repeated part.

func minLenRegex(pattern string) (int, bool) {
	re, err := syntax.Parse(pattern, syntax.Perl)
	if err != nil {
		return 0, false
	}
	return minLenNode(re.Simplify()), true
}

func minLenNode(re *syntax.Regexp) int {
	switch re.Op {
	case syntax.OpLiteral:
		return len(string(re.Rune)) // bytes
	case syntax.OpCharClass, syntax.OpAnyCharNotNL, syntax.OpAnyChar:
		return 1
	case syntax.OpCapture:
		return minLenNode(re.Sub[0])
	case syntax.OpStar, syntax.OpQuest, syntax.OpEmptyMatch, syntax.OpBeginLine, syntax.OpEndLine, syntax.OpBeginText, syntax.OpEndText, syntax.OpWordBoundary, syntax.OpNoWordBoundary:
		return 0
	case syntax.OpPlus:
		return minLenNode(re.Sub[0])
	case syntax.OpRepeat:
		return re.Min * minLenNode(re.Sub[0])
	case syntax.OpConcat:
		n := 0
		for _, s := range re.Sub {
			n += minLenNode(s)
		}
		return n
	case syntax.OpAlternate:
		m := -1
		for _, s := range re.Sub {
			if l := minLenNode(s); m < 0 || l < m {
				m = l
			}
		}
		if m < 0 {
			m = 0
		}
		return m
	}
	return 0
}

func samplesRegex(pattern string, limit int) []string {
	re, err := syntax.Parse(pattern, syntax.Perl)
	if err != nil {
		return nil
	}
	out := sampleNode(re, limit)
	sort.Strings(out)
	return uniq(out)
}

func sampleNode(re *syntax.Regexp, limit int) []string {
	cap := func(s []string) []string {
		if len(s) > limit {
			return s[:limit]
		}
		return s
	}
	switch re.Op {
	case syntax.OpLiteral:
		return []string{string(re.Rune)}
	case syntax.OpCharClass:
		var out []string
		// first rune of the first and last range, plus a space / tab if the class has them
		if len(re.Rune) >= 2 {
			out = append(out, string(re.Rune[0]), string(re.Rune[len(re.Rune)-2]))
		}
		for _, ch := range []rune{' ', '\t', '0', 'a'} {
			for i := 0; i+1 < len(re.Rune); i += 2 {
				if re.Rune[i] <= ch && ch <= re.Rune[i+1] {
					out = append(out, string(ch))
				}
			}
		}
		return cap(uniqStrings(out))
	case syntax.OpAnyCharNotNL, syntax.OpAnyChar:
		return []string{"x"}
	case syntax.OpCapture:
		return sampleNode(re.Sub[0], limit)
	case syntax.OpStar, syntax.OpQuest:
		return cap(append([]string{""}, sampleNode(re.Sub[0], limit)...))
	case syntax.OpPlus:
		sub := sampleNode(re.Sub[0], limit)
		out := append([]string{}, sub...)
		if len(sub) > 0 {
			out = append(out, sub[0]+sub[len(sub)-1])
		}
		return cap(out)
	case syntax.OpRepeat:
		sub := sampleNode(re.Sub[0], limit)
		if len(sub) == 0 {
			return []string{""}
		}
		s := ""
		for i := 0; i < re.Min; i++ {
			s += sub[0]
		}
		return []string{s}
	case syntax.OpConcat:
		out := []string{""}
		for _, sn := range re.Sub {
			sub := sampleNode(sn, limit)
			if len(sub) == 0 {
				continue
			}
			var next []string
			for _, a := range out {
				for _, b := range sub {
					next = append(next, a+b)
					if len(next) >= limit {
						break
					}
				}
				if len(next) >= limit {
					break
				}
			}
			out = next
		}
		return out
	case syntax.OpAlternate:
		var out []string
		for _, sn := range re.Sub {
			out = append(out, sampleNode(sn, limit)...)
		}
		return cap(out)
	}
	return []string{""}
}

func uniqStrings(s []string) []string {
	seen := map[string]bool{}
	var out []string
	for _, x := range s {
		if !seen[x] {
			seen[x] = true
			out = append(out, x)
		}
	}
	return out
}

// firstRunes: the set of runes a match of re can begin with (nullable parts are skipped over).
func firstRunes(re *syntax.Regexp) (set runeSet, nullable bool) {
	switch re.Op {
	case syntax.OpEmptyMatch, syntax.OpBeginLine, syntax.OpEndLine, syntax.OpBeginText, syntax.OpEndText, syntax.OpWordBoundary, syntax.OpNoWordBoundary:
		return nil, true
	case syntax.OpLiteral:
		if len(re.Rune) == 0 {
			return nil, true
		}
		r := re.Rune[0]
		s := rsRange(r, r)
		if re.Flags&syntax.FoldCase != 0 {
			for f := unicode.SimpleFold(r); f != r; f = unicode.SimpleFold(f) {
				s = s.union(rsRange(f, f))
			}
		}
		return s, false
	case syntax.OpCharClass:
		var s runeSet
		for i := 0; i+1 < len(re.Rune); i += 2 {
			s = s.union(rsRange(re.Rune[i], re.Rune[i+1]))
		}
		return s, false
	case syntax.OpAnyChar, syntax.OpAnyCharNotNL:
		return rsAll(), false
	case syntax.OpCapture:
		return firstRunes(re.Sub[0])
	case syntax.OpStar, syntax.OpQuest:
		s, _ := firstRunes(re.Sub[0])
		return s, true
	case syntax.OpPlus:
		return firstRunes(re.Sub[0])
	case syntax.OpRepeat:
		s, n := firstRunes(re.Sub[0])
		return s, n || re.Min == 0
	case syntax.OpConcat:
		var s runeSet
		for _, sub := range re.Sub {
			fs, n := firstRunes(sub)
			s = s.union(fs)
			if !n {
				return s, false
			}
		}
		return s, true
	case syntax.OpAlternate:
		var s runeSet
		null := false
		for _, sub := range re.Sub {
			fs, n := firstRunes(sub)
			s = s.union(fs)
			null = null || n
		}
		return s, null
	}
	return nil, false
}

// optionalSuffixRunes: when the pattern ends in an optional / repeated class
// (`=[c]*`, `\*[\+|\?cdn]*`), the runes of that class; nil otherwise.
func optionalSuffixRunes(re *syntax.Regexp) runeSet {
	for re.Op == syntax.OpCapture {
		re = re.Sub[0]
	}
	last := re
	if re.Op == syntax.OpConcat && len(re.Sub) > 0 {
		last = re.Sub[len(re.Sub)-1]
	} else if re.Op != syntax.OpStar && re.Op != syntax.OpQuest {
		return nil
	}
	switch last.Op {
	case syntax.OpStar, syntax.OpQuest:
		s, _ := firstRunes(last.Sub[0])
		return s
	case syntax.OpRepeat:
		if last.Min == 0 {
			s, _ := firstRunes(last.Sub[0])
			return s
		}
	}
	return nil
}
