package main

import (
	"fmt"
	"go/ast"
	"go/token"
	"go/types"
	"sort"
	"strings"

	"golang.org/x/tools/go/ssa"
)

// C18 — determinism and independence of earlier / concurrent runs.

func init() {
	register("C18", "Decides structural necessary conditions of 'an evaluation does not depend on what was parsed or evaluated before, and concurrent evaluations do not race': (G1, engine E1) no function reachable from the evaluation entry points (expression parsing, every operator handler, codec and printer methods, evaluator constructors and methods) stores to a package-level variable or through a pointer/slice/map loaded from one — with no goroutines and no sync primitives in the module except the sync.Once start-up initialiser, that is also the sufficient condition for 'separate evaluators do not race on module memory'; (G2) no stateful Decoder/Encoder instance is created in a package-level initialiser or stored in the lexer rule table (shared by every expression); (G3 = C10-S3) the parsed expression tree carries no state between evaluations; (G4) time.Now / math/rand / os.Getenv-family calls occur only in the operators the property excludes (now, shuffle, env, envsubst, strenv) and in cmd start-up; (G5) no range over a Go map reaches output order. (G9) a field an encoder receives anew for every result is stored on every path of the receiving method. Does NOT decide races inside third-party packages nor byte determinism of the emitters.", runC18)
}

func evaluationEntryPoints(c *Ctx) []*ssa.Function {
	m := c.fx()
	pk := c.P.lib()
	var roots []*ssa.Function
	add := func(fn *ssa.Function) {
		if fn != nil && m.inSet[fn] {
			roots = append(roots, fn)
		}
	}
	for _, h := range c.handlerRoots() {
		add(h.Fn)
	}
	ifaces := []string{"Decoder", "Encoder", "Printer", "PrinterWriter", "Evaluator", "StreamEvaluator", "StringEvaluator", "ExpressionParserInterface", "DataTreeNavigator", "expressionTokeniser", "expressionPostFixer"}
	for _, fn := range m.funcs {
		if funcPkgPath(fn) != pk.PkgPath || fn.Parent() != nil {
			continue
		}
		if recv := fn.Signature.Recv(); recv != nil {
			for _, in := range ifaces {
				obj := pk.Types.Scope().Lookup(in)
				if obj == nil {
					continue
				}
				if it, ok := obj.Type().Underlying().(*types.Interface); ok && types.Implements(recv.Type(), it) {
					// only the methods of the interface
					for i := 0; i < it.NumMethods(); i++ {
						if it.Method(i).Name() == fn.Name() {
							add(fn)
						}
					}
				}
			}
			continue
		}
		// exported constructors of evaluators / codecs / printer
		if ast.IsExported(fn.Name()) && strings.HasPrefix(fn.Name(), "New") {
			add(fn)
		}
	}
	return roots
}

func runC18(c *Ctx) {
	r := c.R
	r.Rule("G1", "no evaluation-time write to process-global state", 150)
	r.Rule("G2", "no stateful codec instance in package-level / lexer-table initialisers", 100)
	r.Rule("G3", "the parsed expression tree carries no state between evaluations", 100)
	r.Rule("G4", "time / random / environment are read only by the excluded operators and start-up code", 5)
	r.Rule("G5", "no map iteration order reaches output", 1)
	r.Rule("G6", "a reused decoder starts clean: fields written by Decode are reset by Init", 8)
	m := c.fx()

	// ---- G7 -----------------------------------------------------------------
	// Token post-processing writes into the Operation a token carries
	// (UpdateAssign, and the parser keeps the object in the tree). An Operation
	// built once per lexer rule and handed to every token of that rule is state
	// shared between all expressions ever parsed in the process.
	r.Rule("G7", "every lexer action allocates the Operation objects of its token itself", 100)
	if c.tables() {
		for _, lr := range c.Lex.Rules {
			for ti, t := range lr.Tokens {
				key := fmt.Sprintf("rule[%q]/token#%d", lr.Pattern, ti)
				if len(t.Shared) == 0 {
					r.Discharge("G7", key, c.P.pos(lr.Pos), "Operation / AssignOperation are allocated per token inside "+t.Fn)
				} else {
					r.Finding("G7", key, c.P.pos(lr.Pos), fmt.Sprintf("the token's Operation object %s is shared by every token this rule emits; handleToken writes UpdateAssign into it, so parsing one expression changes trees parsed earlier (eval, load-time parses, later documents)", strings.Join(t.Shared, ", ")))
				}
			}
		}
	}

	ruleB1(c, "G8", 2)
	ruleG9(c, "G9")
	ruleG10(c, "G10")

	// ---- G1 -----------------------------------------------------------------
	roots := evaluationEntryPoints(c)
	r.Analysed["evaluation_entry_points"] = len(roots)
	type gfind struct {
		e      *mutEffect
		roots  []string
		single string
	}
	singletons := singletonTypes(c, m)
	r.Analysed["process_wide_singleton_types"] = fmt.Sprint(keysOf(singletons))
	byKey := map[string]*gfind{}
	for _, root := range roots {
		s := m.sums[root]
		n := 0
		for _, e := range s.muts {
			if e.Base.o.kind != kGlobal {
				continue
			}
			// the global logger and third-party registries are not module state
			if e.Base.o.g.Pkg == nil || !c.P.isModulePath(e.Base.o.g.Pkg.Pkg.Path()) {
				continue
			}
			if m.onceFuncs[e.SiteFn] {
				continue
			}
			n++
			k := fmt.Sprintf("%s/%s.%s", e.Base.o.g.Name(), funcKey(e.SiteFn), e.Field)
			g := byKey[k]
			if g == nil {
				g = &gfind{e: e}
				byKey[k] = g
			}
			g.roots = append(g.roots, funcKey(root))
		}
		// container updates (map entries, slice elements) inside objects held by a package-level variable
		for _, pe := range s.puts {
			if pe.Base.o.kind != kGlobal || pe.Site == nil {
				continue
			}
			if pe.Base.o.g.Pkg == nil || !c.P.isModulePath(pe.Base.o.g.Pkg.Pkg.Path()) {
				continue
			}
			siteFn := pe.Site.Parent()
			if m.onceFuncs[siteFn] {
				continue
			}
			n++
			k := fmt.Sprintf("%s/%s.[]", pe.Base.o.g.Name(), funcKey(siteFn))
			g := byKey[k]
			if g == nil {
				g = &gfind{e: &mutEffect{Base: pe.Base, Site: pe.Site, SiteFn: siteFn, Field: "[]"}}
				byKey[k] = g
			}
			g.roots = append(g.roots, funcKey(root))
		}
		// methods of the process-wide singletons (objects built under sync.Once and kept in a
		// package-level variable: the expression parser, its lexer and postfixer): their receiver
		// IS shared state, so a write through it is a write through that variable
		if recv := root.Signature.Recv(); recv != nil && singletons[namedTypeName(recv.Type())] {
			record := func(base ref, site ssa.Instruction, field string) {
				if base.o.kind != kParam || base.o.idx != 0 || site == nil {
					return
				}
				n++
				k := fmt.Sprintf("singleton %s/%s.%s", namedTypeName(recv.Type()), funcKey(site.Parent()), field)
				g := byKey[k]
				if g == nil {
					g = &gfind{e: &mutEffect{Base: base, Site: site, SiteFn: site.Parent(), Field: field}, single: namedTypeName(recv.Type())}
					byKey[k] = g
				}
				g.roots = append(g.roots, funcKey(root))
			}
			for _, e := range s.muts {
				record(e.Base, e.Site, e.Field)
			}
			for _, pe := range s.puts {
				record(pe.Base, pe.Site, "[]")
			}
		}
		if n == 0 {
			r.Discharge("G1", "entry "+funcKey(root), c.P.pos(root.Pos()), "no store to a package-level variable (or through one) is reachable")
		}
	}
	var keys []string
	for k := range byKey {
		keys = append(keys, k)
	}
	sort.Strings(keys)
	for _, k := range keys {
		g := byKey[k]
		sort.Strings(g.roots)
		rs := uniq(g.roots)
		if len(rs) > 6 {
			rs = append(rs[:6], fmt.Sprintf("… %d more", len(rs)-6))
		}
		if g.single != "" {
			r.FindingPath("G1", k, c.P.pos(g.e.Site.Pos()), fmt.Sprintf("the process-wide %s (built once, kept in a package-level variable and shared by every evaluator) is written while it is used (reachable from %s): parsing one expression depends on earlier ones and concurrent evaluators race on it", g.single, strings.Join(rs, ", ")), g.e.Chain)
			continue
		}
		r.FindingPath("G1", k, c.P.pos(g.e.Site.Pos()), fmt.Sprintf("package-level variable %s is written during evaluation (reachable from %s): results can depend on earlier evaluations and concurrent evaluations race on it", g.e.Base.o.g.Name(), strings.Join(rs, ", ")), g.e.Chain)
	}
	for fn := range m.onceFuncs {
		r.Discharge("G1", "once "+funcKey(fn), c.P.pos(fn.Pos()), "global initialisation runs under sync.Once (start-up phase, synchronised)")
	}

	// ---- G2 -----------------------------------------------------------------
	ruleG2(c)
	// ---- G3 -----------------------------------------------------------------
	ruleS3(c, "G3")
	// ---- G4 -----------------------------------------------------------------
	ruleG4(c)
	// ---- G5 -----------------------------------------------------------------
	ruleG5(c)
	// ---- G6 (= C10-S4) ------------------------------------------------------
	ruleS4(c, "G6")
}

// ruleG2: values of a type implementing Decoder/Encoder must not be created
// by package-level initialisers (var x = NewXDecoder(), lexer rule table).
func ruleG2(c *Ctx) {
	r := c.R
	pk := c.P.lib()
	dec, _ := pk.Types.Scope().Lookup("Decoder").Type().Underlying().(*types.Interface)
	enc, _ := pk.Types.Scope().Lookup("Encoder").Type().Underlying().(*types.Interface)
	if dec == nil || enc == nil {
		r.Fatal("anchor missing: interfaces Decoder / Encoder")
		return
	}
	isCodec := func(t types.Type) bool {
		if t == nil {
			return false
		}
		if _, isFunc := t.Underlying().(*types.Signature); isFunc {
			return false
		}
		return types.Implements(t, dec) || types.Implements(t, enc) || types.Identical(t.Underlying(), dec) || types.Identical(t.Underlying(), enc)
	}
	// package-level var initialisers of every module package
	for _, p := range c.P.modulePackages() {
		for _, f := range p.Syntax {
			for _, d := range f.Decls {
				gd, ok := d.(*ast.GenDecl)
				if !ok || gd.Tok != token.VAR {
					continue
				}
				for _, sp := range gd.Specs {
					vs := sp.(*ast.ValueSpec)
					for i, val := range vs.Values {
						name := "_"
						if i < len(vs.Names) {
							name = vs.Names[i].Name
						}
						n := 0
						ast.Inspect(val, func(nd ast.Node) bool {
							if _, isLit := nd.(*ast.FuncLit); isLit {
								return false // runs later, per call
							}
							call, ok := nd.(*ast.CallExpr)
							if !ok {
								return true
							}
							if tv, ok := p.TypesInfo.Types[call]; ok && isCodec(tv.Type) {
								n++
								r.Finding("G2", fmt.Sprintf("%s/%s", name, types.ExprString(call.Fun)), c.P.pos(call.Pos()), fmt.Sprintf("a stateful %s is created when package variable %s is initialised and is shared by every expression / evaluation that reaches it: concurrent evaluations race on its state", tv.Type.String(), name))
							}
							return true
						})
						if n == 0 && name != "participleYqRules" {
							r.Discharge("G2", "var "+p.Types.Name()+"."+name, c.P.pos(val.Pos()), "initialiser creates no Decoder/Encoder instance")
						}
					}
				}
			}
		}
	}
	// lexer rule table rows: checked above through the participleYqRules initialiser;
	// count rows whose action captures a codec instance
	if c.tables() {
		for _, lr := range c.Lex.Rules {
			key := fmt.Sprintf("lexer-rule[%q]", lr.Pattern)
			bad := ""
			if lr.Action != nil {
				for _, a := range lr.Action.env {
					if a != nil && a.typ != nil && isCodec(a.typ) {
						bad = a.typ.String()
					}
				}
			}
			if bad == "" {
				r.Discharge("G2", key, c.P.pos(lr.Pos), "rule action captures no codec instance")
			}
		}
	}
}

func ruleG4(c *Ctx) {
	r := c.R
	nondet := func(name string) bool {
		for _, p := range []string{"time.Now", "time.Since", "math/rand.", "math/rand/v2.", "crypto/rand.", "os.Getenv", "os.LookupEnv", "os.Environ", "os.ExpandEnv", "os.Getpid", "os.Hostname"} {
			if strings.HasPrefix(name, p) {
				return true
			}
		}
		return false
	}
	// operators excluded by the property: handlers of NOW, SHUFFLE, ENV, ENVSUBST (+ FROM_UNIX/TO_UNIX use no clock)
	allowedRoots := []*ssa.Function{}
	for _, h := range c.handlerRoots() {
		for _, t := range h.Types {
			if t == "NOW" || t == "SHUFFLE" || t == "ENV" || t == "ENVSUBST" {
				allowedRoots = append(allowedRoots, h.Fn)
			}
		}
	}
	allowed := staticReach(c, allowedRoots, func(f *ssa.Function) bool { return f.Name() == "GetMatchingNodes" })
	for _, fn := range c.moduleFuncs() {
		eachInstr(fn, func(ins ssa.Instruction) {
			cc := callCommon(ins)
			if cc == nil {
				return
			}
			name := calleeName(cc)
			if !nondet(name) {
				return
			}
			key := fmt.Sprintf("%s/%s", funcKey(fn), name)
			_, ok := allowed[fn]
			switch {
			case g4Accepted[key] != "":
				r.Discharge("G4", key, c.P.pos(ins.Pos()), "accepted: "+g4Accepted[key])
			case ok:
				r.Discharge("G4", key, c.P.pos(ins.Pos()), "inside an operator the property excludes (now / shuffle / env / envsubst)")
			case funcPkgPath(fn) == cmdPath || funcPkgPath(fn) == modPath:
				r.Discharge("G4", key, c.P.pos(ins.Pos()), "command start-up (flag handling), not evaluation")
			default:
				r.Finding("G4", key, c.P.pos(ins.Pos()), "a source of non-determinism (clock / random / environment) is read outside the operators the property excludes: output can differ between runs")
			}
		})
	}
}

func ruleG5(c *Ctx) {
	r := c.R
	n := 0
	for _, fn := range c.moduleFuncs() {
		if funcPkgPath(fn) != c.P.LibPath {
			continue
		}
		eachInstr(fn, func(ins ssa.Instruction) {
			rg, ok := ins.(*ssa.Range)
			if !ok {
				return
			}
			if _, isMap := rg.X.Type().Underlying().(*types.Map); !isMap {
				return
			}
			n++
			key := fmt.Sprintf("%s/range %s", funcKey(fn), exprOfValue(rg.X))
			// acceptable when every iteration only writes into another map (order-insensitive)
			orderFree := true
			var next *ssa.Next
			for _, ref := range *rg.Referrers() {
				if nx, ok := ref.(*ssa.Next); ok {
					next = nx
				}
			}
			if next != nil {
				loopBlocks := map[*ssa.BasicBlock]bool{}
				for _, b := range fn.Blocks {
					if next.Block().Dominates(b) && reaches(b, next.Block()) {
						loopBlocks[b] = true
					}
				}
				for b := range loopBlocks {
					for _, i2 := range b.Instrs {
						switch y := i2.(type) {
						case *ssa.Call:
							nm := calleeName(&y.Call)
							if strings.Contains(nm, "PushBack") && !mapIterationLocalList(y) {
								orderFree = false
							}
							if strings.Contains(nm, "Write") || strings.Contains(nm, "Fprint") || strings.Contains(nm, "AddChild") {
								orderFree = false
							}
							if b, ok := y.Call.Value.(*ssa.Builtin); ok && b.Name() == "append" {
								orderFree = false
							}
						}
					}
				}
			}
			if orderFree {
				r.Discharge("G5", key, c.P.pos(rg.Pos()), "the loop body only fills another map / per-key lists: iteration order is not observable")
			} else {
				r.Finding("G5", key, c.P.pos(rg.Pos()), "iteration over a Go map feeds an ordered container or a writer: output order differs from run to run")
			}
		})
	}
	if n == 0 {
		r.Discharge("G5", "no-map-range", "-", "no range over a map in yqlib")
	}
}

// mapIterationLocalList: PushBack onto a list created inside the same loop
// iteration (per-key list), which is then stored into a map.
func mapIterationLocalList(call *ssa.Call) bool {
	if len(call.Call.Args) == 0 {
		return false
	}
	if c2, ok := call.Call.Args[0].(*ssa.Call); ok && calleeName(&c2.Call) == "container/list.New" {
		return call.Block().Parent() == c2.Block().Parent()
	}
	return false
}

var g4Accepted = map[string]string{
	"yqlib.parseUnixTime/time.Now": "the clock value is returned only together with a non-nil error and the callers discard it",
}

// singletonTypes: named struct types of the module allocated (directly or in a
// constructor called, two levels deep) by a function that runs under
// sync.Once: the objects the process keeps one instance of.
func singletonTypes(c *Ctx, m *mutfx) map[string]bool {
	out := map[string]bool{}
	var scan func(fn *ssa.Function, d int)
	seen := map[*ssa.Function]bool{}
	scan = func(fn *ssa.Function, d int) {
		if fn == nil || fn.Blocks == nil || seen[fn] || d > 3 {
			return
		}
		seen[fn] = true
		eachInstr(fn, func(ins ssa.Instruction) {
			switch x := ins.(type) {
			case *ssa.Alloc:
				if n := structNameOfPtr(x.Type()); n != "" && c.P.isModulePath(funcPkgPath(fn)) {
					if nt, ok := x.Type().Underlying().(*types.Pointer); ok {
						if named, ok := nt.Elem().(*types.Named); ok && named.Obj().Pkg() != nil && c.P.isModulePath(named.Obj().Pkg().Path()) {
							out[n] = true
						}
					}
				}
			case *ssa.Call:
				if callee := x.Call.StaticCallee(); callee != nil && c.P.isModulePath(funcPkgPath(callee)) {
					scan(callee, d+1)
				}
			}
		})
	}
	for fn := range m.onceFuncs {
		scan(fn, 0)
	}
	return out
}
