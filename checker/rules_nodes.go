package main

import (
	"fmt"
	"go/constant"
	"go/token"
	"go/types"
	"sort"
	"strings"

	"golang.org/x/tools/go/ssa"
)

// Rules about the node primitives (UpdateFrom, delete, Copy, AddChild …) for
// C02, C03, C04, C07 and C16. They read engine E1's summaries and the SSA of
// the primitives themselves.

func (c *Ctx) sumOf(name string) (*ssa.Function, *summary) {
	fn := c.libFunc(name)
	if fn == nil {
		return nil, nil
	}
	return fn, c.fx().sums[fn]
}

func sortedMuts(s *summary) []*mutEffect {
	var out []*mutEffect
	for _, e := range s.muts {
		out = append(out, e)
	}
	sort.Slice(out, func(i, j int) bool { return out[i].key() < out[j].key() })
	return out
}

// ---- U1/U2: UpdateFrom / UpdateAttributesFrom ---------------------------------

func ruleU1U2(c *Ctx, u1, u2 string) {
	r := c.R
	for _, name := range []string{"CandidateNode.UpdateFrom", "CandidateNode.UpdateAttributesFrom"} {
		fn, s := c.sumOf(name)
		if s == nil {
			r.Fatal("anchor missing: (*CandidateNode).%s", name)
			continue
		}
		seen := map[string]bool{}
		for _, e := range sortedMuts(s) {
			key := fmt.Sprintf("%s/%s.%s", funcKey(fn), funcKey(e.SiteFn), e.Field)
			if seen[key] {
				continue
			}
			seen[key] = true
			// U2: receiver-confined footprint
			if e.Base.o.kind == kParam && e.Base.o.idx == 0 && !e.Base.deep && !e.Base.back {
				r.Discharge(u2, key, c.P.pos(e.Site.Pos()), "writes field "+e.Field+" of the receiver itself")
			} else if e.Base.o.kind == kGlobal {
				continue
			} else {
				r.FindingPath(u2, key, c.P.pos(e.Site.Pos()), fmt.Sprintf("assignment primitive writes field %s of %s, not of the node being assigned: a path that is neither prefix nor extension of the target changes (frame condition)", e.Field, e.Base), e.Chain)
			}
			// U1: nothing of `other` is stored into the receiver except the Alias pointer
			shared := ""
			for v := range e.Vals {
				if v.o.kind == kParam && v.o.idx == 1 && !v.back {
					shared = v.String()
				}
			}
			k1 := key + " value"
			switch {
			case shared == "":
				r.Discharge(u1, k1, c.P.pos(e.Site.Pos()), "stored value is fresh / scalar / the receiver's own content")
			case e.Field == "Alias":
				r.Discharge(u1, k1, c.P.pos(e.Site.Pos()), "the alias target is shared by design (an alias is a reference)")
			default:
				r.FindingPath(u1, k1, c.P.pos(e.Site.Pos()), fmt.Sprintf("nodes of the assigned value (%s) are stored into the target without being copied: source and target share children, so a later update of one changes the other (p = q | q.x = 1 changes p)", shared), e.Chain)
			}
		}
	}
	// U5: UpdateFrom replaces kind, content and value on every path (except self-assignment)
	fn := c.libFunc("CandidateNode.UpdateFrom")
	if fn == nil {
		return
	}
	for _, field := range []string{"Content", "Kind", "Value"} {
		isStore := func(ins ssa.Instruction) bool {
			st, ok := ins.(*ssa.Store)
			if !ok {
				return false
			}
			fa, ok := st.Addr.(*ssa.FieldAddr)
			return ok && fa.X == ssa.Value(fn.Params[0]) && fieldName(fa) == field
		}
		missing := ""
		for _, b := range fn.Blocks {
			ret, ok := b.Instrs[len(b.Instrs)-1].(*ssa.Return)
			if !ok {
				continue
			}
			self := false
			dominatingConds(b, func(cond ssa.Value, taken bool, at *ssa.BasicBlock) {
				if bo, ok := cond.(*ssa.BinOp); ok && bo.Op == token.EQL && taken {
					if (bo.X == ssa.Value(fn.Params[0]) && bo.Y == ssa.Value(fn.Params[1])) || (bo.Y == ssa.Value(fn.Params[0]) && bo.X == ssa.Value(fn.Params[1])) {
						self = true
					}
				}
			})
			if self {
				continue
			}
			if pathAvoiding(fn, fn.Blocks[0], 0, b, len(b.Instrs)-1, isStore) {
				missing = c.P.pos(ret.Pos())
			}
		}
		key := "UpdateFrom/always-sets " + field
		if missing == "" {
			r.Discharge(u1, key, c.P.pos(fn.Pos()), "every path (except self-assignment) stores the new "+field)
		} else {
			r.Finding(u1, key, missing, "UpdateFrom can return without replacing "+field+": after `p = v` reading p does not yield v (old children survive under the new kind)")
		}
	}
}

// ---- U4: compound assignment computes on a copy --------------------------------

func ruleU4(c *Ctx, rule string) {
	r := c.R
	fn := c.libFunc("compoundAssignFunction")
	if fn == nil {
		r.Fatal("anchor missing: compoundAssignFunction")
		return
	}
	var calcParam *ssa.Parameter
	for _, p := range fn.Params {
		if namedTypeName(p.Type()) == "compoundCalculation" {
			calcParam = p
		}
	}
	n := 0
	eachInstr(fn, func(ins ssa.Instruction) {
		call, ok := ins.(*ssa.Call)
		if !ok || calcParam == nil || call.Call.Value != ssa.Value(calcParam) || len(call.Call.Args) < 1 {
			return
		}
		n++
		// arg0: *ExpressionNode literal -> Operation literal -> CandidateNode field <- Copy()
		okCopy := false
		var walk func(v ssa.Value, d int)
		walk = func(v ssa.Value, d int) {
			if d > 6 {
				return
			}
			al, ok := v.(*ssa.Alloc)
			if !ok {
				return
			}
			for _, ref := range *al.Referrers() {
				fa, ok := ref.(*ssa.FieldAddr)
				if !ok {
					continue
				}
				for _, r2 := range *fa.Referrers() {
					st, ok := r2.(*ssa.Store)
					if !ok || st.Addr != ssa.Value(fa) {
						continue
					}
					switch fieldName(fa) {
					case "Operation":
						walk(st.Val, d+1)
					case "CandidateNode":
						if cv, ok := st.Val.(*ssa.Call); ok && cv.Call.StaticCallee() != nil && cv.Call.StaticCallee().Name() == "Copy" {
							okCopy = true
						}
					}
				}
			}
		}
		walk(call.Call.Args[0], 0)
		key := "compoundAssignFunction/calculation(lhs-copy)"
		if okCopy {
			r.Discharge(rule, key, c.P.pos(call.Pos()), "the operator is applied to a Copy() of the matched node, the assignment targets the node itself")
		} else {
			r.Finding(rule, key, c.P.pos(call.Pos()), "`p op= e` computes on the node it is about to overwrite instead of a copy: p += p and self-referential updates read half-written state")
		}
	})
	if n == 0 {
		r.Fatal("anchor moved: compoundAssignFunction no longer calls its calculation callback")
	}
}

// ---- U2b: footprint of the assign operators -------------------------------------

func ruleAssignFootprint(c *Ctx, rule string) {
	r := c.R
	m := c.fx()
	allowedSite := func(e *mutEffect) bool {
		for _, ok := range []string{"CandidateNode.UpdateFrom", "CandidateNode.UpdateAttributesFrom"} {
			if strings.Contains(e.Chain, ok) {
				return true
			}
		}
		return false
	}
	for _, h := range c.handlerRoots() {
		isAssign := false
		for _, t := range h.Types {
			if t == "ASSIGN" || t == "ASSIGN_ATTRIBUTES" {
				isAssign = true
			}
		}
		if !isAssign {
			continue
		}
		s := m.sums[h.Fn]
		seen := map[string]bool{}
		for _, e := range sortedMuts(s) {
			if e.Class != "node" || e.Base.o.kind != kParam || e.Base.o.idx == 2 {
				continue
			}
			key := effectKey(h.Fn, e)
			if seen[key] {
				continue
			}
			seen[key] = true
			switch {
			case e.Guarded:
				r.Discharge(rule, key, c.P.pos(e.Site.Pos()), "auto-creation of the addressed path, under !DontAutoCreate")
			case allowedSite(e):
				r.Discharge(rule, key, c.P.pos(e.Site.Pos()), "write to a matched target through UpdateFrom / UpdateAttributesFrom")
			default:
				r.FindingPath(rule, key, c.P.pos(e.Site.Pos()), "the assignment operator writes a node by a route other than UpdateFrom/UpdateAttributesFrom on a match or guarded auto-creation", e.Chain)
			}
		}
	}
}

// ---- P2 (C07): attribute stores of UpdateAttributesFrom are conditional --------

func ruleP2(c *Ctx, rule string) {
	r := c.R
	root := c.libFunc("CandidateNode.UpdateAttributesFrom")
	if root == nil {
		r.Fatal("anchor missing: UpdateAttributesFrom")
		return
	}
	// UpdateAttributesFrom itself and the module helpers it hands both nodes to
	// (a helper that receives the target and the new value is judged like the body)
	type target struct {
		fn       *ssa.Function
		n, other *ssa.Parameter
	}
	targets := []target{{root, root.Params[0], root.Params[1]}}
	eachInstr(root, func(ins ssa.Instruction) {
		call, ok := ins.(*ssa.Call)
		if !ok {
			return
		}
		h := call.Call.StaticCallee()
		if h == nil || h.Blocks == nil || h == root || !strings.HasPrefix(funcKey(h), "yqlib.") {
			return
		}
		var hn, ho *ssa.Parameter
		for i, a := range call.Call.Args {
			if i >= len(h.Params) {
				break
			}
			if a == ssa.Value(root.Params[0]) {
				hn = h.Params[i]
			}
			if a == ssa.Value(root.Params[1]) {
				ho = h.Params[i]
			}
		}
		// only helpers reached unconditionally are folded in: a conditional call would hide a guard
		if hn != nil && ho != nil && call.Block() != nil && blockAlwaysRuns(root, call.Block()) {
			targets = append(targets, target{h, hn, ho})
		}
	})
	for _, t := range targets {
		ruleP2In(c, rule, t.fn, t.n, t.other)
	}
}

// blockAlwaysRuns: b is on every path from entry to every return that b can reach… approximated by: b dominates every return block reachable from it and is not inside a loop.
func blockAlwaysRuns(fn *ssa.Function, b *ssa.BasicBlock) bool {
	for _, rb := range fn.Blocks {
		if _, isRet := rb.Instrs[len(rb.Instrs)-1].(*ssa.Return); isRet {
			if !b.Dominates(rb) {
				// a return that does not pass b: acceptable only if it is an early exit before b (b unreachable from it anyway)
				if pathAvoiding(fn, fn.Blocks[0], 0, rb, len(rb.Instrs)-1, func(ssa.Instruction) bool { return false }) && reaches(b, rb) {
					return false
				}
			}
		}
	}
	return true
}

func ruleP2In(c *Ctx, rule string, fn *ssa.Function, n, other *ssa.Parameter) {
	r := c.R
	loadOf := func(v ssa.Value, base ssa.Value, field string) bool {
		u, ok := v.(*ssa.UnOp)
		if !ok || u.Op != token.MUL {
			return false
		}
		fa, ok := u.X.(*ssa.FieldAddr)
		return ok && fa.X == base && fieldName(fa) == field
	}
	isEmptyStr := func(v ssa.Value) bool {
		c, ok := v.(*ssa.Const)
		return ok && c.Value != nil && c.Value.Kind() == constant.String && constant.StringVal(c.Value) == ""
	}
	eachInstr(fn, func(ins ssa.Instruction) {
		st, ok := ins.(*ssa.Store)
		if !ok {
			return
		}
		fa, ok := st.Addr.(*ssa.FieldAddr)
		if !ok || fa.X != ssa.Value(n) {
			return
		}
		field := fieldName(fa)
		key := "UpdateAttributesFrom/" + field
		guarded := false
		switch field {
		case "HeadComment", "LineComment", "FootComment":
			dominatingConds(st.Block(), func(cond ssa.Value, taken bool, at *ssa.BasicBlock) {
				if bo, ok := cond.(*ssa.BinOp); ok {
					if (loadOf(bo.X, other, field) && isEmptyStr(bo.Y)) || (loadOf(bo.Y, other, field) && isEmptyStr(bo.X)) {
						if (bo.Op == token.NEQ && taken) || (bo.Op == token.EQL && !taken) {
							guarded = true
						}
					}
				}
			})
			if guarded {
				r.Discharge(rule, key, c.P.pos(st.Pos()), "the target's "+field+" is overwritten only when the new value brings one")
			} else {
				r.Finding(rule, key, c.P.pos(st.Pos()), "the target's "+field+" is overwritten even when the assigned value has none: an update erases comments it was not asked to change")
			}
		case "Style":
			dominatingConds(st.Block(), func(cond ssa.Value, taken bool, at *ssa.BasicBlock) {
				if bo, ok := cond.(*ssa.BinOp); ok && loadOf(bo.X, n, "Style") && isZeroConst(bo.Y) {
					if (bo.Op == token.EQL && taken) || (bo.Op == token.NEQ && !taken) {
						guarded = true
					}
				}
			})
			if guarded {
				r.Discharge(rule, key, c.P.pos(st.Pos()), "the target keeps its style unless it has none")
			} else {
				r.Finding(rule, key, c.P.pos(st.Pos()), "the target's style is overwritten unconditionally by an attribute update")
			}
		case "Anchor":
			dominatingConds(st.Block(), func(cond ssa.Value, taken bool, at *ssa.BasicBlock) {
				v := cond
				if u, ok := v.(*ssa.UnOp); ok && u.Op == token.NOT {
					v, taken = u.X, !taken
				}
				if f, ok := v.(*ssa.Field); ok && fieldNameOfField(f) == "DontOverWriteAnchor" && !taken {
					guarded = true
				}
				if u, ok := v.(*ssa.UnOp); ok && u.Op == token.MUL {
					if fa2, ok := u.X.(*ssa.FieldAddr); ok && fieldName(fa2) == "DontOverWriteAnchor" && !taken {
						guarded = true
					}
				}
			})
			if guarded {
				r.Discharge(rule, key, c.P.pos(st.Pos()), "the anchor is replaced only when the preferences allow it")
			} else {
				r.Finding(rule, key, c.P.pos(st.Pos()), "the target's anchor name is overwritten although DontOverWriteAnchor is set by plain assignment")
			}
		case "Tag":
			// conditional: some path from the entry to a return avoids this store
			any := false
			for _, b := range fn.Blocks {
				if _, isRet := b.Instrs[len(b.Instrs)-1].(*ssa.Return); isRet {
					if pathAvoiding(fn, fn.Blocks[0], 0, b, len(b.Instrs)-1, func(i ssa.Instruction) bool { return i == ssa.Instruction(st) }) {
						any = true
					}
				}
			}
			if any {
				r.Discharge(rule, key, c.P.pos(st.Pos()), "the tag store is conditional (custom tags are kept unless clobbering is requested)")
			} else {
				r.Finding(rule, key, c.P.pos(st.Pos()), "the target's tag is overwritten unconditionally: custom tags are lost on update")
			}
		}
	})
}

// ---- D1/D3 (C03) -----------------------------------------------------------------

func ruleDelete(c *Ctx, d1, d3 string) {
	r := c.R
	want := map[string]map[string]bool{
		"deleteFromMap":   {"param#0/Content": true},
		"deleteFromArray": {"param#0/Content": true, "param#0.deep.nd/Value": true},
	}
	for _, name := range []string{"deleteFromMap", "deleteFromArray"} {
		fn, s := c.sumOf(name)
		if s == nil {
			r.Fatal("anchor missing: %s", name)
			continue
		}
		for _, e := range sortedMuts(s) {
			k := e.Base.String() + "/" + e.Field
			key := name + "/" + k
			if want[name][k] {
				why := "rebuilds the parent's Content"
				if e.Field == "Value" {
					why = "renumbers the index key of surviving elements"
				}
				r.Discharge(d1, key, c.P.pos(e.Site.Pos()), why)
			} else {
				r.FindingPath(d1, key, c.P.pos(e.Site.Pos()), fmt.Sprintf("delete writes field %s of %s: something other than the parent's child list (and index keys) changes", e.Field, e.Base), e.Chain)
			}
		}
		// D3: the victim is located by equality, never by pattern matching
		bad := ""
		reach := staticReach(c, []*ssa.Function{fn}, nil)
		for f := range reach {
			if f.Name() == "matchKey" || f.Name() == "keyMatches" || f.Name() == "deepMatch" {
				bad = pathTo(reach, f)
			}
		}
		eachInstr(fn, func(ins ssa.Instruction) {
			if cc := callCommon(ins); cc != nil {
				if n := calleeName(cc); strings.HasPrefix(n, "(*regexp.Regexp)") || strings.HasPrefix(n, "path.Match") || strings.HasPrefix(n, "path/filepath.Match") {
					bad = n
				}
			}
		})
		if bad == "" {
			r.Discharge(d3, name+"/exact-match", c.P.pos(fn.Pos()), "the entry to delete is found by equality on the recorded key, no glob / pattern matcher is reachable")
		} else {
			r.FindingPath(d3, name+"/exact-match", c.P.pos(fn.Pos()), "the entry to delete is found with a pattern matcher: keys containing * or ? delete their siblings", bad)
		}
		// D3(i): both sides of the deciding comparison have the same representation
		eachInstr(fn, func(ins ssa.Instruction) {
			bo, ok := ins.(*ssa.BinOp)
			if !ok || bo.Op != token.EQL {
				return
			}
			xi, yi := isInterfaceVal(bo.X), isInterfaceVal(bo.Y)
			if !xi && !yi {
				return
			}
			key := name + "/comparison-representation"
			// string == interface{}: comparable only if the dynamic type is string
			r.Finding(d3, key, c.P.pos(bo.Pos()), "the recorded key (a string) is compared with the path element as interface{}: for integer/boolean keys the dynamic type is int/bool and the comparison is never true, the selected entry survives")
		})
	}
	// deleteChildOperator: everything it writes goes through the two helpers
	fn, s := c.sumOf("deleteChildOperator")
	if s == nil {
		r.Fatal("anchor missing: deleteChildOperator")
		return
	}
	seen := map[string]bool{}
	for _, e := range sortedMuts(s) {
		if e.Class != "node" {
			continue
		}
		key := effectKey(fn, e)
		if seen[key] {
			continue
		}
		seen[key] = true
		if strings.Contains(e.Chain, "deleteFromMap") || strings.Contains(e.Chain, "deleteFromArray") {
			r.Discharge(d1, key, c.P.pos(e.Site.Pos()), "through the parent of a selected node (deleteFromMap / deleteFromArray)")
		} else {
			r.FindingPath(d1, key, c.P.pos(e.Site.Pos()), "del() writes a node by a route other than removing children from the parent of a selected node", e.Chain)
		}
	}
}

func isInterfaceVal(v ssa.Value) bool {
	_, ok := v.Type().Underlying().(interface{ NumMethods() int })
	if !ok {
		return false
	}
	if mi, isMI := v.(*ssa.MakeInterface); isMI {
		_ = mi
		return true
	}
	return true
}

// ---- M5 (C04): merge never follows aliases ---------------------------------------

// ruleM5: in the closure built by multiplyWithPrefs the preferences stored in
// the operation have TraversePrefs.DontFollowAlias == true on every path.
func ruleM5(c *Ctx, rule string) {
	r := c.R
	// every multiplyPreferences value built in the module: the lexer's factory for `*`, and any
	// literal handed to multiply / a MULTIPLY_ASSIGN operation by other code (object
	// construction, DeeplyAssign). Each must carry TraversePrefs.DontFollowAlias = true when it is used.
	n := 0
	haveFactory := false
	for _, fn := range c.moduleFuncs() {
		var cells []*ssa.Alloc
		eachInstr(fn, func(ins ssa.Instruction) {
			if al, ok := ins.(*ssa.Alloc); ok && namedTypeName(al.Type()) == "multiplyPreferences" {
				cells = append(cells, al)
			}
		})
		for ci, cell := range cells {
			// uses: loads of the whole struct (to be boxed into Operation.Preferences or passed to multiply)
			var uses []ssa.Instruction
			eachInstr(fn, func(ins ssa.Instruction) {
				if u, ok := ins.(*ssa.UnOp); ok && u.Op == token.MUL && u.X == ssa.Value(cell) {
					uses = append(uses, u)
				}
			})
			if len(uses) == 0 {
				continue
			}
			// a local that merely holds preferences received from elsewhere (a parameter, a type
			// assertion on Operation.Preferences) is not a construction site: forwarding is rule M7
			received := false
			if cell.Referrers() != nil {
				for _, ref := range *cell.Referrers() {
					if st, ok := ref.(*ssa.Store); ok && st.Addr == ssa.Value(cell) {
						if _, isConst := st.Val.(*ssa.Const); !isConst {
							received = true
						}
					}
				}
			}
			if received {
				continue
			}
			if fn.Parent() != nil && fn.Parent().Name() == "multiplyWithPrefs" {
				haveFactory = true
			}
			isSetTrue := func(ins ssa.Instruction) bool {
				st, ok := ins.(*ssa.Store)
				if !ok {
					return false
				}
				fa, ok := st.Addr.(*ssa.FieldAddr)
				if !ok || fieldName(fa) != "DontFollowAlias" {
					return false
				}
				inner, ok := fa.X.(*ssa.FieldAddr)
				if !ok || inner.X != ssa.Value(cell) || fieldName(inner) != "TraversePrefs" {
					return false
				}
				cst, ok := st.Val.(*ssa.Const)
				return ok && cst.Value != nil && cst.Value.Kind() == constant.Bool && constant.BoolVal(cst.Value)
			}
			isKill := func(ins ssa.Instruction) bool {
				st, ok := ins.(*ssa.Store)
				if !ok || isSetTrue(ins) {
					return false
				}
				if st.Addr == ssa.Value(cell) {
					return true // whole struct overwritten
				}
				if fa, ok := st.Addr.(*ssa.FieldAddr); ok {
					if fa.X == ssa.Value(cell) && fieldName(fa) == "TraversePrefs" {
						return true // whole TraversePrefs overwritten
					}
					if inner, ok := fa.X.(*ssa.FieldAddr); ok && inner.X == ssa.Value(cell) && fieldName(inner) == "TraversePrefs" && fieldName(fa) == "DontFollowAlias" {
						return true // set to something else
					}
				}
				return false
			}
			for _, u := range uses {
				n++
				key := "multiplyWithPrefs/TraversePrefs.DontFollowAlias"
				if !(fn.Parent() != nil && fn.Parent().Name() == "multiplyWithPrefs") {
					key = fmt.Sprintf("%s/multiplyPreferences#%d/TraversePrefs.DontFollowAlias", funcKey(fn), ci+1)
				}
				bad := ""
				// never set on some path from the entry
				if pathAvoiding(fn, fn.Blocks[0], 0, u.Block(), instrIndex(u), isSetTrue) {
					bad = "a path reaches the use without setting it"
				}
				// or overwritten after being set
				eachInstr(fn, func(k ssa.Instruction) {
					if isKill(k) && pathAvoiding(fn, k.Block(), instrIndex(k)+1, u.Block(), instrIndex(u), isSetTrue) {
						// the kill itself may be the initialising store that precedes the set on every path
						bad = "the store at " + c.P.pos(k.Pos()) + " overwrites the traverse preferences after / instead of setting it"
					}
				})
				if bad == "" {
					r.Discharge(rule, key, c.P.pos(u.Pos()), "on every path the merge preferences carry DontFollowAlias = true when they are used")
				} else {
					r.Finding(rule, key, c.P.pos(u.Pos()), "merge preferences are used with DontFollowAlias unset ("+bad+"): the merge then follows merge keys / aliases of the copy into the anchored map of the operand and writes there")
				}
				break // one obligation per value: its first use
			}
		}
	}
	if !haveFactory {
		r.Fatal("anchor missing: the multiplyPreferences built by the closure of multiplyWithPrefs")
	}
	_ = n
}

// ---- K-rules (C16) ------------------------------------------------------------------

func ruleK(c *Ctx, k1, k2, k3 string) {
	r := c.R
	// K2a: Copy is deep and shares nothing but Parent / Alias with the original
	for _, name := range []string{"CandidateNode.doCopy", "CandidateNode.Copy", "CandidateNode.CopyWithoutContent"} {
		fn, s := c.sumOf(name)
		if s == nil {
			r.Fatal("anchor missing: %s", name)
			continue
		}
		ri := s.results[0]
		key := funcKey(fn) + "/result-shares"
		var shared []string
		for _, set := range []oset{ri.Direct, ri.Inner, ri.InnerN, ri.InnerK} {
			for x := range set {
				if x.o.kind == kParam {
					shared = append(shared, x.String())
				}
			}
		}
		if len(shared) == 0 && ri.Fresh {
			r.Discharge(k2, key, c.P.pos(fn.Pos()), "the copy is a fresh node whose children and key are fresh too; only Parent and Alias point to the original's")
		} else {
			sort.Strings(shared)
			r.Finding(k2, key, c.P.pos(fn.Pos()), fmt.Sprintf("a copy shares %s with the original through Content/Key: renumbering or re-keying one (delete, AddChild) rewrites the path of the other", strings.Join(uniq(shared), ", ")))
		}
	}
	// K2b: AddKeyValueChild re-keys and re-parents both copies on every path
	akv := c.libFunc("CandidateNode.AddKeyValueChild")
	if akv == nil {
		r.Fatal("anchor missing: AddKeyValueChild")
	} else {
		// value.Key = key, key.SetParent(n), value.SetParent(n)
		setParent, keyStore := 0, 0
		eachInstr(akv, func(ins ssa.Instruction) {
			if call, ok := ins.(*ssa.Call); ok && call.Call.StaticCallee() != nil && call.Call.StaticCallee().Name() == "SetParent" && call.Call.Args[1] == ssa.Value(akv.Params[0]) {
				setParent++
			}
			if st, ok := ins.(*ssa.Store); ok {
				if fa, ok := st.Addr.(*ssa.FieldAddr); ok && fieldName(fa) == "Key" {
					if _, isCall := st.Val.(*ssa.Call); isCall {
						keyStore++
					}
				}
			}
		})
		single := len(akv.Blocks) == 1
		if single && setParent >= 2 && keyStore >= 1 {
			r.Discharge(k2, "AddKeyValueChild/rekeys", c.P.pos(akv.Pos()), "straight-line: both copies get Parent = the map, the value gets Key = the key copy")
		} else {
			r.Finding(k2, "AddKeyValueChild/rekeys", c.P.pos(akv.Pos()), fmt.Sprintf("AddKeyValueChild does not unconditionally re-parent (%d SetParent) and re-key (%d Key stores) the entry it adds", setParent, keyStore))
		}
	}
	// K2d: what the positioning primitives add is a full Copy() of what they are given
	for _, name := range []string{"CandidateNode.AddChild", "CandidateNode.AddKeyValueChild"} {
		fn := c.libFunc(name)
		if fn == nil {
			r.Fatal("anchor missing: %s", name)
			continue
		}
		eachInstr(fn, func(ins ssa.Instruction) {
			st, ok := ins.(*ssa.Store)
			if !ok || contentAddrBase(st.Addr) == nil {
				return
			}
			srcs := elementSources(fn, st.Val, nil, 0, map[ssa.Value]bool{})
			n := 0
			for _, s := range srcs {
				if s.kind == "child-of" {
					continue
				}
				n++
				key := fmt.Sprintf("%s/adds#%d", funcKey(fn), n)
				if s.kind == "copy" && strings.Contains(s.desc, "a Copy()") {
					r.Discharge(k2, key, c.P.pos(s.pos), "the added node is a full Copy() of the argument")
				} else {
					r.Finding(k2, key, c.P.pos(s.pos), "the node added to the container is "+s.desc+", not a full Copy() of the argument: children of a complex key / value are dropped, or the argument itself is shared with its old container")
				}
			}
		})
	}
	// K2c: CopyAsReplacement takes Parent and Key from the node it replaces
	car, cs := c.sumOf("CandidateNode.CopyAsReplacement")
	if cs == nil {
		r.Fatal("anchor missing: CopyAsReplacement")
	} else {
		ri := cs.results[0]
		hasKey, hasParent := false, false
		for x := range ri.InnerK {
			if x.o.kind == kParam && x.o.idx == 0 {
				hasKey = true
			}
		}
		for x := range ri.InnerBack {
			if x.o.kind == kParam && x.o.idx == 0 {
				hasParent = true
			}
		}
		if hasKey && hasParent {
			r.Discharge(k2, "CopyAsReplacement/position", c.P.pos(car.Pos()), "the replacement gets Parent and Key of the node it replaces")
		} else {
			r.Finding(k2, "CopyAsReplacement/position", c.P.pos(car.Pos()), "a replacement node does not take Parent/Key from the node it replaces: path/key/parent of results are wrong")
		}
	}
	// K1: AddChild establishes Parent and a position key on every path
	ac := c.libFunc("CandidateNode.AddChild")
	if ac == nil {
		r.Fatal("anchor missing: AddChild")
		return
	}
	// the branch that keeps an existing key (value.Key != nil) is the stale-index defect
	eachInstr(ac, func(ins ssa.Instruction) {
		ifi, ok := ins.(*ssa.If)
		if !ok {
			return
		}
		bo, ok := ifi.Cond.(*ssa.BinOp)
		if !ok || !isNilConst(bo.Y) {
			return
		}
		u, ok := bo.X.(*ssa.UnOp)
		if !ok {
			return
		}
		fa, ok := u.X.(*ssa.FieldAddr)
		if !ok || fieldName(fa) != "Key" {
			return
		}
		// on the "has a key" branch: is Key.Value rewritten to the new position?
		keep := ifi.Block().Succs[0]
		if bo.Op == token.EQL {
			keep = ifi.Block().Succs[1]
		}
		rewrites := false
		for _, b := range ac.Blocks {
			if !keep.Dominates(b) {
				continue
			}
			for _, i2 := range b.Instrs {
				if st, ok := i2.(*ssa.Store); ok {
					if fa2, ok := st.Addr.(*ssa.FieldAddr); ok && (fieldName(fa2) == "Value" || fieldName(fa2) == "Key") {
						rewrites = true
					}
				}
			}
		}
		if rewrites {
			r.Discharge(k1, "AddChild/position-key", c.P.pos(bo.Pos()), "a child that already has a key gets it rewritten to its new position")
		} else {
			r.Finding(k1, "AddChild/position-key", c.P.pos(bo.Pos()), "a child that already has a key keeps it when added to a new sequence: the recorded index is that of its old position (stale path/key after sort, reverse, slice, +, collect; delete locates the wrong victim)")
		}
	})
	// K1b: direct stores into Content slots store positioned nodes
	ruleK1b(c, k1)
	// K3: key / path / parent operators read only Key, Parent, IsMapKey (and Value of keys)
	for _, h := range c.handlerRoots() {
		for _, t := range h.Types {
			if t != "GET_KEY" && t != "GET_PATH" && t != "GET_PARENT" {
				continue
			}
			reach := staticReach(c, []*ssa.Function{h.Fn}, func(f *ssa.Function) bool { return f.Name() == "GetMatchingNodes" })
			fields := map[string]bool{}
			for f := range reach {
				if f.Name() == "Debugf" || strings.HasPrefix(f.Name(), "NodeToString") || strings.HasPrefix(f.Name(), "createScalarNode") || strings.HasPrefix(f.Name(), "CreateReplacement") || f.Name() == "doCopy" || f.Name() == "Copy" || f.Name() == "CopyAsReplacement" || f.Name() == "AddChild" || f.Name() == "AddChildren" || f.Name() == "AddKeyValueChild" || f.Name() == "ChildContext" {
					continue
				}
				eachInstr(f, func(ins ssa.Instruction) {
					if u, ok := ins.(*ssa.UnOp); ok && u.Op == token.MUL {
						if fa, ok := u.X.(*ssa.FieldAddr); ok && namedTypeName(fa.X.Type()) == "CandidateNode" {
							fields[fieldName(fa)] = true
						}
					}
				})
			}
			var fl []string
			extra := []string{}
			for f := range fields {
				fl = append(fl, f)
				switch f {
				case "Key", "Parent", "IsMapKey", "Value", "Tag", "Kind", "Content", "Alias":
				default:
					extra = append(extra, f)
				}
			}
			sort.Strings(fl)
			key := funcKey(h.Fn) + "/reads"
			if !fields["Key"] && t != "GET_PARENT" || !fields["Parent"] && t != "GET_KEY" {
				r.Finding(k3, key, c.P.pos(h.Fn.Pos()), fmt.Sprintf("%s no longer derives its answer from the recorded Key/Parent (reads %v)", t, fl))
			} else {
				r.Discharge(k3, key, c.P.pos(h.Fn.Pos()), fmt.Sprintf("%s is computed from the recorded position attributes (reads %v)", t, fl))
			}
			_ = extra
		}
	}
}

// ruleK1b: a value stored directly into a slot of a node's Content (outside
// the Add* API) must be positioned: produced by CopyAsReplacement /
// CreateReplacement*, or taken from a Content slice (permutation), or have its
// Parent and Key set in the same function.
func ruleK1b(c *Ctx, rule string) {
	r := c.R
	for _, fn := range c.moduleFuncs() {
		if funcPkgPath(fn) != c.P.LibPath {
			continue
		}
		eachInstr(fn, func(ins ssa.Instruction) {
			st, ok := ins.(*ssa.Store)
			if !ok {
				return
			}
			ia, ok := st.Addr.(*ssa.IndexAddr)
			if !ok || elemTypeName(ia.X.Type()) != "[]CandidateNode" {
				return
			}
			// the slice is some node's Content field
			u, ok := ia.X.(*ssa.UnOp)
			if !ok {
				return
			}
			fa, ok := u.X.(*ssa.FieldAddr)
			if !ok || fieldName(fa) != "Content" {
				return
			}
			key := fmt.Sprintf("%s/%s.Content[]=", funcKey(fn), exprOfValue(fa.X))
			why := positionedValue(st.Val, 0)
			if why == "" {
				why = createdAsChild(c, st.Val)
			}
			if why != "" {
				r.Discharge(rule, key, c.P.pos(st.Pos()), "stored child is positioned: "+why)
			} else {
				r.Finding(rule, key, c.P.pos(st.Pos()), fmt.Sprintf("a node (%s) is put directly into a Content slot without Parent/Key of that position (not produced by CopyAsReplacement / CreateReplacement, not re-keyed here): path, key and parent of the child describe where it came from", exprOfValue(st.Val)))
			}
		})
	}
}

func positionedValue(v ssa.Value, d int) string {
	if d > 6 {
		return ""
	}
	switch x := v.(type) {
	case *ssa.Call:
		if cal := x.Call.StaticCallee(); cal != nil {
			switch cal.Name() {
			case "CopyAsReplacement", "CreateReplacement", "CreateReplacementWithComments", "createBooleanCandidate":
				return "result of " + cal.Name()
			}
		}
	case *ssa.Extract:
		if call, ok := x.Tuple.(*ssa.Call); ok && call.Call.StaticCallee() != nil && call.Call.StaticCallee().Name() == "AddKeyValueChild" {
			return "result of AddKeyValueChild"
		}
	case *ssa.Phi:
		all := ""
		for _, e := range x.Edges {
			w := positionedValue(e, d+1)
			if w == "" {
				return ""
			}
			all = w
		}
		return all
	case *ssa.UnOp:
		// loaded from a Content slice / a local map of nodes (permutation of existing children)
		if ia, ok := x.X.(*ssa.IndexAddr); ok && elemTypeName(ia.X.Type()) == "[]CandidateNode" {
			return "an existing child (permutation)"
		}
	case *ssa.Lookup:
		return "an existing child kept in a local map (permutation)"
	}
	// Parent and Key stored on the value in this function
	if v.Referrers() != nil {
		p, k := false, false
		for _, ref := range *v.Referrers() {
			if fa, ok := ref.(*ssa.FieldAddr); ok {
				for _, r2 := range *fa.Referrers() {
					if st, ok := r2.(*ssa.Store); ok && st.Addr == ssa.Value(fa) {
						if fieldName(fa) == "Parent" {
							p = true
						}
						if fieldName(fa) == "Key" {
							k = true
						}
					}
				}
			}
			if call, ok := ref.(*ssa.Call); ok && call.Call.StaticCallee() != nil && call.Call.StaticCallee().Name() == "SetParent" {
				p = true
			}
		}
		if p && k {
			return "Parent and Key are set in this function"
		}
	}
	return ""
}

// ---- Y3: doCopy's literal initialises every field of CandidateNode --------------

func ruleY3(c *Ctx, rule string) {
	r := c.R
	fn := c.libFunc("CandidateNode.doCopy")
	if fn == nil {
		r.Fatal("anchor missing: doCopy")
		return
	}
	var lit *ssa.Alloc
	eachInstr(fn, func(ins ssa.Instruction) {
		if al, ok := ins.(*ssa.Alloc); ok && al.Comment == "complit" && namedTypeName(al.Type()) == "CandidateNode" {
			lit = al
		}
	})
	if lit == nil {
		r.Fatal("anchor moved: doCopy builds no CandidateNode literal")
		return
	}
	st := structOf(lit.Type())
	if st == nil {
		r.Fatal("anchor moved: CandidateNode is not a struct")
		return
	}
	stored := map[string]ssa.Value{}
	for _, ref := range *lit.Referrers() {
		if fa, ok := ref.(*ssa.FieldAddr); ok {
			for _, r2 := range *fa.Referrers() {
				if s2, ok := r2.(*ssa.Store); ok && s2.Addr == ssa.Value(fa) {
					stored[fieldName(fa)] = s2.Val
				}
			}
		}
	}
	for i := 0; i < st.NumFields(); i++ {
		f := st.Field(i).Name()
		key := "doCopy/" + f
		v, ok := stored[f]
		switch {
		case f == "Content":
			// filled through AddChildren(n.Content) when cloning content
			r.Discharge(rule, key, c.P.pos(st.Field(i).Pos()), "children are re-added as copies by AddChildren")
		case !ok:
			r.Finding(rule, key, c.P.pos(st.Field(i).Pos()), "field "+f+" of CandidateNode is not carried by Copy(): every operator that rebuilds a container through copies (+=, sort, map …) silently drops it")
		case f == "Key":
			if _, isCall := v.(*ssa.Phi); isCall {
				r.Discharge(rule, key, c.P.pos(st.Field(i).Pos()), "copied key (nil or a Copy() of the original's)")
			} else if cv, isCall := v.(*ssa.Call); isCall && cv.Call.StaticCallee() != nil && cv.Call.StaticCallee().Name() == "Copy" {
				r.Discharge(rule, key, c.P.pos(st.Field(i).Pos()), "copied key")
			} else {
				r.Finding(rule, key, c.P.pos(st.Field(i).Pos()), "the copy's Key is not a copy of the original's key node")
			}
		default:
			// value must be a load of the same field of the receiver
			u, isLoad := v.(*ssa.UnOp)
			same := false
			if isLoad {
				if fa, ok := u.X.(*ssa.FieldAddr); ok && fa.X == ssa.Value(fn.Params[0]) && fieldName(fa) == f {
					same = true
				}
			}
			if same {
				r.Discharge(rule, key, c.P.pos(st.Field(i).Pos()), "copied from the same field of the original")
			} else {
				r.Finding(rule, key, c.P.pos(st.Field(i).Pos()), "field "+f+" of the copy is not taken from the same field of the original")
			}
		}
	}
}

func structOf(t types.Type) *types.Struct {
	if p, ok := t.Underlying().(*types.Pointer); ok {
		t = p.Elem()
	}
	st, _ := t.Underlying().(*types.Struct)
	return st
}

// createdAsChild: the value is the result of a module function that returns a
// fresh node whose Parent is its receiver (decoder construction through
// CreateChild), i.e. it is born in this container.
func createdAsChild(c *Ctx, v ssa.Value) string {
	var call *ssa.Call
	idx := 0
	switch x := v.(type) {
	case *ssa.Call:
		call = x
	case *ssa.Extract:
		call, _ = x.Tuple.(*ssa.Call)
		idx = x.Index
	}
	if call == nil || call.Call.StaticCallee() == nil {
		return ""
	}
	s := c.fx().sums[call.Call.StaticCallee()]
	if s == nil || idx >= len(s.results) || !s.results[idx].Fresh {
		return ""
	}
	for x := range s.results[idx].InnerBack {
		if x.o.kind == kParam && x.o.idx == 0 && !x.back && !x.deep {
			return "created by " + call.Call.StaticCallee().Name() + " as a child of its receiver (Parent set at birth)"
		}
	}
	return ""
}

// ---- M6 (C04): x * y is a new value --------------------------------------------------

func ruleM6(c *Ctx, rule string) {
	r := c.R
	m := c.fx()
	var cb *ssa.Function
	for _, fn := range m.funcs {
		if fn.Parent() != nil && fn.Parent().Name() == "multiply" {
			cb = fn
		}
	}
	if cb == nil {
		r.Fatal("anchor missing: the crossFunction callback built by multiply")
		return
	}
	s := m.sums[cb]
	leak := ""
	for x := range s.results[0].Direct {
		if x.o.kind == kParam && !x.back {
			leak = x.String()
		}
	}
	key := funcKey(cb) + "/result"
	if leak == "" && s.results[0].Fresh {
		r.Discharge(rule, key, c.P.pos(cb.Pos()), "every result of the merge callback is allocated during the call (a copy or a new scalar)")
	} else {
		r.Finding(rule, key, c.P.pos(cb.Pos()), "the merge callback can return one of its operands itself ("+leak+") instead of a copy: an update applied to the result of `x * y` rewrites x")
	}
}

// ---- U6 (C02): relative update takes the first result --------------------------

// ruleU6: in the assign handlers the value handed to UpdateFrom /
// UpdateAttributesFrom is the element returned by `rhs.MatchingNodes.Front()`
// itself — not a loop variable running over all results (last one would win).
func ruleU6(c *Ctx, rule string) {
	r := c.R
	for _, name := range []string{"assignUpdateOperator", "assignAttributesOperator"} {
		fn := c.libFunc(name)
		if fn == nil {
			r.Fatal("anchor missing: %s", name)
			continue
		}
		n := 0
		eachInstr(fn, func(ins ssa.Instruction) {
			call, ok := ins.(*ssa.Call)
			if !ok || call.Call.StaticCallee() == nil {
				return
			}
			cn := call.Call.StaticCallee().Name()
			if cn != "UpdateFrom" && cn != "UpdateAttributesFrom" {
				return
			}
			n++
			key := name + "/" + cn + "(first result)"
			switch firstResultKind(call.Call.Args[1], 0) {
			case "first":
				r.Discharge(rule, key, c.P.pos(call.Pos()), "the target is updated once, from the first result of the right-hand side")
			case "loop":
				r.Finding(rule, key, c.P.pos(call.Pos()), "the target is updated from a loop variable running over the results of the right-hand side (the last one wins): `p |= f` must give each match the FIRST result of f")
			default:
				r.Undecided(rule, key, c.P.pos(call.Pos()), "the value handed to "+cn+" is neither the element returned by Front() (directly or through a helper) nor a loop variable over the results: shape not recognised")
			}
		})
		if n == 0 {
			r.Note("%s: %s no longer calls UpdateFrom/UpdateAttributesFrom directly", rule, name)
		}
	}
}

// firstResultKind classifies a node value: "first" when it is the Value of the
// element returned by List.Front() — directly, or as the result of a module
// helper all of whose non-nil returns are that —, "loop" when it is the Value
// of an element advanced by Next()/Prev(), "" otherwise.
func firstResultKind(v ssa.Value, d int) string {
	if d > 4 {
		return ""
	}
	if ta, ok := v.(*ssa.TypeAssert); ok {
		v = ta.X
	}
	switch x := v.(type) {
	case *ssa.UnOp:
		if fa, ok := x.X.(*ssa.FieldAddr); ok && fieldName(fa) == "Value" {
			return elementKind(fa.X, 0)
		}
	case *ssa.Extract:
		call, ok := x.Tuple.(*ssa.Call)
		if !ok {
			return ""
		}
		return helperResultKind(call, x.Index, d)
	case *ssa.Call:
		return helperResultKind(x, 0, d)
	case *ssa.Phi:
		kind := ""
		for _, e := range x.Edges {
			if c, isC := e.(*ssa.Const); isC && c.IsNil() {
				continue
			}
			k := firstResultKind(e, d+1)
			if k == "loop" || k == "" {
				return k
			}
			kind = k
		}
		return kind
	}
	return ""
}

func helperResultKind(call *ssa.Call, idx int, d int) string {
	h := call.Call.StaticCallee()
	if h == nil || h.Blocks == nil {
		return ""
	}
	kind := ""
	for _, b := range h.Blocks {
		ret, ok := b.Instrs[len(b.Instrs)-1].(*ssa.Return)
		if !ok || idx >= len(ret.Results) {
			continue
		}
		if c, isC := ret.Results[idx].(*ssa.Const); isC && c.IsNil() {
			continue
		}
		k := firstResultKind(ret.Results[idx], d+1)
		if k != "first" {
			return k
		}
		kind = k
	}
	return kind
}

// elementKind: a *list.Element value: from Front() ("first") or advanced by Next/Prev ("loop").
func elementKind(el ssa.Value, d int) string {
	if d > 4 {
		return ""
	}
	switch x := el.(type) {
	case *ssa.Call:
		switch calleeName(&x.Call) {
		case "(*container/list.List).Front":
			return "first"
		case "(*container/list.Element).Next", "(*container/list.Element).Prev", "(*container/list.List).Back":
			return "loop"
		}
	case *ssa.Phi:
		kind := ""
		for _, e := range x.Edges {
			k := elementKind(e, d+1)
			if k == "loop" {
				return "loop"
			}
			if k == "" {
				return ""
			}
			kind = k
		}
		return kind
	}
	return ""
}
