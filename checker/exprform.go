package main

import (
	"fmt"
	"go/ast"
	"go/token"
	"go/types"
	"sort"
	"strings"

	"golang.org/x/tools/go/packages"
)

// Structural ("alpha-invariant") form of an index / slice expression.
//
// Obligation keys use the source text of the expression, which is what a
// reader wants to see, but a tabled residual invariant must not be lost when a
// local variable is renamed. The form replaces every local variable by how it
// was defined — parameter #k, key/element of a range over X, the defining
// right-hand side — so that two spellings of the same access have the same
// form, and an access through a different variable has a different one.

type formIndex struct {
	forProg *Prog
	form    map[token.Pos]string
}

var exprForms formIndex

type formCtx struct {
	pk    *packages.Package
	funcs []ast.Node // enclosing FuncDecl / FuncLit, outermost first
	defs  map[types.Object]string
}

func indexExprForm(c *Ctx, pos token.Pos) (string, bool) {
	if exprForms.forProg != c.P {
		exprForms = formIndex{forProg: c.P, form: map[token.Pos]string{}}
		for _, pk := range c.P.modulePackages() {
			for _, f := range pk.Syntax {
				var stack []ast.Node
				ast.Inspect(f, func(n ast.Node) bool {
					if n == nil {
						stack = stack[:len(stack)-1]
						return true
					}
					stack = append(stack, n)
					var lb token.Pos
					switch x := n.(type) {
					case *ast.IndexExpr:
						lb = x.Lbrack
					case *ast.SliceExpr:
						lb = x.Lbrack
					default:
						return true
					}
					fc := &formCtx{pk: pk, defs: map[types.Object]string{}}
					for _, s := range stack {
						switch s.(type) {
						case *ast.FuncDecl, *ast.FuncLit:
							fc.funcs = append(fc.funcs, s)
						}
					}
					exprForms.form[lb] = fc.norm(n.(ast.Expr), 0)
					return true
				})
			}
		}
	}
	f, ok := exprForms.form[pos]
	return f, ok
}

func (fc *formCtx) norm(e ast.Expr, d int) string {
	if e == nil {
		return ""
	}
	if d > 5 {
		return "…"
	}
	switch x := e.(type) {
	case *ast.Ident:
		obj := fc.pk.TypesInfo.Uses[x]
		if obj == nil {
			obj = fc.pk.TypesInfo.Defs[x]
		}
		v, isVar := obj.(*types.Var)
		if !isVar || v.IsField() || v.Parent() == nil || v.Parent() == v.Pkg().Scope() {
			return x.Name
		}
		if s, ok := fc.defs[obj]; ok {
			return s
		}
		fc.defs[obj] = "rec" // cycle guard: `x := f(x)` shadowing cannot refer to itself, but be safe
		s := fc.localDef(v, d)
		fc.defs[obj] = s
		return s
	case *ast.BasicLit:
		return x.Value
	case *ast.ParenExpr:
		return "(" + fc.norm(x.X, d) + ")"
	case *ast.SelectorExpr:
		return fc.norm(x.X, d) + "." + x.Sel.Name
	case *ast.StarExpr:
		return "*" + fc.norm(x.X, d)
	case *ast.UnaryExpr:
		return x.Op.String() + fc.norm(x.X, d)
	case *ast.BinaryExpr:
		// + and * commute: `1 + (i * 2)` and `i*2 + 1` are one access
		if x.Op == token.ADD || x.Op == token.MUL {
			var operands []string
			var flatten func(e ast.Expr)
			flatten = func(e ast.Expr) {
				if p, ok := e.(*ast.ParenExpr); ok {
					e = p.X
				}
				if b, ok := e.(*ast.BinaryExpr); ok && b.Op == x.Op {
					flatten(b.X)
					flatten(b.Y)
					return
				}
				t := fc.norm(e, d)
				if _, isBin := e.(*ast.BinaryExpr); isBin {
					t = "(" + t + ")"
				}
				operands = append(operands, t)
			}
			flatten(x)
			sort.Strings(operands)
			return strings.Join(operands, " "+x.Op.String()+" ")
		}
		return fc.norm(x.X, d) + " " + x.Op.String() + " " + fc.norm(x.Y, d)
	case *ast.IndexExpr:
		return fc.norm(x.X, d) + "[" + fc.norm(x.Index, d) + "]"
	case *ast.SliceExpr:
		s := fc.norm(x.X, d) + "[" + fc.norm(x.Low, d) + ":" + fc.norm(x.High, d)
		if x.Slice3 {
			s += ":" + fc.norm(x.Max, d)
		}
		return s + "]"
	case *ast.CallExpr:
		var args []string
		for _, a := range x.Args {
			args = append(args, fc.norm(a, d))
		}
		return fc.norm(x.Fun, d) + "(" + strings.Join(args, ", ") + ")"
	case *ast.TypeAssertExpr:
		return fc.norm(x.X, d) + ".(" + types.ExprString(x.Type) + ")"
	case *ast.CompositeLit:
		if x.Type != nil {
			return types.ExprString(x.Type) + "{…}"
		}
		return "{…}"
	case *ast.FuncLit:
		return "func{…}"
	}
	return types.ExprString(e)
}

// localDef describes where the local variable v comes from.
func (fc *formCtx) localDef(v *types.Var, d int) string {
	info := fc.pk.TypesInfo
	// a parameter or receiver of one of the enclosing functions
	for depth := len(fc.funcs) - 1; depth >= 0; depth-- {
		var ft *ast.FuncType
		var recv *ast.FieldList
		switch f := fc.funcs[depth].(type) {
		case *ast.FuncDecl:
			ft, recv = f.Type, f.Recv
		case *ast.FuncLit:
			ft = f.Type
		}
		up := strings.Repeat("^", len(fc.funcs)-1-depth)
		if recv != nil {
			for _, fld := range recv.List {
				for _, nm := range fld.Names {
					if info.Defs[nm] == types.Object(v) {
						return up + "recv"
					}
				}
			}
		}
		k := 0
		if ft.Params != nil {
			for _, fld := range ft.Params.List {
				for _, nm := range fld.Names {
					if info.Defs[nm] == types.Object(v) {
						return fmt.Sprintf("%sp%d", up, k)
					}
					k++
				}
				if len(fld.Names) == 0 {
					k++
				}
			}
		}
		k = 0
		if ft.Results != nil {
			for _, fld := range ft.Results.List {
				for _, nm := range fld.Names {
					if info.Defs[nm] == types.Object(v) {
						return fmt.Sprintf("%sr%d", up, k)
					}
					k++
				}
			}
		}
	}
	// the defining statement, searched in the outermost enclosing function
	if len(fc.funcs) == 0 {
		return "local"
	}
	out := ""
	ast.Inspect(fc.funcs[0], func(n ast.Node) bool {
		if out != "" || n == nil {
			return false
		}
		switch s := n.(type) {
		case *ast.AssignStmt:
			if s.Tok != token.DEFINE {
				return true
			}
			for i, l := range s.Lhs {
				id, ok := l.(*ast.Ident)
				if !ok || info.Defs[id] != types.Object(v) {
					continue
				}
				if len(s.Rhs) == len(s.Lhs) {
					out = "‹" + fc.norm(s.Rhs[i], d+1) + "›"
				} else {
					out = fmt.Sprintf("‹#%d of %s›", i, fc.norm(s.Rhs[0], d+1))
				}
				return false
			}
		case *ast.RangeStmt:
			if id, ok := s.Key.(*ast.Ident); ok && s.Tok == token.DEFINE && info.Defs[id] == types.Object(v) {
				out = "‹key of " + fc.norm(s.X, d+1) + "›"
				return false
			}
			if id, ok := s.Value.(*ast.Ident); ok && s.Tok == token.DEFINE && info.Defs[id] == types.Object(v) {
				out = "‹elem of " + fc.norm(s.X, d+1) + "›"
				return false
			}
		case *ast.ValueSpec:
			for i, nm := range s.Names {
				if info.Defs[nm] != types.Object(v) {
					continue
				}
				switch {
				case len(s.Values) == len(s.Names):
					out = "‹" + fc.norm(s.Values[i], d+1) + "›"
				case len(s.Values) == 1:
					out = fmt.Sprintf("‹#%d of %s›", i, fc.norm(s.Values[0], d+1))
				default:
					out = "‹var " + types.TypeString(v.Type(), func(p *types.Package) string { return p.Name() }) + "›"
				}
				return false
			}
		}
		return true
	})
	if out == "" {
		return "‹local " + types.TypeString(v.Type(), func(p *types.Package) string { return p.Name() }) + "›"
	}
	return out
}
