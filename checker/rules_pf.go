package main

import (
	"fmt"
	"go/types"
	"strings"

	"golang.org/x/tools/go/ssa"
)

// Rule PF — preferences are forwarded.
//
// A function that receives a preferences struct (traversePreferences,
// assignPreferences, …) and hands a value of that same type on to a callee
// passes what it was given: its own parameter, or a copy of it with named
// fields overridden (but never overridden for a call of the function itself:
// a recursion continues the same traversal under the same preferences). A fresh literal at such a site silently drops every
// preference the caller set (DontFollowAlias, IncludeMapKeys, …) for that
// part of the work only.

func prefsTypeName(t types.Type) string {
	n, ok := t.(*types.Named)
	if !ok {
		return ""
	}
	if _, ok := n.Underlying().(*types.Struct); !ok {
		return ""
	}
	name := n.Obj().Name()
	l := strings.ToLower(name)
	if strings.HasSuffix(l, "preferences") || strings.HasSuffix(l, "prefs") {
		return name
	}
	return ""
}

type pfSite struct {
	fn     *ssa.Function
	call   ssa.CallInstruction
	callee string
	tname  string
	how    string // "forwarded" | "copy-with-overrides" | "fresh"
}

// derivesFromParam: v is the parameter, or a load of a local that was
// initialised from the parameter (copy, possibly with field stores after).
func pfClassify(fn *ssa.Function, param *ssa.Parameter, v ssa.Value) string {
	if v == param {
		return "forwarded"
	}
	if u, ok := v.(*ssa.UnOp); ok {
		if al, ok := u.X.(*ssa.Alloc); ok {
			// the local: is there a store of the param (or of a value derived from it) into it?
			if refs := al.Referrers(); refs != nil {
				for _, ref := range *refs {
					if st, ok := ref.(*ssa.Store); ok && st.Addr == al {
						if pfClassify(fn, param, st.Val) != "fresh" {
							if fields := fieldsStoredOn(al); len(fields) > 0 {
								return "copy-with-overrides"
							}
							return "forwarded"
						}
					}
				}
			}
			// the parameter itself spilled to a local (address taken)
			return "fresh"
		}
	}
	if phi, ok := v.(*ssa.Phi); ok {
		for _, e := range phi.Edges {
			if pfClassify(fn, param, e) != "fresh" {
				return "copy-with-overrides"
			}
		}
	}
	return "fresh"
}

func pfSites(c *Ctx) []pfSite {
	var out []pfSite
	for _, fn := range c.moduleFuncs() {
		// parameters (incl. free variables of closures are ignored)
		byType := map[string]*ssa.Parameter{}
		for _, p := range fn.Params {
			if tn := prefsTypeName(p.Type()); tn != "" {
				byType[tn] = p
			}
		}
		if len(byType) == 0 {
			continue
		}
		eachInstr(fn, func(ins ssa.Instruction) {
			ci, ok := ins.(ssa.CallInstruction)
			if !ok {
				return
			}
			cc := ci.Common()
			for _, a := range cc.Args {
				tn := prefsTypeName(a.Type())
				if tn == "" {
					continue
				}
				p, ok := byType[tn]
				if !ok {
					continue
				}
				name := calleeName(cc)
				if name == "" {
					name = "dynamic"
				}
				out = append(out, pfSite{fn, ci, shortCallee(name), tn, pfClassify(fn, p, a)})
			}
		})
	}
	return out
}

// pfAccepted: sites that deliberately start from fresh preferences.
var pfAccepted = map[string]string{}

func rulePF(c *Ctx, rule string, min int) {
	r := c.R
	r.Rule(rule, "preferences received are the preferences handed on", min)
	seen := map[string]int{}
	for _, s := range pfSites(c) {
		key := fmt.Sprintf("%s/%s(%s)", funcKey(s.fn), s.callee, s.tname)
		seen[key]++
		if seen[key] > 1 {
			key = fmt.Sprintf("%s#%d", key, seen[key])
		}
		pos := c.P.pos(s.call.Pos())
		switch {
		case s.how == "copy-with-overrides" && s.call.Common().StaticCallee() == s.fn:
			// a function calling itself continues the same work on another node: what it was
			// told at the start holds for the whole traversal
			r.Finding(rule, key, pos, fmt.Sprintf("%s calls itself with its %s parameter changed (a field is assigned before the call): the preferences the caller chose hold only for the first level of the traversal", funcKey(s.fn), s.tname))
		case s.how != "fresh":
			r.Discharge(rule, key, pos, "the "+s.tname+" parameter is "+s.how)
		case pfAccepted[key] != "":
			r.Discharge(rule, key, pos, "accepted: "+pfAccepted[key])
		default:
			r.Finding(rule, key, pos, fmt.Sprintf("%s receives %s from its caller but hands %s a freshly built one: every preference the caller set is dropped for this part of the work", funcKey(s.fn), s.tname, s.callee))
		}
	}
}

// fieldsStoredOn: names of the fields of the local struct al (and of structs
// nested in it) that are assigned somewhere in the function.
func fieldsStoredOn(al *ssa.Alloc) []string {
	var out []string
	var visit func(v ssa.Value, prefix string, d int)
	visit = func(v ssa.Value, prefix string, d int) {
		if d > 3 || v.Referrers() == nil {
			return
		}
		for _, ref := range *v.Referrers() {
			fa, ok := ref.(*ssa.FieldAddr)
			if !ok || fa.X != v || fa.Referrers() == nil {
				continue
			}
			name := prefix + fieldName(fa)
			for _, r2 := range *fa.Referrers() {
				if st, ok := r2.(*ssa.Store); ok && st.Addr == ssa.Value(fa) {
					out = append(out, name)
				}
			}
			visit(fa, name+".", d+1)
		}
	}
	visit(al, "", 0)
	return out
}
