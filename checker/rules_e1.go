package main

import (
	"fmt"
	"sort"
	"strings"

	"golang.org/x/tools/go/ssa"
)

// Rules built on engine E1 (mutfx.go).

func (c *Ctx) fx() *mutfx {
	if c.mfx == nil {
		c.mfx = newMutFX(c)
		c.mfx.run()
		if !c.mfx.converged {
			c.R.Fatal("E1: summaries did not reach a fixpoint")
		}
	}
	return c.mfx
}

// handlerRoots: every distinct function stored in an operationType.Handler slot.
type handlerRoot struct {
	Fn     *ssa.Function
	Types  []string // operation types dispatching to it
	Upd    bool     // every type is in the declared update set
	AnyUpd bool
}

func (c *Ctx) handlerRoots() []*handlerRoot {
	if !c.tables() {
		return nil
	}
	byFn := map[*ssa.Function]*handlerRoot{}
	for _, ot := range c.Ops.List {
		fn := c.P.SSA.FuncValue(ot.Handler)
		if fn == nil {
			continue
		}
		h := byFn[fn]
		if h == nil {
			h = &handlerRoot{Fn: fn, Upd: true}
			byFn[fn] = h
		}
		h.Types = append(h.Types, ot.Type)
		if isUpdateOp(ot.Type) {
			h.AnyUpd = true
		} else {
			h.Upd = false
		}
	}
	var out []*handlerRoot
	for _, h := range byFn {
		sort.Strings(h.Types)
		out = append(out, h)
	}
	sort.Slice(out, func(i, j int) bool { return funcKey(out[i].Fn) < funcKey(out[j].Fn) })
	return out
}

// effectKey: rule key for a mutation effect seen from a root: root function /
// function containing the store / field (or dynamic update).
func effectKey(root *ssa.Function, e *mutEffect) string {
	what := e.Field
	if e.Dyn != "" {
		what = "eval(" + e.Dyn + ")"
	}
	return fmt.Sprintf("%s/%s.%s", funcKey(root), funcKey(e.SiteFn), what)
}

// ---- X1 (C08): handler purity ------------------------------------------------

func ruleX1(c *Ctx, rule string) {
	r := c.R
	m := c.fx()
	for _, h := range c.handlerRoots() {
		if h.AnyUpd {
			continue // declared update operators are outside the property's premise
		}
		s := m.sums[h.Fn]
		if s == nil {
			r.Undecided(rule, funcKey(h.Fn), c.P.pos(h.Fn.Pos()), "no summary for handler")
			continue
		}
		// group findings by (site function, field)
		type grp struct {
			e     *mutEffect
			bases []string
		}
		groups := map[string]*grp{}
		for _, e := range s.muts {
			if e.Class != "node" || e.Guarded {
				continue
			}
			if e.Base.o.kind != kParam || e.Base.o.idx == 2 {
				continue // stores into the expression tree are S3's business; globals G1's
			}
			k := effectKey(h.Fn, e)
			g := groups[k]
			if g == nil {
				g = &grp{e: e}
				groups[k] = g
			}
			g.bases = append(g.bases, e.Base.String())
		}
		if len(groups) == 0 {
			r.Discharge(rule, funcKey(h.Fn), c.P.pos(h.Fn.Pos()), fmt.Sprintf("handler of %s: no unguarded store into a node reachable from its context (summary: %d effects, all on fresh objects, guarded by !DontAutoCreate, or none)", strings.Join(h.Types, ","), len(s.muts)))
			continue
		}
		var keys []string
		for k := range groups {
			keys = append(keys, k)
		}
		sort.Strings(keys)
		for _, k := range keys {
			g := groups[k]
			what := "stores to field " + g.e.Field
			if g.e.Dyn != "" {
				what = "evaluates a locally built " + g.e.Dyn + " expression"
			}
			if g.e.AliasG {
				what += " (under !encoder.CanHandleAliases())"
			}
			r.FindingPath(rule, k, c.P.pos(g.e.Site.Pos()), fmt.Sprintf("handler of %s %s of a node reached from its context, not guarded by !DontAutoCreate: the input document changes although the expression contains no update operator", strings.Join(h.Types, ","), what), g.e.Chain)
		}
	}
}

// ---- X2 (C08/C04): context monotonicity and writable escalation -------------

func ruleX2(c *Ctx, rule string) {
	r := c.R
	pk := c.P.lib()
	// (a) every method deriving a Context from a Context copies DontAutoCreate or sets it true
	for _, fn := range c.moduleFuncs() {
		recv := fn.Signature.Recv()
		if recv == nil || namedTypeName(recv.Type()) != "Context" || funcPkgPath(fn) != pk.PkgPath {
			continue
		}
		if fn.Signature.Results().Len() != 1 || namedTypeName(fn.Signature.Results().At(0).Type()) != "Context" {
			continue
		}
		key := funcKey(fn)
		verdict, why := contextFlagTransfer(c, fn, map[*ssa.Function]bool{})
		switch verdict {
		case "keeps", "sets-true":
			r.Discharge(rule, key, c.P.pos(fn.Pos()), "derived context "+why)
		case "sets-false":
			if fn.Name() == "WritableClone" {
				r.Discharge(rule, key, c.P.pos(fn.Pos()), "the one declared escalation point ("+why+"); its uses are audited below")
			} else {
				r.Finding(rule, key, c.P.pos(fn.Pos()), "a context derived from a read-only context becomes writable ("+why+"): every traversal below a predicate can auto-create")
			}
		default:
			if strings.HasPrefix(verdict, "by-param:") {
				// the flag is an argument: Context methods calling it are judged through it above; any other caller must pass true
				var pi int
				fmt.Sscanf(verdict, "by-param:%d", &pi)
				bad := ""
				for _, caller := range c.moduleFuncs() {
					crecv := caller.Signature.Recv()
					isCtxMethod := crecv != nil && namedTypeName(crecv.Type()) == "Context" && caller.Signature.Results().Len() == 1 && namedTypeName(caller.Signature.Results().At(0).Type()) == "Context"
					eachInstr(caller, func(ins ssa.Instruction) {
						cc, ok := ins.(ssa.CallInstruction)
						if !ok || cc.Common().StaticCallee() != fn || pi >= len(cc.Common().Args) {
							return
						}
						if k, isConst := cc.Common().Args[pi].(*ssa.Const); isConst && k.Value != nil && k.Value.String() == "true" {
							return
						}
						if isCtxMethod {
							if _, recvIsParam := cc.Common().Args[0].(*ssa.Parameter); recvIsParam {
								return
							}
						}
						bad = c.P.pos(ins.Pos())
					})
				}
				if bad == "" {
					r.Discharge(rule, key, c.P.pos(fn.Pos()), "derived context takes the flag from an argument ("+why+"); every caller is a Context method judged through it or passes true")
				} else {
					r.Finding(rule, key, bad, "a context is made writable here through "+fn.Name()+" outside the declared escalation point WritableClone")
				}
				break
			}
			r.Finding(rule, key, c.P.pos(fn.Pos()), "derived context does not carry the DontAutoCreate flag of its source ("+why+")")
		}
	}
	// (b) a writable context never evaluates a user sub-expression
	m := c.fx()
	nW := 0
	for _, fn := range m.funcs {
		eachInstr(fn, func(ins ssa.Instruction) {
			if call, ok := ins.(*ssa.Call); ok && call.Call.StaticCallee() != nil && call.Call.StaticCallee().Name() == "WritableClone" {
				nW++
				key := funcKey(fn) + "/WritableClone()"
				bad := ""
				for _, w := range m.wevals {
					if w.WSite == c.P.pos(call.Pos()) {
						bad = fmt.Sprintf("reaches GetMatchingNodes at %s with a user sub-expression (via %s)", c.P.pos(w.Site.Pos()), w.Chain)
					}
				}
				if bad == "" {
					r.Discharge(rule, key, c.P.pos(call.Pos()), "the writable context is only used to evaluate locally built expressions (merge assignment onto a fresh copy)")
				} else {
					r.Finding(rule, key, c.P.pos(call.Pos()), "a context made writable "+bad+": operands of a pure operator are evaluated with auto-creation enabled even inside a predicate or `as` binding")
				}
			}
		})
	}
	if nW == 0 {
		r.Note("X2: no WritableClone() call in the module")
	}
	// Context{} literals (writable by zero value) evaluating user expressions inside handlers
	for _, w := range m.wevals {
		if strings.Contains(w.WSite, "-") {
			continue
		}
	}
}

// contextFlagTransfer classifies how the DontAutoCreate flag of the returned
// Context relates to the receiver's.
func contextFlagTransfer(c *Ctx, fn *ssa.Function, seen map[*ssa.Function]bool) (string, string) {
	if seen[fn] {
		return "keeps", "recursive"
	}
	seen[fn] = true
	// every Context this method can return: a local Context on which the flag was
	// stored on every path before the return, or the result of another Context method
	verdicts := map[string]string{}
	note := func(v, why string) {
		if _, ok := verdicts[v]; !ok {
			verdicts[v] = why
		}
	}
	classifyStore := func(st *ssa.Store) (string, string) {
		switch v := st.Val.(type) {
		case *ssa.Const:
			if v.Value != nil && v.Value.String() == "true" {
				return "sets-true", "DontAutoCreate = true"
			}
			return "sets-false", "DontAutoCreate = false"
		case *ssa.UnOp:
			if fa2, ok := v.X.(*ssa.FieldAddr); ok && fieldName(fa2) == "DontAutoCreate" {
				if _, isParam := fa2.X.(*ssa.Parameter); isParam {
					return "keeps", "copies DontAutoCreate from the receiver"
				}
			}
		case *ssa.Parameter:
			// a helper taking the flag as an argument: decided at each of its call sites
			if i := paramIndex(fn, v); i > 0 {
				return fmt.Sprintf("by-param:%d", i), "DontAutoCreate = parameter " + v.Name()
			}
		}
		return "unknown", "DontAutoCreate set from a computed value"
	}
	var judge func(v ssa.Value, ret *ssa.Return, d int)
	judge = func(v ssa.Value, ret *ssa.Return, d int) {
		if d > 6 {
			note("unknown", "deep")
			return
		}
		switch x := v.(type) {
		case *ssa.UnOp:
			al, ok := x.X.(*ssa.Alloc)
			if !ok {
				note("unknown", "returns "+exprOfValue(v))
				return
			}
			// stores to al.DontAutoCreate
			var stores []*ssa.Store
			if al.Referrers() != nil {
				for _, ref := range *al.Referrers() {
					if fa, ok := ref.(*ssa.FieldAddr); ok && fieldName(fa) == "DontAutoCreate" && fa.Referrers() != nil {
						for _, r2 := range *fa.Referrers() {
							if st, ok := r2.(*ssa.Store); ok && st.Addr == ssa.Value(fa) {
								stores = append(stores, st)
							}
						}
					}
				}
			}
			isStore := func(ins ssa.Instruction) bool {
				for _, st := range stores {
					if ins == ssa.Instruction(st) {
						return true
					}
				}
				return false
			}
			if len(stores) == 0 {
				// the receiver itself (value receiver spilled) keeps the flag
				if al.Referrers() != nil {
					for _, ref := range *al.Referrers() {
						if st, ok := ref.(*ssa.Store); ok && st.Addr == ssa.Value(al) {
							if _, isParam := st.Val.(*ssa.Parameter); isParam {
								note("keeps", "returns the receiver")
								return
							}
							if call, isCall := st.Val.(*ssa.Call); isCall {
								judge(call, ret, d+1)
								return
							}
						}
					}
				}
			}
			// a context derived first and then given its own flag: the explicit store decides
			derived := false
			if al.Referrers() != nil {
				for _, ref := range *al.Referrers() {
					if st, ok := ref.(*ssa.Store); ok && st.Addr == ssa.Value(al) {
						if _, isCall := st.Val.(*ssa.Call); isCall {
							derived = true
						}
						if _, isParam := st.Val.(*ssa.Parameter); isParam {
							derived = true
						}
					}
				}
			}
			if len(stores) == 0 || (!derived && pathAvoiding(fn, al.Block(), instrIndex(al), ret.Block(), len(ret.Block().Instrs)-1, isStore)) {
				note("drops", "a Context built at "+c.P.pos(al.Pos())+" is returned without DontAutoCreate having been set on every path")
				return
			}
			for _, st := range stores {
				v2, w := classifyStore(st)
				note(v2, w)
			}
		case *ssa.Call:
			cal := x.Call.StaticCallee()
			if cal != nil && cal.Signature.Recv() != nil && namedTypeName(cal.Signature.Recv().Type()) == "Context" {
				if _, isParam := x.Call.Args[0].(*ssa.Parameter); isParam {
					v2, w := contextFlagTransfer(c, cal, seen)
					if strings.HasPrefix(v2, "by-param:") {
						var pi int
						fmt.Sscanf(v2, "by-param:%d", &pi)
						v2, w = "unknown", "through "+cal.Name()+": flag argument is computed"
						if pi < len(x.Call.Args) {
							switch a := x.Call.Args[pi].(type) {
							case *ssa.Const:
								if a.Value != nil && a.Value.String() == "true" {
									v2, w = "sets-true", "DontAutoCreate = true"
								} else {
									v2, w = "sets-false", "DontAutoCreate = false"
								}
							case *ssa.Parameter:
								if i := paramIndex(fn, a); i > 0 {
									v2, w = fmt.Sprintf("by-param:%d", i), "DontAutoCreate = parameter "+a.Name()
								}
							}
						}
					}
					note(v2, "through "+cal.Name()+": "+w)
					return
				}
			}
			note("unknown", "returns the result of "+exprOfValue(v))
		case *ssa.Phi:
			for _, e := range x.Edges {
				judge(e, ret, d+1)
			}
		default:
			note("unknown", "returns "+exprOfValue(v))
		}
	}
	nret := 0
	for _, b := range fn.Blocks {
		if ret, ok := b.Instrs[len(b.Instrs)-1].(*ssa.Return); ok && len(ret.Results) == 1 {
			nret++
			judge(ret.Results[0], ret, 0)
		}
	}
	if nret == 0 {
		return "unknown", "no return"
	}
	for _, v := range []string{"drops", "sets-false", "unknown"} {
		if why, ok := verdicts[v]; ok {
			return v, why
		}
	}
	for v, why := range verdicts {
		if strings.HasPrefix(v, "by-param:") {
			if len(verdicts) > 1 {
				return "unknown", "flag taken from a parameter on some paths only"
			}
			return v, why
		}
	}
	for _, v := range []string{"sets-true", "keeps"} {
		if why, ok := verdicts[v]; ok {
			return v, why
		}
	}
	return "unknown", "no DontAutoCreate transfer found"
}

// ---- X6 (C08): handlers do not build contexts from scratch ---------------------

// ruleX6: a function that receives a Context (a handler or one of its helpers)
// and builds another one with a composite literal — instead of deriving it with
// ChildContext / Clone — must copy DontAutoCreate from the context it received
// (or set it true). A literal without the flag is writable: traversal below it
// auto-creates paths even inside `select(...)` or `... as $x`.
func ruleX6(c *Ctx, rule string) {
	r := c.R
	r.Rule(rule, "a Context built by a literal inside a handler carries the read-only flag of the context received", 1)
	n := 0
	for _, fn := range c.moduleFuncs() {
		if !strings.HasPrefix(funcKey(fn), "yqlib.") {
			continue
		}
		var ctxParam *ssa.Parameter
		for _, p := range fn.Params {
			if namedTypeName(p.Type()) == "Context" {
				ctxParam = p
			}
		}
		if ctxParam == nil || (fn.Signature.Recv() != nil && namedTypeName(fn.Signature.Recv().Type()) == "Context") {
			continue
		}
		eachInstr(fn, func(ins ssa.Instruction) {
			al, ok := ins.(*ssa.Alloc)
			if !ok || structNameOfPtr(al.Type()) != "Context" || al.Referrers() == nil {
				return
			}
			// a literal: fields are stored one by one; skip locals that receive a whole Context value
			whole, setsNodes, flag := false, false, ""
			for _, ref := range *al.Referrers() {
				switch x := ref.(type) {
				case *ssa.Store:
					if x.Addr == ssa.Value(al) {
						whole = true
					}
				case *ssa.FieldAddr:
					if x.Referrers() == nil {
						continue
					}
					for _, r2 := range *x.Referrers() {
						st, ok := r2.(*ssa.Store)
						if !ok || st.Addr != ssa.Value(x) {
							continue
						}
						switch fieldName(x) {
						case "MatchingNodes":
							setsNodes = true
						case "DontAutoCreate":
							flag = "computed"
							if k, isK := st.Val.(*ssa.Const); isK && k.Value != nil && k.Value.String() == "true" {
								flag = "true"
							}
							if u, isU := st.Val.(*ssa.UnOp); isU {
								if fa2, ok := u.X.(*ssa.FieldAddr); ok && fieldName(fa2) == "DontAutoCreate" {
									flag = "copied"
								}
							}
							if f2, isF := st.Val.(*ssa.Field); isF && fieldNameOfField(f2) == "DontAutoCreate" {
								flag = "copied"
							}
						}
					}
				}
			}
			if whole || !setsNodes {
				return
			}
			n++
			key := fmt.Sprintf("%s/Context-literal#%d", funcKey(fn), n)
			switch flag {
			case "true", "copied":
				r.Discharge(rule, key, c.P.pos(al.Pos()), "the literal sets DontAutoCreate ("+flag+")")
			default:
				r.Finding(rule, key, c.P.pos(al.Pos()), "a Context with nodes is built by a literal that does not carry DontAutoCreate from the context received: it is writable, so evaluating a block in it creates missing paths even under a read-only evaluation (select, as, right-hand sides)")
			}
		})
	}
	if n == 0 {
		r.Discharge(rule, "module/no-context-literals-in-handlers", "-", "no function that receives a Context builds another one from a literal with nodes; contexts are derived with ChildContext / Clone")
	}
}

// ---- R1 (C02/C07/C08): operands that are read-only today stay read-only ------

func ruleR1(c *Ctx, rule string, only func(key string) bool) {
	r := c.R
	sites := evalCensus(c)
	byKey := map[string]*evalSite{}
	for _, s := range sites {
		byKey[s.Key] = s
	}
	n := map[string]int{}
	for _, s := range sites {
		n[s.Mode]++
	}
	r.Analysed["evaluation_sites"] = len(sites)
	r.Analysed["evaluation_sites_by_mode"] = n
	var keys []string
	for k := range roReference {
		keys = append(keys, k)
	}
	sort.Strings(keys)
	for _, k := range keys {
		if only != nil && !only(k) {
			continue
		}
		s := byKey[k]
		if s == nil {
			// the site is gone (renamed / rewritten): look for the same function+operand under any callee
			r.Note("%s: reference site %s no longer exists (function rewritten?); not judged", rule, k)
			continue
		}
		if s.Mode == "RO" {
			r.Discharge(rule, k, c.P.pos(s.Instr.Pos()), "sub-expression is evaluated under ReadOnlyClone / SingleReadonlyChildContext")
		} else {
			r.Finding(rule, k, c.P.pos(s.Instr.Pos()), fmt.Sprintf("this operand used to be evaluated in a read-only context and is now evaluated in a %s context: reading it can auto-create keys or pad sequences in the document", map[string]string{"inherit": "caller's (possibly writable)", "W": "writable", "other": "non-derived"}[s.Mode]))
		}
	}
}

// ---- S3 / S5 (C10, C18-G3): the shared expression tree carries no state ------

// storeDominatesUses: in fn, the store instruction dominates every other
// instruction that reads the same field of the same base or passes the base on.
func storeDominatesUses(st *ssa.Store) bool {
	fa, ok := st.Addr.(*ssa.FieldAddr)
	if !ok {
		return false
	}
	base := fa.X
	fn := st.Parent()
	sb, si := st.Block(), instrIndex(st)
	ok2 := true
	eachInstr(fn, func(ins ssa.Instruction) {
		if ins == ssa.Instruction(st) {
			return
		}
		uses := false
		switch x := ins.(type) {
		case *ssa.UnOp:
			// go/ssa loads `node.Operation` anew for every mention: compare the address chains, not the values
			if fa2, ok := x.X.(*ssa.FieldAddr); ok && (fa2.X == base || sameLenBase(fa2.X, base)) && fa2.Field == fa.Field && fa2.X.Type() == base.Type() {
				uses = true
			}
		default:
			if cc := callCommon(ins); cc != nil {
				for _, a := range cc.Args {
					if a == base || (a.Type() == base.Type() && sameLenBase(a, base)) {
						uses = true
					}
				}
			}
		}
		if !uses {
			return
		}
		if ins.Block() == sb {
			if instrIndex(ins) < si {
				ok2 = false
			}
		} else if !sb.Dominates(ins.Block()) {
			ok2 = false
		}
	})
	return ok2
}

func ruleS3(c *Ctx, rule string) {
	r := c.R
	m := c.fx()
	for _, h := range c.handlerRoots() {
		s := m.sums[h.Fn]
		if s == nil {
			continue
		}
		bad := 0
		seen := map[string]bool{}
		for _, e := range s.muts {
			if e.Base.o.kind != kParam || e.Base.o.idx != 2 {
				continue
			}
			key := effectKey(h.Fn, e)
			if seen[key] {
				continue
			}
			seen[key] = true
			// document-independent value, written before any use in that function
			docDep := false
			for v := range e.Vals {
				if v.o.kind == kParam && v.o.idx != 2 {
					docDep = true
				}
			}
			st, isStore := e.Site.(*ssa.Store)
			switch {
			case e.Dyn != "":
				// a dynamic update applied to nodes of the expression tree
				bad++
				r.FindingPath(rule, key, c.P.pos(e.Site.Pos()), "an update expression is evaluated against a node that belongs to the parsed expression tree: the next document sees the modified literal", e.Chain)
			case !docDep && isStore && e.SiteFn == h.Fn && storeDominatesUses(st):
				r.Discharge(rule, key, c.P.pos(e.Site.Pos()), fmt.Sprintf("benign overwrite: handler of %s stores a document-independent value into its expression node before every use of that field (same value on every evaluation)", strings.Join(h.Types, ",")))
			default:
				bad++
				why := "the stored value depends on the document"
				if !docDep {
					why = "the store does not precede every read of the field"
				}
				r.FindingPath(rule, key, c.P.pos(e.Site.Pos()), fmt.Sprintf("handler of %s writes field %s of an object of the shared expression tree (%s): state is carried from one evaluation to the next", strings.Join(h.Types, ","), e.Field, why), e.Chain)
			}
		}
		// containers / decoders reached from the expression tree
		for _, p := range s.puts {
			if p.Base.o.kind != kParam || p.Base.o.idx != 2 {
				continue
			}
			key := fmt.Sprintf("%s/put@%s", funcKey(h.Fn), funcKey(p.Site.Parent()))
			if seen[key] {
				continue
			}
			seen[key] = true
			site := p.Site.Parent()
			if site.Signature.Recv() != nil && (site.Name() == "Init" || site.Name() == "Decode" || strings.HasSuffix(namedTypeName(site.Signature.Recv().Type()), "ecoder")) {
				r.Discharge(rule, key, c.P.pos(p.Site.Pos()), "state of a decoder object held by the operation's preferences; it is re-initialised by Init before each use (S4). The sharing itself is reported under C18-G2")
				continue
			}
			bad++
			r.Finding(rule, key, c.P.pos(p.Site.Pos()), fmt.Sprintf("handler of %s stores into a container reachable from the shared expression tree", strings.Join(h.Types, ",")))
		}
		// S5: results must not be nodes of the expression tree
		isRef := false
		for _, t := range h.Types {
			if t == "REF" {
				isRef = true
			}
		}
		leak := ""
		if len(s.results) > 0 {
			for _, set := range []oset{s.results[0].Direct, s.results[0].Inner, s.results[0].InnerN} {
				for x := range set {
					if x.o.kind == kParam && x.o.idx == 2 && !x.back {
						leak = x.String()
					}
				}
			}
		}
		key := funcKey(h.Fn) + "/result"
		switch {
		case leak == "":
			if bad == 0 {
				r.Discharge(rule, key, c.P.pos(h.Fn.Pos()), "result nodes are input nodes or fresh copies, never objects of the parsed expression")
			}
		case isRef:
			r.Discharge(rule, key, c.P.pos(h.Fn.Pos()), "REF returns the node its operation carries by design; REF operations are built per evaluation (compoundAssign, merge, decoders), never by the lexer")
		default:
			r.Finding(rule, key, c.P.pos(h.Fn.Pos()), fmt.Sprintf("handler of %s can return a node that belongs to the parsed expression tree (%s) instead of a copy: an update applied to the result rewrites the literal for the following documents", strings.Join(h.Types, ","), leak))
		}
	}
	// REF operations must not come from the lexer
	if c.tables() {
		for _, lr := range c.Lex.Rules {
			for _, t := range lr.Tokens {
				for _, o := range append(append([]*OpType{}, t.Ops...), t.AssignOps...) {
					if o.Type == "REF" {
						r.Finding(rule, fmt.Sprintf("lexer-emits-REF[%q]", lr.Pattern), c.P.pos(lr.Pos), "a lexer rule emits REF: its node would live in the shared expression tree")
					}
				}
			}
		}
	}
}
