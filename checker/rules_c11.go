package main

import (
	"fmt"
	"go/constant"
	"go/token"
	"go/types"
	"os"
	"regexp"
	"sort"
	"strings"

	"golang.org/x/tools/go/ssa"
)

// C11 — every input is answered with a result or an error, never a crash.
// Engine E4: a census of constructs that panic when their guard is false.

func init() {
	register("C11", "Decides structural necessary conditions of 'never a runtime panic' by a census of panic-capable constructs in the module, each an obligation: (P1) explicit panic statements (accepted only in a reasoned table) and calls of panicking third-party APIs (regexp.MustCompile on non-constant patterns, unprotected gopher-lua Call, template.Must …); (P2) unchecked type assertions — on Operation.Preferences (the asserted type must be the dynamic type at every construction site of that operation type: lexer rule table + literals in code), on list elements (every value put into a container/list in the module is a *CandidateNode, the group_by bucket excepted), and handlers dereference expressionNode.LHS / RHS only when NumArgs provides them; (P3) results of list Front()/Back() and the Alias pointer are dereferenced only under a nil / length test (or a tabled invariant); (P4) index and slice expressions with constant or len-k bounds are proven in range by dominating comparisons (interval reasoning over len) or listed in a residual table with the invariant that makes them safe; (P5) integer division / modulo by a non-constant divisor is guarded by a non-zero test, strings.Repeat / make lengths are guarded non-negative; (P6) a recovered panic becomes the function's returned error (reported as a note where no failing input could be exhibited). (P11) a recursion that descends into children re-enters itself along an alias edge only behind an ancestor test. Does NOT decide: general nil dereferences, panics inside third-party parsers, stack exhaustion on deep documents, and TERMINATION — the 'never hangs' half of the property is out of reach of static analysis here; variable-index expressions are only counted (proved / not proved), not armed.", runC11)
}

// reasoned tables --------------------------------------------------------------

var c11AcceptedPanics = map[string]string{
	"yqlib.createTraversalTree/panic": "copier.Copy between two values of the same struct type (traversePreferences) cannot fail; the panic documents an impossible state",
}

// residual variable-index sites: which bound the analysis cannot establish, and the invariant that gives it
type varResidual struct {
	part string // "upper" | "lower" | "both"
	form string // structural form of the access (exprform.go): the entry still applies after a local variable was renamed
	why  string
	occ  int // which occurrence of that form within the function
}

// residualVarFor: the tabled entry for a site, by its text key, or — when the
// text changed — by function, structural form and occurrence.
func residualVarFor(key, fnKey, form string, occ int) (varResidual, bool) {
	if res, ok := c11ResidualVar[key]; ok {
		return res, true
	}
	for k, res := range c11ResidualVar {
		if strings.HasPrefix(k, fnKey+"/") && res.form == form && res.occ == occ {
			return res, true
		}
	}
	return varResidual{}, false
}

var c11ResidualVar = map[string]varResidual{
	"yqlib.applyAssignment/rhs.GetPath()[pathIndexToStartFrom:] low":       {"upper", "p4.GetPath()[p2:] low", "DESCENDANT: rhs is a result of the recursive descent over the merge operand with DontFollowAlias (kept true by C04-M5), so its path extends the path of the first result, whose length is pathIndexToStartFrom", 1},
	"yqlib.capture/subNames[j + 1]":                                        {"upper", "‹p1.SubexpNames()›[1 + ‹key of ‹‹elem of ‹#0 of getMatches(p0, p1, p3)››[1:]››]", "REGEXP: SubexpNames() has NumSubexp()+1 entries and every submatch list has NumSubexp()+1 entries; j ranges over submatches[1:]", 1},
	"yqlib.capture/subNames[j + 1]#2":                                      {"upper", "‹p1.SubexpNames()›[1 + ‹key of ‹‹elem of ‹#0 of getMatches(p0, p1, p3)››[1:]››]", "REGEXP: as above", 2},
	"yqlib.capture/allIndices[i]":                                          {"upper", "‹#1 of getMatches(p0, p1, p3)›[‹key of ‹#0 of getMatches(p0, p1, p3)››]", "REGEXP: FindAllStringSubmatch and FindAllStringSubmatchIndex (resp. the single-match forms) return parallel lists; i ranges over allMatches", 1},
	"yqlib.capture/allIndices[i][2 + j * 2]":                               {"upper", "‹#1 of getMatches(p0, p1, p3)›[‹key of ‹#0 of getMatches(p0, p1, p3)››][(2 * ‹key of ‹‹elem of ‹#0 of getMatches(p0, p1, p3)››[1:]››) + 2]", "REGEXP: an index list has 2*(NumSubexp()+1) entries; j ranges over the NumSubexp() submatches", 1},
	"yqlib.match/allIndices[i]":                                            {"upper", "‹#1 of getMatches(p0, p1, p3)›[‹key of ‹#0 of getMatches(p0, p1, p3)››]", "REGEXP: parallel result lists; i ranges over allMatches", 1},
	"yqlib.match/allIndices[i]#2":                                          {"upper", "‹#1 of getMatches(p0, p1, p3)›[‹key of ‹#0 of getMatches(p0, p1, p3)››]", "REGEXP: parallel result lists; i ranges over allMatches", 2},
	"yqlib.match/allIndices[i][2 + j * 2]":                                 {"upper", "‹#1 of getMatches(p0, p1, p3)›[‹key of ‹#0 of getMatches(p0, p1, p3)››][(2 * ‹key of ‹‹elem of ‹#0 of getMatches(p0, p1, p3)››[1:]››) + 2]", "REGEXP: an index list has 2*(NumSubexp()+1) entries; j ranges over the NumSubexp() submatches", 1},
	"yqlib.match/subNames[j + 1]":                                          {"upper", "‹p1.SubexpNames()›[1 + ‹key of ‹‹elem of ‹#0 of getMatches(p0, p1, p3)››[1:]››]", "REGEXP: SubexpNames() has NumSubexp()+1 entries; j ranges over submatches[1:]", 1},
	"yqlib.containsObject/lhs.Content[lhsKeyIndex + 1]":                    {"upper", "p0.Content[1 + ‹findInArray(p0, ‹p1.Content[‹0›]›)›]", "PAIR: lhsKeyIndex is a position returned by findInArray (so < len) that was tested even; children of a mapping come in key/value pairs", 1},
	"yqlib.evalOperator/expressions[expIndex]":                             {"upper", "‹make([]*ExpressionNode, ‹#0 of p0.GetMatchingNodes(p1.ReadOnlyClone(), p2.RHS)›.MatchingNodes.Len())›[‹0›]", "LISTLEN: made with MatchingNodes.Len() slots and expIndex counts the elements of that same list", 1},
	"yqlib.reverseOperator/reverseContent[len(candidate.Content) - i - 1]": {"both", "‹make([]*CandidateNode, len(‹‹p1.MatchingNodes.Front()›.Value.(*CandidateNode)›.Content))›[len(‹‹p1.MatchingNodes.Front()›.Value.(*CandidateNode)›.Content) - ‹key of ‹‹p1.MatchingNodes.Front()›.Value.(*CandidateNode)›.Content› - 1]", "MIRROR: made with len(candidate.Content) slots and i ranges over candidate.Content, so len-i-1 is in [0, len-1]", 1},
	"yqlib.shuffleOperator$1/a[i]":                                         {"both", "‹‹‹‹^p1.MatchingNodes.Front()›.Value.(*CandidateNode)›.Copy()›.Content›[p0]", "SHUFFLE: math/rand.Shuffle(len(a), swap) calls swap with 0 <= i, j < len(a)", 1},
	"yqlib.shuffleOperator$1/a[i]#2":                                       {"both", "‹‹‹‹^p1.MatchingNodes.Front()›.Value.(*CandidateNode)›.Copy()›.Content›[p0]", "SHUFFLE: as above", 2},
	"yqlib.shuffleOperator$1/a[j]":                                         {"both", "‹‹‹‹^p1.MatchingNodes.Front()›.Value.(*CandidateNode)›.Copy()›.Content›[p1]", "SHUFFLE: as above", 1},
	"yqlib.shuffleOperator$1/a[j]#2":                                       {"both", "‹‹‹‹^p1.MatchingNodes.Front()›.Value.(*CandidateNode)›.Copy()›.Content›[p1]", "SHUFFLE: as above", 2},
	"yqlib.sortKeys/keys[index / 2]":                                       {"upper", "‹make([]string, len(p0.Content) / 2)›[‹0› / 2]", "HALF: keys has len(Content)/2 slots and index is an even position below len(Content)", 1},
	"yqlib.sortKeys/sortedContent[index * 2]":                              {"upper", "‹make([]*CandidateNode, len(p0.Content))›[2 * ‹0›]", "HALF: sortedContent has len(Content) slots, index < len(keys) = len(Content)/2", 1},
	"yqlib.sortKeys/sortedContent[1 + (index * 2)]":                        {"upper", "‹make([]*CandidateNode, len(p0.Content))›[(2 * ‹0›) + 1]", "HALF: as above; len(Content) is even for a mapping", 1},
	"yqlib.sortableNodeArray.Less/a[i]":                                    {"both", "recv[p0]", "SORT: package sort calls Less/Swap with 0 <= i, j < Len(), and Len() is len(a)", 1},
	"yqlib.sortableNodeArray.Less/a[i]#2":                                  {"both", "recv[p0]", "SORT: as above", 2},
	"yqlib.sortableNodeArray.Less/a[j]":                                    {"both", "recv[p1]", "SORT: as above", 1},
	"yqlib.sortableNodeArray.Swap/a[i]":                                    {"both", "recv[p0]", "SORT: as above", 1},
	"yqlib.sortableNodeArray.Swap/a[i]#2":                                  {"both", "recv[p0]", "SORT: as above", 2},
	"yqlib.sortableNodeArray.Swap/a[j]":                                    {"both", "recv[p1]", "SORT: as above", 1},
	"yqlib.sortableNodeArray.Swap/a[j]#2":                                  {"both", "recv[p1]", "SORT: as above", 2},
	"yqlib.traverseArrayWithIndices/node.Content[indexToUse]":              {"upper", "p1.Content[‹‹#0 of parseInt(‹elem of p2›.Value)››]", "PADDED: an index at or past the end either pads the array up to it (writable) or leaves the loop iteration (read-only); a negative one is len+index < len", 1},
	"yqlib.trimNonGraphic/[]rune(s)[*first:last + 1] low":                  {"both", "[]rune(p0)[*‹var *int›:1 + ‹var int›] low", "RANGEPOS: first and last are positions of the range loop over []rune(s), first <= last", 1},
	"yqlib.trimNonGraphic/[]rune(s)[*first:last + 1] high":                 {"upper", "[]rune(p0)[*‹var *int›:1 + ‹var int›] high", "RANGEPOS: last is a position of the range loop over []rune(s)", 1},
}

// residual index sites: key -> invariant that makes the access safe
var c11ResidualIndex = map[string]string{
	"cmd.evaluateAll/initCommand()#1:index const 0":                                      "INITCMD: reached only under writeInplace / frontMatter != \"\", and initCommand returns an error for those flags when no file argument is given",
	"cmd.evaluateSequence/initCommand()#1:index const 0":                                 "INITCMD: reached only under writeInplace / frontMatter != \"\", and initCommand returns an error for those flags when no file argument is given",
	"cmd.init$1/args:index const 0":                                                      "COBRA: the completion command declares cobra.ExactArgs(1)",
	"cmd.processArgs/processStdInArgs():index const 0":                                   "BOOL_IMPLIES_LEN: guarded by maybeFirstArgIsAFile, which is `len(args) > 0 && maybeFile(args[0])`",
	"cmd.processArgs/processStdInArgs():slice-low const 1":                               "BOOL_IMPLIES_LEN: guarded by maybeFirstArgIsAFile / len(args) > 0",
	"main.main/Args:slice-low const 1":                                                   "OS_ARGS: os.Args always holds the program name",
	"main.main/Args[:]:index const 0":                                                    "COBRA_FIND: cmd.Find fails only for an unknown first argument, so args is non-empty when err != nil",
	"yqlib.CandidateNode.UnmarshalJSON/data:index const 0":                               "JSONLIB: a json decoder never calls UnmarshalJSON with empty input",
	"yqlib.assignableOp/name:index const 1":                                              "INIT_CONST: called only from the rule table initialiser with constant names of length >= 2",
	"yqlib.assignableOp/name:slice-low const 1":                                          "INIT_CONST: called only from the rule table initialiser with constant names of length >= 2",
	"yqlib.simpleOp/name:index const 1":                                                  "INIT_CONST: called only from the rule table initialiser with constant names of length >= 2",
	"yqlib.simpleOp/name:slice-low const 1":                                              "INIT_CONST: called only from the rule table initialiser with constant names of length >= 2",
	"yqlib.capture/getMatches()#0[]:index const 0":                                       "REGEX_GROUPS: every element of FindAllStringSubmatch holds at least the whole match",
	"yqlib.capture/getMatches()#0[]:slice-low const 1":                                   "REGEX_GROUPS: every element of FindAllStringSubmatch holds at least the whole match",
	"yqlib.match/getMatches()#0[]:index const 0":                                         "REGEX_GROUPS: every element of FindAllStringSubmatch holds at least the whole match",
	"yqlib.match/getMatches()#0[]:slice-low const 1":                                     "REGEX_GROUPS: every element of FindAllStringSubmatch holds at least the whole match",
	"yqlib.match/getMatches()#1[]:index const 0":                                         "REGEX_GROUPS: FindAllStringSubmatchIndex pairs are parallel to the matches",
	"yqlib.csvEncoder.encodeObjects/content:index const 0":                               "CALLER_GUARD: Encode returns early when len(node.Content) == 0",
	"yqlib.deleteChildOperator/GetPath():index len-1":                                    "KEYED_CHILD: a node with a Parent has a Key (K1/K2 of C16), so its path is non-empty",
	"yqlib.envOp$1/rawToken.Value:slice-high len-1":                                      "LEXEME: the token matched `strenv\\([^\\)]+\\)` / `env\\([^\\)]+\\)`",
	"yqlib.envOp$1/rawToken.Value:slice 7:len-1":                                         "LEXEME: the token matched `strenv\\([^\\)]+\\)` (>= 9 bytes)",
	"yqlib.envOp$1/rawToken.Value:slice 4:len-1":                                         "LEXEME: the token matched `env\\([^\\)]+\\)` (>= 6 bytes)",
	"yqlib.popOpToResult/opStack:slice 0:len-1":                                          "CALLSITE: every call site in ConvertToPostfix establishes len(opStack) >= 1 (C09-T6)",
	"yqlib.unwrap/value:slice 1:len-1":                                                   "LEXEME: called on quoted lexemes (`\"…\"`, `.\"…\"`), at least two bytes",
	"yqlib.envOp$1/rawToken.Value:slice-low const 4":                                     "LEXEME: the token matched `env\\([^\\)]+\\)` (>= 6 bytes)",
	"yqlib.envOp$1/rawToken.Value:slice-low const 7":                                     "LEXEME: the token matched `strenv\\([^\\)]+\\)` (>= 9 bytes)",
	"yqlib.expressionPostFixerImpl.ConvertToPostfix/append()[].Match:slice-low len-1":    "LEXEME: Match of a closeCollect token is the lexeme of `\\]\\??` (C09-T5: no rule is nullable)",
	"yqlib.extractNumberParameter/FindStringSubmatch():index const 1":                    "LEXEME_REGEX: called only on lexemes of rules ending in `\\([0-9]+\\)`, which the pattern `.*\\(([0-9]+)\\)` always matches",
	"yqlib.getVariableOpToken$1/rawToken.Value:slice-low const 1":                        "LEXEME: the token matched `\\$[a-zA-Z_\\-0-9]+`",
	"yqlib.hexValue$1/rawToken.Value:slice-low const 2":                                  "LEXEME: the token matched `0[xX][0-9A-Fa-f]+`",
	"yqlib.pathToken$1/rawToken.Value:slice-high len-1":                                  "LEXEME: a path token is at least `.` plus one character",
	"yqlib.pathToken$1/rawToken.Value:slice-low len-1":                                   "LEXEME: a path token is at least `.` plus one character",
	"yqlib.pathToken$1/value:slice-low const 1":                                          "LEXEME: a path token is at least `.` plus one character",
	"yqlib.unwrap/value:slice-high len-1":                                                "LEXEME: called on quoted lexemes (`\"…\"`, `.\"…\"`), at least two bytes",
	"yqlib.unwrap/value:slice-low const 1":                                               "LEXEME: called on quoted lexemes (`\"…\"`, `.\"…\"`), at least two bytes",
	"yqlib.popOpToResult/opStack:index len-1":                                            "CALLSITE: every call site in ConvertToPostfix establishes len(opStack) >= 1 (C09-T6)",
	"yqlib.popOpToResult/opStack:slice-high len-1":                                       "CALLSITE: every call site in ConvertToPostfix establishes len(opStack) >= 1 (C09-T6)",
	"yqlib.propertiesDecoder.applyPropertyComments/path:index len-1":                     "PROP_KEY: magiconair/properties rejects an empty key, so parsePropKey yields at least one element",
	"yqlib.xmlDecoder.convertToYamlNode/createValueNodeFromData().Content:index const 0": "XML_SEQ: createValueNodeFromData returns a !!seq only for >= 2 values",
	"yqlib.xmlDecoder.createMap/n.Children[].V:index const 0":                            "XML_CHILDREN: an entry of xmlNode.Children is created with its first child (xmlNode.AddChild)",
	"yqlib.xmlEncoder.encodeComment/ReplaceAllString():index const 0":                    "MULTILINE: this branch requires a newline strictly inside the comment, and the rewrite keeps newlines, so the result is non-empty",
	"yqlib.yamlDecoder.Decode/yamlNode.Content:index const 0":                            "YAML_DOC: a document node decoded by yaml.v3 has exactly one child",
	"yqlib.yamlDecoder.processReadStream/Peek()#0:index const 0":                         "PEEK: Peek(4) without error returned 4 bytes",
}

// panicking APIs: callee prefix -> what to use instead
var c11PanickingAPIs = map[string]string{
	"regexp.MustCompile":                        "panics on an invalid pattern: only constant patterns are acceptable",
	"regexp.MustCompilePOSIX":                   "panics on an invalid pattern: only constant patterns are acceptable",
	"(*github.com/yuin/gopher-lua.LState).Call": "raises Lua errors as Go panics: use PCall",
	"text/template.Must":                        "panics on a template error",
	"html/template.Must":                        "panics on a template error",
	"(reflect.Value).":                          "reflection panics on kind mismatch",
}

func runC11(c *Ctx) {
	r := c.R
	r.Rule("P1", "no reachable explicit panic / panicking API outside the reasoned table", 5)
	r.Rule("P2", "unchecked type assertions agree with what was stored; operand use agrees with NumArgs", 150)
	r.Rule("P3", "list ends and alias pointers are dereferenced only under a nil / length test", 100)
	r.Rule("P4", "constant / len-k index and slice bounds are proven or tabled with an invariant", 90)
	r.Rule("P4v", "variable index and slice bounds are proven in range or tabled with an invariant", 200)
	r.Rule("P5", "division, Repeat and make arguments are guarded", 3)
	c.P.buildSSA()
	ruleP1(c)
	ruleP2c11(c)
	ruleP3c11(c)
	ruleP4(c)
	ruleP4Extract(c)
	ruleP5(c)
	ruleL1(c, "P7", 20)
	ruleP4c(c)
	ruleP8(c, "P8", 80)
	ruleB1(c, "P9", 2)
	ruleP10(c, "P10")
	ruleP11(c, "P11")
	// ---- P6 ---------------------------------------------------------------------
	for _, fn := range c.moduleFuncs() {
		for _, s := range recoverLostSites(c, fn) {
			r.Note("P6 (not armed, no input reaching this recover could be exhibited): %s at %s: %s", s.Key, c.P.pos(s.Instr.Pos()), s.Desc)
		}
	}
}

func ruleP1(c *Ctx) {
	r := c.R
	for _, fn := range c.moduleFuncs() {
		eachInstr(fn, func(ins ssa.Instruction) {
			if pn, ok := ins.(*ssa.Panic); ok {
				key := funcKey(fn) + "/panic"
				if why, ok := c11AcceptedPanics[key]; ok {
					r.Discharge("P1", key, c.P.pos(pn.Pos()), "accepted: "+why)
				} else if funcPkgPath(fn) == cmdPath && fn.Name() == "New" {
					r.Discharge("P1", key, c.P.pos(pn.Pos()), "command construction (flag registration) at start-up, independent of input")
				} else if fn.Name() == "init" || strings.HasPrefix(fn.Name(), "init#") {
					r.Discharge("P1", key, c.P.pos(pn.Pos()), "package initialisation (fails at start-up, independent of input)")
				} else {
					r.Finding("P1", key, c.P.pos(pn.Pos()), "explicit panic("+exprOfValue(pn.X)+") in evaluation code: a malformed value aborts the process instead of producing an error")
				}
				return
			}
			cc := callCommon(ins)
			if cc == nil {
				return
			}
			name := calleeName(cc)
			for api, why := range c11PanickingAPIs {
				if !strings.HasPrefix(name, api) {
					continue
				}
				key := fmt.Sprintf("%s/%s", funcKey(fn), shortCallee(name))
				if strings.HasPrefix(api, "regexp.Must") {
					if _, isConst := cc.Args[0].(*ssa.Const); isConst {
						r.Discharge("P1", key, c.P.pos(ins.Pos()), "constant pattern: compiles or fails identically on every run")
					} else if isFormatOfConst(cc.Args[0]) {
						r.Discharge("P1", key, c.P.pos(ins.Pos()), "pattern built from constants and a fixed option name")
					} else {
						r.Finding("P1", key, c.P.pos(ins.Pos()), "regexp.MustCompile on a computed pattern "+why)
					}
				} else {
					r.Finding("P1", key, c.P.pos(ins.Pos()), name+" "+why)
				}
			}
		})
	}

}

func ruleP4(c *Ctx) {
	r := c.R
	np, nv, nvp, npair := 0, 0, 0, 0
	lexMin := lexemeMinLens(c)
	for _, fn := range c.moduleFuncs() {
		for _, s := range indexSites(fn) {
			key := fmt.Sprintf("%s/%s:%s", funcKey(fn), exprOfValue(s.Base), s.Desc)
			if ml0, ok := lexMin[fn]; ok && exprOfValue(s.Base) == "rawToken.Value" {
				// the token text itself: its length is at least the shortest match of the rule(s) using this action
				ml := ml0.restrictTo(s.Instr.Block())
				if int64(ml.min) >= s.Need {
					r.Discharge("P4", key, c.P.pos(s.Pos), fmt.Sprintf("verified against the lexer table: the shortest lexeme of rule(s) %v has %d bytes >= %d", ml.rules, ml.min, s.Need))
				} else {
					r.Finding("P4", key, c.P.pos(s.Pos), fmt.Sprintf("the token text is indexed/sliced assuming >= %d bytes but rule(s) %v can match a lexeme of %d bytes: out-of-range panic while tokenising", s.Need, ml.rules, ml.min))
				}
				continue
			}
			if s.Proven {
				np++
				r.Discharge("P4", key, c.P.pos(s.Pos), fmt.Sprintf("dominating conditions give len ∈ %s ⊆ [%d,∞)", s.Fact, s.Need))
			} else if callersGiveLen(fn, s.Base, s.Need, 0) {
				np++
				r.Discharge("P4", key, c.P.pos(s.Pos), fmt.Sprintf("every caller passes a value of length >= %d (constant, or tested at the call)", s.Need))
			} else if why, ok := c11ResidualIndex[key]; ok {
				r.Discharge("P4", key, c.P.pos(s.Pos), "invariant "+why)
			} else {
				r.Finding("P4", key, c.P.pos(s.Pos), fmt.Sprintf("index/slice needs len ≥ %d but the dominating conditions only give len ∈ %s and no tabled invariant covers it: out-of-range panic for short input", s.Need, s.Fact))
			}
		}
		seenVar := map[string]int{}
		seenForm := map[string]int{}
		for _, s := range varIndexSites(fn) {
			nv++
			bt, it, ok := indexExprText(c, s.Pos)
			if !ok {
				bt, it = exprOfValue(s.Base), exprOfValue(s.Index)
			}
			part := ""
			if s.Slice {
				// low and high bounds of one slice expression are two obligations
				if sl, isSl := s.Instr.(*ssa.Slice); isSl && sl.High == s.Index {
					part = " high"
				} else {
					part = " low"
				}
			}
			key := fmt.Sprintf("%s/%s[%s]%s", funcKey(fn), bt, it, part)
			seenVar[key]++
			if seenVar[key] > 1 {
				key = fmt.Sprintf("%s#%d", key, seenVar[key])
			}
			pos := c.P.pos(s.Pos)
			if s.Proven {
				nvp++
				if s.Pair {
					npair++
				}
				why := s.Why
				if rel, ok := c11SameLenParams[funcKey(fn)]; ok {
					why += "; the two slice parameters have equal length by tabled invariant " + rel.why
				}
				r.Discharge("P4v", key, pos, why)
				continue
			}
			form, _ := indexExprForm(c, s.Pos)
			form += part
			seenForm[form]++
			res, tabled := residualVarFor(key, funcKey(fn), form, seenForm[form])
			if os.Getenv("YQCHECK_FORMS") != "" {
				fmt.Fprintf(os.Stderr, "FORM\t%s\t%s\t%d\n", key, form, seenForm[form])
			}
			missing := ""
			switch {
			case !s.LowOK && !s.UpOK:
				missing = "both"
			case !s.LowOK:
				missing = "lower"
			default:
				missing = "upper"
			}
			if tabled && (res.part == missing || res.part == "both") {
				r.Discharge("P4v", key, pos, fmt.Sprintf("%s bound by tabled invariant %s; the rest by the analysis", missing, res.why))
				continue
			}
			what := map[string]string{"both": "neither 0 <= index nor index < len is", "lower": "0 <= index is not", "upper": "index < len is not"}[missing]
			extra := ""
			if tabled {
				extra = fmt.Sprintf(" (the tabled invariant covers only the %s bound: %s)", res.part, res.why)
			}
			r.Finding("P4v", key, pos, fmt.Sprintf("variable index: %s established by dominating tests, loop shape, the make() of the slice, the callers or a key-finder contract, and no tabled invariant covers it%s: out-of-range panic for some input", what, extra))
		}
	}
	r.Analysed["index_sites_const_or_len_minus_k_proven"] = np
	r.Analysed["variable_index_sites"] = nv
	r.Analysed["variable_index_sites_proven_in_range"] = nvp
	r.Analysed["variable_index_sites_resting_on_pair_invariant"] = npair
	if npair > 0 {
		r.Assume(fmt.Sprintf("a mapping node's children come in key/value pairs (even length): %d variable-index sites `s[i+1]` with i stepping over even positions below len(s) rest on it", npair))
	}

}

func ruleP5(c *Ctx) {
	r := c.R
	for _, fn := range c.moduleFuncs() {
		eachInstr(fn, func(ins ssa.Instruction) {
			switch x := ins.(type) {
			case *ssa.BinOp:
				if (x.Op == token.QUO || x.Op == token.REM) && isIntegerType(x.Type()) {
					if _, isConst := x.Y.(*ssa.Const); isConst {
						return
					}
					key := fmt.Sprintf("%s/%s %s %s", funcKey(fn), exprOfValue(x.X), x.Op, exprOfValue(x.Y))
					if nonZeroGuard(x.Block(), x.Y) {
						r.Discharge("P5", key, c.P.pos(x.Pos()), "divisor tested non-zero on every path")
					} else {
						r.Finding("P5", key, c.P.pos(x.Pos()), "integer division / modulo by a value that is not tested for zero: divide-by-zero panic")
					}
				}
			case *ssa.Call:
				name := calleeName(&x.Call)
				if name == "strings.Repeat" {
					key := fmt.Sprintf("%s/strings.Repeat(%s)", funcKey(fn), exprOfValue(x.Call.Args[1]))
					cnt := x.Call.Args[1]
					if _, isConst := cnt.(*ssa.Const); isConst || nonNegative(cnt, 0, map[ssa.Value]bool{}) || nonNegativeGuard(x.Block(), cnt) {
						r.Discharge("P5", key, c.P.pos(x.Pos()), "repeat count is non-negative")
					} else if why, ok := c11ResidualArith[key]; ok {
						r.Discharge("P5", key, c.P.pos(x.Pos()), "invariant: "+why)
					} else {
						r.Finding("P5", key, c.P.pos(x.Pos()), "strings.Repeat with a count that is not shown non-negative: panics for negative counts")
					}
				}
			case *ssa.MakeSlice:
				if _, isConst := x.Len.(*ssa.Const); isConst {
					return
				}
				key := fmt.Sprintf("%s/make(%s)", funcKey(fn), exprOfValue(x.Len))
				if nonNegative(x.Len, 0, map[ssa.Value]bool{}) || nonNegativeGuard(x.Block(), x.Len) {
					r.Discharge("P5", key, c.P.pos(x.Pos()), "length is non-negative")
				} else if why, ok := c11ResidualArith[key]; ok {
					r.Discharge("P5", key, c.P.pos(x.Pos()), "invariant: "+why)
				} else {
					r.Finding("P5", key, c.P.pos(x.Pos()), "make with a length that is not shown non-negative")
				}
			}
		})
	}
}

func isFormatOfConst(v ssa.Value) bool {
	call, ok := v.(*ssa.Call)
	if !ok || calleeName(&call.Call) != "fmt.Sprintf" {
		return false
	}
	_, isConst := call.Call.Args[0].(*ssa.Const)
	return isConst
}

func nonZeroGuard(blk *ssa.BasicBlock, v ssa.Value) bool {
	ok := false
	dominatingConds(blk, func(cond ssa.Value, taken bool, at *ssa.BasicBlock) {
		if bo, isB := cond.(*ssa.BinOp); isB {
			if (bo.X == v && isZeroConst(bo.Y)) || (bo.Y == v && isZeroConst(bo.X)) {
				if (bo.Op == token.NEQ && taken) || (bo.Op == token.EQL && !taken) || (bo.Op == token.GTR && taken && bo.X == v) {
					ok = true
				}
			}
		}
	})
	return ok
}

func nonNegativeGuard(blk *ssa.BasicBlock, v ssa.Value) bool {
	ok := false
	dominatingConds(blk, func(cond ssa.Value, taken bool, at *ssa.BasicBlock) {
		if bo, isB := cond.(*ssa.BinOp); isB && bo.X == v {
			if k, isK := constInt64(bo.Y); isK {
				if (bo.Op == token.LSS && !taken && k <= 0) || (bo.Op == token.GEQ && taken && k >= 0) || (bo.Op == token.GTR && taken && k >= -1) {
					ok = true
				}
			}
		}
	})
	return ok
}

// ---- P2 -------------------------------------------------------------------------

func ruleP2c11(c *Ctx) {
	r := c.R
	if !c.tables() {
		return
	}
	tname := func(t types.Type) string { return types.TypeString(t, func(*types.Package) string { return "" }) }
	// (a) what is stored as Preferences for each operation type
	prefsOf := map[string]map[string]bool{}
	addPref := func(ot string, ty string) {
		if prefsOf[ot] == nil {
			prefsOf[ot] = map[string]bool{}
		}
		prefsOf[ot][ty] = true
	}
	for _, lr := range c.Lex.Rules {
		for _, t := range lr.Tokens {
			for _, o := range append(append([]*OpType{}, t.Ops...), t.AssignOps...) {
				for _, p := range t.PrefTypes {
					addPref(o.Type, p)
				}
			}
		}
	}
	// literals in code: an Operation object with stores to OperationType and Preferences
	for _, fn := range c.moduleFuncs() {
		eachInstr(fn, func(ins ssa.Instruction) {
			al, ok := ins.(*ssa.Alloc)
			if !ok || namedTypeName(al.Type()) != "Operation" {
				return
			}
			var ots []*OpType
			pref := ""
			for _, ref := range *al.Referrers() {
				fa, ok := ref.(*ssa.FieldAddr)
				if !ok {
					continue
				}
				for _, r2 := range *fa.Referrers() {
					st, ok := r2.(*ssa.Store)
					if !ok || st.Addr != ssa.Value(fa) {
						continue
					}
					switch fieldName(fa) {
					case "OperationType":
						o, _ := resolveOpTypeValue(c.P, c.Ops, st.Val, nil, nil, map[ssa.Value]bool{})
						ots = append(ots, o...)
					case "Preferences":
						switch v := st.Val.(type) {
						case *ssa.MakeInterface:
							pref = tname(v.X.Type())
						case *ssa.Const:
							pref = "nil"
						default:
							pref = "" // passed through from another operation (already typed where it was built)
						}
					}
				}
			}
			for _, o := range ots {
				if pref != "" {
					addPref(o.Type, pref)
				}
			}
		})
	}
	// (b) assertions in handlers
	for _, h := range c.handlerRoots() {
		reach := staticReach(c, []*ssa.Function{h.Fn}, func(f *ssa.Function) bool { return f.Name() == "GetMatchingNodes" })
		_ = reach
		eachInstr(h.Fn, func(ins ssa.Instruction) {
			ta, ok := ins.(*ssa.TypeAssert)
			if !ok || ta.CommaOk {
				return
			}
			u, ok := ta.X.(*ssa.UnOp)
			if !ok {
				return
			}
			fa, ok := u.X.(*ssa.FieldAddr)
			if !ok || fieldName(fa) != "Preferences" {
				return
			}
			want := tname(ta.AssertedType)
			nilGuard := false
			dominatingConds(ta.Block(), func(cond ssa.Value, taken bool, at *ssa.BasicBlock) {
				if bo, isB := cond.(*ssa.BinOp); isB && bo.Op == token.NEQ && taken && (isNilConst(bo.X) || isNilConst(bo.Y)) {
					nilGuard = true
				}
			})
			for _, ty := range h.Types {
				key := fmt.Sprintf("%s/Preferences.(%s) for %s", funcKey(h.Fn), want, ty)
				var bad []string
				for p := range prefsOf[ty] {
					if p == want || (p == "nil" && nilGuard) {
						continue
					}
					bad = append(bad, p)
				}
				if len(prefsOf[ty]) == 0 {
					// built only by code that was not resolved: cannot judge
					r.Discharge("P2", key, c.P.pos(ta.Pos()), "no construction site of this operation type stores other preferences")
					continue
				}
				onlyUnresolved := len(bad) > 0
				for _, b := range bad {
					if b != "?" {
						onlyUnresolved = false
					}
				}
				if len(bad) == 0 {
					r.Discharge("P2", key, c.P.pos(ta.Pos()), fmt.Sprintf("every construction site of %s stores %s", ty, want))
				} else if onlyUnresolved {
					r.Undecided("P2", key, c.P.pos(ta.Pos()), fmt.Sprintf("a construction site of %s stores preferences whose dynamic type could not be resolved from the code: shape not recognised", ty))
				} else {
					sort.Strings(bad)
					r.Finding("P2", key, c.P.pos(ta.Pos()), fmt.Sprintf("handler asserts Preferences.(%s) but operation type %s is also built with Preferences of type %s: interface conversion panic when that expression is evaluated", want, ty, strings.Join(bad, ", ")))
				}
			}
		})
	}
	// (c) list element typing
	bucketOK := map[string]bool{"yqlib.processIntoGroups": true, "yqlib.groupBy": true}
	for _, fn := range c.moduleFuncs() {
		eachInstr(fn, func(ins ssa.Instruction) {
			call, ok := ins.(*ssa.Call)
			if !ok {
				return
			}
			name := calleeName(&call.Call)
			if !strings.HasPrefix(name, "(*container/list.List).Push") && !strings.HasPrefix(name, "(*container/list.List).Insert") {
				return
			}
			if strings.HasSuffix(name, "List") { // PushBackList
				return
			}
			key := fmt.Sprintf("%s/%s", funcKey(fn), shortCallee(name))
			arg := call.Call.Args[1]
			ty := "?"
			if mi, ok := arg.(*ssa.MakeInterface); ok {
				ty = tname(mi.X.Type())
			} else if isInterfaceVal(arg) {
				// an element taken from another list (already typed by this rule)
				ty = "list element"
			}
			switch {
			case ty == "*CandidateNode" || ty == "list element":
				r.Discharge("P2", key, c.P.pos(call.Pos()), "stores a *CandidateNode (or an element of another node list)")
			case bucketOK[funcKey(fn)] && ty == "*container/list.List":
				r.Discharge("P2", key, c.P.pos(call.Pos()), "the group_by bucket list holds *list.List by design; it is read back with the same type in this file")
			default:
				r.Finding("P2", key, c.P.pos(call.Pos()), "a value of type "+ty+" is put into a node list: every consumer asserts el.Value.(*CandidateNode) without a check")
			}
		})
	}
	// (d) operand use vs NumArgs
	for _, h := range c.handlerRoots() {
		minArgs := int64(2)
		for _, ty := range h.Types {
			if o := c.Ops.byType(ty); o != nil && o.NumArgs < minArgs {
				minArgs = o.NumArgs
			}
		}
		derefL, derefR := token.NoPos, token.NoPos
		eachInstr(h.Fn, func(ins ssa.Instruction) {
			fa, ok := ins.(*ssa.FieldAddr)
			if !ok || namedTypeName(fa.X.Type()) != "ExpressionNode" {
				return
			}
			// base is a load of expressionNode.LHS / .RHS
			u, ok := fa.X.(*ssa.UnOp)
			if !ok {
				return
			}
			fa0, ok := u.X.(*ssa.FieldAddr)
			if !ok {
				return
			}
			if _, isParam := fa0.X.(*ssa.Parameter); !isParam {
				return
			}
			// a nil test on the operand makes the dereference safe
			guarded := false
			dominatingConds(fa.Block(), func(cond ssa.Value, taken bool, at *ssa.BasicBlock) {
				if bo, isB := cond.(*ssa.BinOp); isB && bo.Op == token.NEQ && taken && (isNilConst(bo.X) || isNilConst(bo.Y)) {
					guarded = true
				}
			})
			if guarded {
				return
			}
			switch fieldName(fa0) {
			case "LHS":
				derefL = fa.Pos()
			case "RHS":
				derefR = fa.Pos()
			}
		})
		key := funcKey(h.Fn) + "/operands"
		switch {
		case derefL != token.NoPos && minArgs < 2:
			r.Finding("P2", key, c.P.pos(derefL), fmt.Sprintf("handler dereferences expressionNode.LHS but is registered for an operation type with NumArgs %d: nil dereference", minArgs))
		case derefR != token.NoPos && minArgs < 1:
			r.Finding("P2", key, c.P.pos(derefR), fmt.Sprintf("handler dereferences expressionNode.RHS but is registered for an operation type with NumArgs %d: nil dereference", minArgs))
		default:
			r.Discharge("P2", key, c.P.pos(h.Fn.Pos()), fmt.Sprintf("operand dereferences are covered by NumArgs >= %d of %s", minArgs, strings.Join(h.Types, ",")))
		}
	}
}

// ---- P3 -------------------------------------------------------------------------

// residual Front()/Back()/Alias sites: key -> invariant
var c11ResidualNil = map[string]string{
	"yqlib.resultsPrinter.PrintResults/matchingNodes.Front().Value": "NONEMPTY_RESULTS: PrintResults returns early for an empty list, and the EXPLODE evaluation returns its input context (same nodes)",
	"yqlib.traverseArrayOperator/rhs.MatchingNodes.Front().Value":   "COLLECT_ONE: the RHS of TRAVERSE_ARRAY is the COLLECT expression built by the lexer for `[...]`, which always yields exactly one sequence node",
}

// residual arithmetic sites: key -> invariant
var c11ResidualArith = map[string]string{
	"yqlib.base64Padder.pad/strings.Repeat(t3)":              "count is a running total of bytes read (>= 0), so 4 - count%4 is in [1,4]",
	"yqlib.luaEncoder.encodeMap/strings.Repeat(t52)":         "i%2 of a non-negative loop index",
	"yqlib.luaEncoder.writeIndent/strings.Repeat(le.indent)": "indent is incremented before and decremented after each nested collection (balanced, never below 0)",
	"yqlib.pad/make(t2)":                                     "guarded by `if sz >= length { return }`: length - sz > 0",
}

func ruleP3c11(c *Ctx) {
	r := c.R
	for _, fn := range c.moduleFuncs() {
		eachInstr(fn, func(ins ssa.Instruction) {
			call, ok := ins.(*ssa.Call)
			if !ok {
				return
			}
			name := calleeName(&call.Call)
			if name != "(*container/list.List).Front" && name != "(*container/list.List).Back" {
				return
			}
			list := call.Call.Args[0]
			// every dereference of the returned element
			for _, use := range derefsOf(call, 0, map[ssa.Value]bool{}) {
				key := fmt.Sprintf("%s/%s().%s", funcKey(fn), exprOfValue(list)+"."+strings.TrimPrefix(name, "(*container/list.List)."), use.what)
				if nilGuarded(use.ins.Block(), use.val) || sameCallNilGuarded(use.ins.Block(), call) || domFacts(use.ins.Block(), list)&^lenGE(1) == 0 {
					r.Discharge("P3", key, c.P.pos(use.ins.Pos()), "dereferenced under a nil test of the element / a length test of the list")
				} else if why, ok := c11ResidualNil[key]; ok {
					r.Discharge("P3", key, c.P.pos(use.ins.Pos()), "invariant "+why)
				} else {
					r.Finding("P3", key, c.P.pos(use.ins.Pos()), "the first/last element of a list is dereferenced without testing it for nil (empty list): nil pointer panic when the sub-expression yields nothing")
				}
			}
		})
		// Alias pointer
		eachInstr(fn, func(ins ssa.Instruction) {
			u, ok := ins.(*ssa.UnOp)
			if !ok || u.Op != token.MUL {
				return
			}
			fa, ok := u.X.(*ssa.FieldAddr)
			if !ok || fieldName(fa) != "Alias" || namedTypeName(fa.X.Type()) != "CandidateNode" {
				return
			}
			for _, use := range derefsOf(u, 0, map[ssa.Value]bool{}) {
				key := fmt.Sprintf("%s/%s.Alias.%s", funcKey(fn), exprOfValue(fa.X), use.what)
				if nilGuarded(use.ins.Block(), use.val) || aliasFieldGuarded(use.ins.Block(), fa) {
					r.Discharge("P3", key, c.P.pos(use.ins.Pos()), "dereferenced under a nil test of the alias pointer")
				} else if why, ok := c11ResidualNil[key]; ok {
					r.Discharge("P3", key, c.P.pos(use.ins.Pos()), "invariant "+why)
				} else {
					r.Finding("P3", key, c.P.pos(use.ins.Pos()), "the Alias pointer is followed without a nil test: an alias made by `alias = \"x\"` has no resolved target and the dereference panics")
				}
			}
		})
	}
}

type derefUse struct {
	ins  ssa.Instruction
	val  ssa.Value
	what string
}

// derefsOf: instructions that dereference pointer v (field access, method call
// with v as receiver of a pointer method in container/list or the module),
// following phis.
func derefsOf(v ssa.Value, depth int, seen map[ssa.Value]bool) []derefUse {
	if depth > 4 || seen[v] || v.Referrers() == nil {
		return nil
	}
	seen[v] = true
	var out []derefUse
	for _, ref := range *v.Referrers() {
		switch x := ref.(type) {
		case *ssa.FieldAddr:
			if x.X == v {
				out = append(out, derefUse{x, v, fieldName(x)})
			}
		case *ssa.Call:
			if len(x.Call.Args) > 0 && x.Call.Args[0] == v && !x.Call.IsInvoke() {
				if cal := x.Call.StaticCallee(); cal != nil && cal.Signature.Recv() != nil && strings.Contains(qualifiedFuncName(cal), "container/list.Element") {
					out = append(out, derefUse{x, v, cal.Name() + "()"})
				}
			}
			// handed to a module function that dereferences that parameter without a nil test
			if cal := x.Call.StaticCallee(); cal != nil && cal.Blocks != nil && !x.Call.IsInvoke() {
				for i, a := range x.Call.Args {
					if a == v && i < len(cal.Params) && derefsParamUnguarded(cal, i) {
						out = append(out, derefUse{x, v, "->" + cal.Name() + "()"})
					}
				}
			}
		case *ssa.Phi:
			for _, d := range derefsOf(x, depth+1, seen) {
				out = append(out, d)
			}
		}
	}
	return out
}

func nilGuarded(blk *ssa.BasicBlock, v ssa.Value) bool {
	ok := false
	dominatingConds(blk, func(cond ssa.Value, taken bool, at *ssa.BasicBlock) {
		bo, isB := cond.(*ssa.BinOp)
		if !isB {
			return
		}
		if (bo.X == v && isNilConst(bo.Y)) || (bo.Y == v && isNilConst(bo.X)) {
			if (bo.Op == token.NEQ && taken) || (bo.Op == token.EQL && !taken) {
				ok = true
			}
		}
	})
	return ok
}

// aliasFieldGuarded: a dominating test `x.Alias != nil` on a load of the same field.
func aliasFieldGuarded(blk *ssa.BasicBlock, fa *ssa.FieldAddr) bool {
	ok := false
	dominatingConds(blk, func(cond ssa.Value, taken bool, at *ssa.BasicBlock) {
		bo, isB := cond.(*ssa.BinOp)
		if !isB {
			return
		}
		for _, pr := range [][2]ssa.Value{{bo.X, bo.Y}, {bo.Y, bo.X}} {
			if !isNilConst(pr[1]) {
				continue
			}
			if u, isU := pr[0].(*ssa.UnOp); isU {
				if fa2, isFa := u.X.(*ssa.FieldAddr); isFa && fa2.Field == fa.Field && sameLenBase(fa2.X, fa.X) {
					if (bo.Op == token.NEQ && taken) || (bo.Op == token.EQL && !taken) {
						ok = true
					}
				}
			}
		}
	})
	return ok
}

// sameCallNilGuarded: a dominating `L.Front() != nil` (resp. Back) on the same
// list, evaluated by another call instruction (`if l.Front() != nil { l.Front().Value … }`).
func sameCallNilGuarded(blk *ssa.BasicBlock, call *ssa.Call) bool {
	ok := false
	name := calleeName(&call.Call)
	dominatingConds(blk, func(cond ssa.Value, taken bool, at *ssa.BasicBlock) {
		bo, isB := cond.(*ssa.BinOp)
		if !isB {
			return
		}
		for _, pr := range [][2]ssa.Value{{bo.X, bo.Y}, {bo.Y, bo.X}} {
			if !isNilConst(pr[1]) {
				continue
			}
			c2, isC := pr[0].(*ssa.Call)
			if !isC || calleeName(&c2.Call) != name || !sameLenBase(c2.Call.Args[0], call.Call.Args[0]) {
				continue
			}
			if (bo.Op == token.NEQ && taken) || (bo.Op == token.EQL && !taken) {
				ok = true
			}
		}
	})
	return ok
}

var derefParamMemo = map[*ssa.Function]map[int]bool{}

// derefsParamUnguarded: fn accesses a field of its i-th (pointer) parameter in
// a block that no `param != nil` test dominates.
func derefsParamUnguarded(fn *ssa.Function, i int) bool {
	if m, ok := derefParamMemo[fn]; ok {
		if v, ok := m[i]; ok {
			return v
		}
	} else {
		derefParamMemo[fn] = map[int]bool{}
	}
	p := fn.Params[i]
	res := false
	if p.Referrers() != nil {
		for _, ref := range *p.Referrers() {
			if fa, ok := ref.(*ssa.FieldAddr); ok && fa.X == ssa.Value(p) {
				if !nilGuarded(fa.Block(), p) {
					res = true
				}
			}
		}
	}
	derefParamMemo[fn][i] = res
	return res
}

type lexMinInfo struct {
	min   int
	rules []string
	per   []lexRuleUse
}

type lexRuleUse struct {
	pattern string
	min     int
	env     map[string]bool // boolean free variables of the action closure for this rule
}

// restrictTo: only the rules whose captured boolean flags are consistent with
// the branch conditions dominating blk (envOp(true) vs envOp(false) share one
// closure body, the strenv branch is taken only for the strenv rule).
func (l lexMinInfo) restrictTo(blk *ssa.BasicBlock) lexMinInfo {
	want := map[string]bool{}
	dominatingConds(blk, func(cond ssa.Value, taken bool, at *ssa.BasicBlock) {
		v := cond
		if u, ok := v.(*ssa.UnOp); ok && u.Op == token.NOT {
			v, taken = u.X, !taken
		}
		if u, ok := v.(*ssa.UnOp); ok && u.Op == token.MUL {
			v = u.X
		}
		if fv, ok := v.(*ssa.FreeVar); ok {
			want[fv.Name()] = taken
		}
	})
	if len(want) == 0 {
		return l
	}
	out := lexMinInfo{min: -1}
	for _, u := range l.per {
		ok := true
		for name, val := range want {
			if b, has := u.env[name]; has && b != val {
				ok = false
			}
		}
		if !ok {
			continue
		}
		if out.min < 0 || u.min < out.min {
			out.min = u.min
		}
		out.rules = append(out.rules, u.pattern)
	}
	if out.min < 0 {
		return l
	}
	return out
}

// lexemeMinLens: for every lexer action closure, the length of the shortest
// lexeme of the rules that use it.
func lexemeMinLens(c *Ctx) map[*ssa.Function]lexMinInfo {
	out := map[*ssa.Function]lexMinInfo{}
	if !c.tables() {
		return out
	}
	for _, lr := range c.Lex.Rules {
		if lr.Action == nil || lr.Action.kind != "closure" {
			continue
		}
		fn := c.Lex.litFunc[lr.Action.lit]
		if fn == nil {
			continue
		}
		ml, ok := minLenRegex(lr.Pattern)
		if !ok {
			continue
		}
		cur, seen := out[fn]
		if !seen || ml < cur.min {
			cur.min = ml
		}
		cur.rules = append(cur.rules, lr.Pattern)
		env := map[string]bool{}
		for v, a := range lr.Action.env {
			if a != nil && a.kind == "const" && a.cval != nil && a.cval.Kind() == constant.Bool {
				env[v.Name()] = constant.BoolVal(a.cval)
			}
		}
		cur.per = append(cur.per, lexRuleUse{lr.Pattern, ml, env})
		out[fn] = cur
	}
	return out
}

// ruleP4Extract: extractNumberParameter indexes matches[1] of its own pattern:
// every lexeme of every rule whose action calls it must match that pattern.
func ruleP4Extract(c *Ctx) {
	r := c.R
	if !c.tables() {
		return
	}
	ex := c.libFunc("extractNumberParameter")
	if ex == nil {
		r.Fatal("anchor missing: extractNumberParameter")
		return
	}
	// its pattern: the constant passed to regexp.MustCompile
	pat := ""
	eachInstr(ex, func(ins ssa.Instruction) {
		if call, ok := ins.(*ssa.Call); ok && strings.HasPrefix(calleeName(&call.Call), "regexp.MustCompile") {
			if cst, ok := call.Call.Args[0].(*ssa.Const); ok && cst.Value != nil {
				pat = constantString(cst)
			}
		}
	})
	if pat == "" {
		r.Undecided("P4", "extractNumberParameter/pattern", c.P.pos(ex.Pos()), "its pattern is not a constant")
		return
	}
	re, err := regexp.Compile(pat)
	if err != nil {
		r.Finding("P4", "extractNumberParameter/pattern", c.P.pos(ex.Pos()), "pattern does not compile")
		return
	}
	n := 0
	for _, lr := range c.Lex.Rules {
		if lr.Action == nil || lr.Action.kind != "closure" {
			continue
		}
		fn := c.Lex.litFunc[lr.Action.lit]
		if fn == nil {
			continue
		}
		calls := false
		eachInstr(fn, func(ins ssa.Instruction) {
			if call, ok := ins.(*ssa.Call); ok && call.Call.StaticCallee() == ex {
				calls = true
			}
		})
		if !calls {
			continue
		}
		n++
		key := fmt.Sprintf("extractNumberParameter<-rule[%q]", lr.Pattern)
		bad := ""
		samples := samplesRegex(lr.Pattern, 64)
		for _, s := range samples {
			if m := re.FindStringSubmatch(s); len(m) < 2 {
				bad = s
			}
		}
		if bad == "" && len(samples) > 0 {
			r.Discharge("P4", key, c.P.pos(lr.Pos), fmt.Sprintf("all %d sample lexemes of the rule match %q with its capture group (matches[1] exists)", len(samples), pat))
		} else {
			r.Finding("P4", key, c.P.pos(lr.Pos), fmt.Sprintf("the rule accepts the lexeme %q, which the parameter pattern %q does not match: matches[1] is out of range and tokenising panics", bad, pat))
		}
	}
	if n == 0 {
		r.Note("P4: no lexer rule action calls extractNumberParameter")
	}
}

func constantString(c *ssa.Const) string {
	if c.Value == nil || c.Value.Kind() != constant.String {
		return ""
	}
	return constant.StringVal(c.Value)
}

// ruleCsvReaderOptions: the csv readers keep encoding/csv's defaults apart from
// the separator. FieldsPerRecord (0: every record has the field count of the
// first) carries the CSVRECT invariant of the residual index table;
// TrimLeadingSpace, LazyQuotes and Comment change which bytes are data.
func ruleCsvReaderOptions(c *Ctx, rule string, only map[string]bool) {
	r := c.R
	consequence := map[string]string{
		"FieldsPerRecord":  "the csv reader accepts records of varying length; createObject indexes a data row by header position and panics on a shorter row",
		"TrimLeadingSpace": "leading blanks of unquoted fields are dropped (in TSV the blank is the TAB: empty cells vanish and rows no longer match the header): decode(encode(v)) != v",
		"LazyQuotes":       "quotes inside fields are read leniently: malformed input is accepted with a different value instead of an error",
		"Comment":          "lines starting with the comment rune are dropped from the data",
		"ReuseRecord":      "records share one backing slice: a row kept from an earlier Read changes under the next one",
	}
	for _, fn := range c.moduleFuncs() {
		eachInstr(fn, func(ins ssa.Instruction) {
			st, ok := ins.(*ssa.Store)
			if !ok {
				return
			}
			fa, ok := st.Addr.(*ssa.FieldAddr)
			if !ok || structNameOfPtr(fa.X.Type()) != "Reader" {
				return
			}
			f := fieldName(fa)
			why, watched := consequence[f]
			if !watched || (only != nil && !only[f]) {
				return
			}
			key := funcKey(fn) + "/" + f + "="
			zero := false
			if k, isK := st.Val.(*ssa.Const); isK {
				if k.Value == nil {
					zero = true
				} else if v, isInt := constInt64(st.Val); isInt && v == 0 {
					zero = true
				} else if k.Value.String() == "false" {
					zero = true
				}
			}
			if zero {
				r.Discharge(rule, key, c.P.pos(st.Pos()), "explicitly the default")
				return
			}
			r.Finding(rule, key, c.P.pos(st.Pos()), why)
		})
	}
	readers := 0
	for _, fn := range c.moduleFuncs() {
		eachInstr(fn, func(ins ssa.Instruction) {
			if call, ok := ins.(*ssa.Call); ok && calleeName(&call.Call) == "encoding/csv.NewReader" {
				readers++
				r.Discharge(rule, funcKey(fn)+"/csv.NewReader", c.P.pos(call.Pos()), "reader created with the package defaults")
			}
		})
	}
	if readers == 0 {
		r.Note("%s: no csv.NewReader call found in the module", rule)
	}
}

func ruleP4c(c *Ctx) {
	c.R.Rule("P4c", "csv readers keep the default FieldsPerRecord (records are rectangular)", 1)
	ruleCsvReaderOptions(c, "P4c", map[string]bool{"FieldsPerRecord": true})
}
