package main

import (
	"fmt"
	"go/constant"
	"go/token"
	"go/types"
	"os"
	"sort"
	"strings"

	"golang.org/x/tools/go/ssa"
)

// Engine E1 — provenance / mutation-footprint analysis ("MutFX").
//
// For every function of the module a summary is computed, to a fixpoint over
// the call structure:
//   * for each result, where the returned reference may come from (a parameter,
//     a captured variable, a global, or an object allocated during the call),
//   * every store into an object that is not local to the call ("mutation
//     effect"), attributed to the root it was reached from, with the field
//     written, where the stored value comes from, and whether the store is
//     dominated by a `!ctx.DontAutoCreate` test,
//   * calls of function-valued parameters (callbacks) and dynamic evaluations
//     GetMatchingNodes(ctx, expr).
// Summaries are applied context-sensitively at call sites (roots are replaced
// by the origins of the actual arguments), so `AddChild` applied to a node that
// was just copied is silent while `flatten` applied to a matched node is an
// effect on the handler's context parameter.

type okind uint8

const (
	kParam okind = iota
	kFree
	kGlobal
	kLocal // allocated in the function under analysis (Alloc, make, composite)
	kRet   // fresh object returned by a call
	kFunc
	kUnknown
)

type obj struct {
	kind okind
	idx  int
	g    *ssa.Global
	site ssa.Value
	sub  int
	fn   *ssa.Function
	mc   *ssa.MakeClosure
	bind []oset // for kFunc created in another frame (already mapped)
	// contents of local / returned objects
	elem oset // what the object holds as a container / through non-node fields
	nin  oset // what it holds through Content (and elements of node slices)
	nkey oset // what it holds through the Key field (an attribute, not a child: traversal does not follow it)
	back oset // what it holds through Parent / Alias / Context.Variables
	w    bool // a Context made writable here (WritableClone result / Context{} literal)
}

type ref struct {
	o    *obj
	deep bool // something owned by / reachable inside the root
	back bool // reached through a Parent / Alias edge
	nd   bool // the path from the root passes through a node field (Content / Key)
}

type oset map[ref]struct{}

func (s oset) add(r ref) bool {
	if _, ok := s[r]; ok {
		return false
	}
	s[r] = struct{}{}
	return true
}

func (s oset) addAll(t oset) bool {
	ch := false
	for r := range t {
		if s.add(r) {
			ch = true
		}
	}
	return ch
}

func (o *obj) isRoot() bool {
	return o.kind == kParam || o.kind == kFree || o.kind == kGlobal || o.kind == kUnknown
}
func (o *obj) isObj() bool { return o.kind == kLocal || o.kind == kRet }

func (o *obj) String() string {
	switch o.kind {
	case kParam:
		return fmt.Sprintf("param#%d", o.idx)
	case kFree:
		return fmt.Sprintf("free#%d", o.idx)
	case kGlobal:
		return "global " + o.g.Name()
	case kLocal:
		return "local"
	case kRet:
		return "fresh"
	case kFunc:
		return "func " + o.fn.Name()
	}
	return "unknown"
}

func (r ref) String() string {
	s := r.o.String()
	if r.deep {
		s += ".deep"
	}
	if r.nd {
		s += ".nd"
	}
	if r.back {
		s += ".back"
	}
	return s
}

// effect kinds
type mutEffect struct {
	Base     ref    // root that is written (param/free/global of the summarised function)
	Class    string // node | expr | ctx | global | other
	StName   string // struct type whose field is written ("[]T" for a slice slot)
	Field    string
	Vals     oset // where the stored value comes from (roots / fresh marker)
	ValFresh bool
	Guarded  bool   // dominated by !ctx.DontAutoCreate
	AliasG   bool   // dominated by !encoder.CanHandleAliases()
	Dyn      string // non-empty: effect of a dynamic update evaluation (operator types)
	Site     ssa.Instruction
	SiteFn   *ssa.Function
	Chain    string
}

func (m *mutEffect) key() string {
	return fmt.Sprintf("%p|%v|%s|%s|%v|%v|%s", m.Site, m.Base, m.Class, m.Field, m.Guarded, m.AliasG, m.Dyn)
}

type putEffect struct {
	Base   ref
	Vals   oset
	Site   ssa.Instruction
	StName string
}

type cbCall struct {
	Fn   ref
	Args []oset
	Site ssa.Instruction
	Grd  bool
}

type evalEffect struct {
	Ctx  oset
	Expr oset
	Site ssa.Instruction
	Fn   *ssa.Function
	Grd  bool
	AlG  bool
}

type resultInfo struct {
	Direct    oset // the result may be (point to) these roots
	Fresh     bool // or an object allocated during the call
	Inner     oset // roots contained in returned fresh objects (container structure)
	InnerN    oset // roots held by returned fresh objects through Content
	InnerK    oset // roots held by returned fresh objects through Key
	InnerBack oset
}

type summary struct {
	fn      *ssa.Function
	results []*resultInfo
	muts    map[string]*mutEffect
	puts    map[string]*putEffect
	cbs     map[string]*cbCall
	evals   map[string]*evalEffect
	notes   []string
}

func newSummary(fn *ssa.Function) *summary {
	s := &summary{fn: fn, muts: map[string]*mutEffect{}, puts: map[string]*putEffect{}, cbs: map[string]*cbCall{}, evals: map[string]*evalEffect{}}
	n := fn.Signature.Results().Len()
	for i := 0; i < n; i++ {
		s.results = append(s.results, &resultInfo{Direct: oset{}, Inner: oset{}, InnerN: oset{}, InnerK: oset{}, InnerBack: oset{}})
	}
	return s
}

type mutfx struct {
	c         *Ctx
	sums      map[*ssa.Function]*summary
	funcs     []*ssa.Function
	inSet     map[*ssa.Function]bool
	changed   bool
	optypes   map[*ssa.Global]*OpType
	impls     map[string][]*ssa.Function // interface method name -> module implementations
	roots     map[string]*obj            // interned root objects (shared by all frames)
	undecided []string
	freshObj  *obj
	wevals    map[string]*wEval
	onceFuncs map[*ssa.Function]bool
	cgSites   map[ssa.Instruction][]*ssa.Function // call-graph resolution of dynamic call sites
	ver       map[*ssa.Function]int
	seenVer   map[*ssa.Function]map[*ssa.Function]int
	converged bool
}

func newMutFX(c *Ctx) *mutfx {
	c.P.buildSSA()
	m := &mutfx{c: c, onceFuncs: map[*ssa.Function]bool{}, wevals: map[string]*wEval{}, sums: map[*ssa.Function]*summary{}, inSet: map[*ssa.Function]bool{}, optypes: map[*ssa.Global]*OpType{}, impls: map[string][]*ssa.Function{}, roots: map[string]*obj{}}
	m.freshObj = &obj{kind: kRet}
	if c.tables() {
		sp := c.P.SSAPkg[c.P.LibPath]
		for _, ot := range c.Ops.List {
			if g, ok := sp.Members[ot.VarName].(*ssa.Global); ok {
				m.optypes[g] = ot
			}
		}
	}
	return m
}

func (m *mutfx) rootObj(kind okind, idx int, g *ssa.Global) *obj {
	k := fmt.Sprintf("%d/%d/%p", kind, idx, g)
	if o, ok := m.roots[k]; ok {
		return o
	}
	o := &obj{kind: kind, idx: idx, g: g}
	m.roots[k] = o
	return o
}

// collect the functions to analyse: everything in the module with a body,
// including closures and synthetic wrappers that are referenced.
func (m *mutfx) collect() {
	add := func(fn *ssa.Function) {
		if fn == nil || fn.Blocks == nil || m.inSet[fn] {
			return
		}
		m.inSet[fn] = true
		m.funcs = append(m.funcs, fn)
	}
	for _, fn := range m.c.moduleFuncs() {
		add(fn)
	}
	// method implementations by name for interface dispatch
	for _, fn := range m.funcs {
		if fn.Signature.Recv() != nil {
			m.impls[fn.Name()] = append(m.impls[fn.Name()], fn)
		}
	}
	for i := 0; i < len(m.funcs); i++ {
		fn := m.funcs[i]
		eachInstr(fn, func(ins ssa.Instruction) {
			for _, op := range ins.Operands(nil) {
				if op == nil || *op == nil {
					continue
				}
				switch v := (*op).(type) {
				case *ssa.Function:
					if v.Blocks != nil && (m.c.P.isModulePath(funcPkgPath(v)) || v.Synthetic != "") && !strings.HasSuffix(funcPkgPath(v), "/test") {
						if v.Synthetic == "" || strings.Contains(v.Synthetic, "bound") || strings.Contains(v.Synthetic, "thunk") || strings.Contains(v.Synthetic, "wrapper") {
							if m.c.P.isModulePath(funcPkgPath(v)) || v.Synthetic != "" && syntheticTargetsModule(m.c, v) {
								add(v)
							}
						}
					}
				case *ssa.MakeClosure:
					if f, ok := v.Fn.(*ssa.Function); ok && f.Blocks != nil && (m.c.P.isModulePath(funcPkgPath(f)) || syntheticTargetsModule(m.c, f)) {
						add(f)
					}
				}
			}
		})
	}
	sort.SliceStable(m.funcs, func(i, j int) bool { return funcKey(m.funcs[i]) < funcKey(m.funcs[j]) })
}

func syntheticTargetsModule(c *Ctx, fn *ssa.Function) bool {
	ok := false
	eachInstr(fn, func(ins ssa.Instruction) {
		if cc := callCommon(ins); cc != nil {
			if cal := cc.StaticCallee(); cal != nil && c.P.isModulePath(funcPkgPath(cal)) {
				ok = true
			}
		}
	})
	return ok
}

func (m *mutfx) run() {
	m.collect()
	// dynamic calls whose callee value is loaded from a package-level table
	// (the lexer's rule actions) are resolved with the VTA call graph
	m.cgSites = map[ssa.Instruction][]*ssa.Function{}
	g := m.c.P.CallGraph("vta")
	for _, fn := range m.funcs {
		n := g.Nodes[fn]
		if n == nil {
			continue
		}
		for _, e := range n.Out {
			if e.Site == nil || e.Callee == nil || e.Callee.Func == nil {
				continue
			}
			if e.Site.Common().StaticCallee() != nil || e.Site.Common().IsInvoke() {
				continue
			}
			if m.inSet[e.Callee.Func] {
				m.cgSites[e.Site] = append(m.cgSites[e.Site], e.Callee.Func)
			}
		}
	}
	for _, fn := range m.funcs {
		m.sums[fn] = newSummary(fn)
	}
	m.ver = map[*ssa.Function]int{}
	m.seenVer = map[*ssa.Function]map[*ssa.Function]int{}
	analyses := 0
	for round := 0; round < 60; round++ {
		any := false
		for _, fn := range m.funcs {
			if deps, ok := m.seenVer[fn]; ok {
				stale := false
				for d, v := range deps {
					if m.ver[d] != v {
						stale = true
					}
				}
				if !stale {
					continue
				}
			}
			m.changed = false
			m.analyse(fn)
			analyses++
			if m.changed {
				m.ver[fn]++
				any = true
			}
		}
		if !any {
			m.c.R.Analysed["mutfx_rounds"] = round + 1
			m.converged = true
			break
		}
	}
	m.c.R.Analysed["mutfx_function_analyses"] = analyses
	m.c.R.Analysed["mutfx_functions"] = len(m.funcs)
}

// ---------------------------------------------------------------------------
// per-function analysis
// ---------------------------------------------------------------------------

type frame struct {
	m       *mutfx
	fn      *ssa.Function
	sum     *summary
	val     map[ssa.Value]oset
	tup     map[ssa.Value][]oset
	objs    map[string]*obj
	dirty   bool
	grd     map[*ssa.BasicBlock][2]bool // autocreate-guarded, alias-guarded
	curSite ssa.Instruction
}

func hasRefs(t types.Type) bool {
	return hasRefsD(t, 0)
}

func hasRefsD(t types.Type, d int) bool {
	if d > 6 {
		return true
	}
	switch u := t.Underlying().(type) {
	case *types.Basic:
		return u.Kind() == types.UnsafePointer
	case *types.Pointer, *types.Slice, *types.Map, *types.Chan, *types.Signature, *types.Interface:
		return true
	case *types.Struct:
		for i := 0; i < u.NumFields(); i++ {
			if hasRefsD(u.Field(i).Type(), d+1) {
				return true
			}
		}
		return false
	case *types.Array:
		return hasRefsD(u.Elem(), d+1)
	case *types.Tuple:
		for i := 0; i < u.Len(); i++ {
			if hasRefsD(u.At(i).Type(), d+1) {
				return true
			}
		}
		return false
	}
	return true
}

func isStructVal(t types.Type) bool {
	switch t.Underlying().(type) {
	case *types.Struct, *types.Array:
		return true
	}
	return false
}

func (f *frame) localObj(kind okind, site ssa.Value, sub int) *obj {
	k := fmt.Sprintf("%d/%p/%d", kind, site, sub)
	if o, ok := f.objs[k]; ok {
		return o
	}
	o := &obj{kind: kind, site: site, sub: sub, elem: oset{}, nin: oset{}, nkey: oset{}, back: oset{}}
	f.objs[k] = o
	return o
}

func (f *frame) funcObj(fn *ssa.Function, mc *ssa.MakeClosure) *obj {
	k := fmt.Sprintf("fn/%p/%p", fn, mc)
	if o, ok := f.m.roots[k]; ok {
		return o
	}
	o := &obj{kind: kFunc, fn: fn, mc: mc}
	f.m.roots[k] = o
	return o
}

// bindingsOf: what a closure object captured, in this frame's terms.
func (f *frame) bindingsOf(o *obj) []oset {
	if o.mc != nil && o.mc.Parent() == f.fn {
		var b []oset
		for _, bv := range o.mc.Bindings {
			b = append(b, f.get(bv))
		}
		return b
	}
	if o.mc != nil {
		return nil // created elsewhere and not translated: captured variables unknown here
	}
	return o.bind
}

func (f *frame) set(v ssa.Value, s oset) {
	cur := f.val[v]
	if cur == nil {
		cur = oset{}
		f.val[v] = cur
	}
	if cur.addAll(s) {
		f.dirty = true
	}
}

func (f *frame) get(v ssa.Value) oset {
	switch x := v.(type) {
	case *ssa.Const:
		return nil
	case *ssa.Function:
		return oset{ref{o: f.funcObj(x, nil)}: {}}
	case *ssa.Global:
		// address of the global variable
		return oset{ref{o: f.m.rootObj(kGlobal, 0, x)}: {}}
	case *ssa.Builtin:
		return nil
	}
	return f.val[v]
}

func single(r ref) oset { return oset{r: {}} }

// fieldClass of a field: "back" for CandidateNode.Parent/Alias, else "owned".
func fieldIsBack(structName, field string) bool {
	return (structName == "CandidateNode" && (field == "Parent" || field == "Alias")) || (structName == "Context" && field == "Variables")
}

// contents returns what a load from refs yields: through a back field
// (Parent/Alias/Variables), through a node field (viaNode: Content/Key/node
// slice element) or through any other owned field / container element.
func (f *frame) contents(s oset, back bool, viaNode ...bool) oset {
	vn := len(viaNode) > 0 && viaNode[0]
	vk := len(viaNode) > 1 && viaNode[1]
	out := oset{}
	for r := range s {
		if r.o.isObj() {
			if back {
				out.addAll(r.o.back)
			} else if vk {
				out.addAll(r.o.nkey)
				out.add(ref{o: r.o, deep: true, nd: true})
			} else {
				out.addAll(r.o.elem)
				if vn {
					out.addAll(r.o.nin)
				}
				out.add(ref{o: r.o, deep: true, nd: r.nd || vn})
			}
			continue
		}
		if r.o.kind == kFunc {
			continue
		}
		if back {
			out.add(ref{o: r.o, deep: r.deep, nd: r.nd, back: true})
		} else {
			out.add(ref{o: r.o, deep: true, back: r.back, nd: r.nd || vn || vk})
		}
	}
	return out
}

// closure: everything reachable inside local/fresh objects of s through their
// container structure (roots as they are).
func closure(s oset) oset {
	out := oset{}
	var walk func(r ref, d int)
	seen := map[*obj]bool{}
	walk = func(r ref, d int) {
		out.add(r)
		if r.o.isObj() && !seen[r.o] && d < 12 {
			seen[r.o] = true
			for e := range r.o.elem {
				walk(e, d+1)
			}
		}
	}
	for r := range s {
		walk(r, 0)
	}
	return out
}

// closureNin: what the objects reachable from s hold through node fields
// (roots are flagged nd).
func closureNin(s oset) oset {
	out := oset{}
	seen := map[*obj]bool{}
	var walk func(r ref, d int, viaN bool)
	walk = func(r ref, d int, viaN bool) {
		if viaN {
			if r.o.isRoot() {
				r.nd = true
			}
			out.add(r)
		}
		if r.o.isObj() && d < 12 {
			k := r.o
			if seen[k] {
				return
			}
			seen[k] = true
			for e := range r.o.elem {
				walk(e, d+1, viaN)
			}
			for e := range r.o.nin {
				walk(e, d+1, true)
			}
		}
	}
	for r := range s {
		walk(r, 0, false)
	}
	return out
}

type addrInfo struct {
	base   ssa.Value
	back   bool
	field  string
	stName string
	cell   bool // the address is a variable cell (Alloc / Global / FreeVar)
	viaN   bool // the Content field or an element of a node slice
	viaK   bool // the Key field
}

func structNameOfPtr(t types.Type) string {
	return namedTypeName(t)
}

func (f *frame) addr(a ssa.Value) addrInfo {
	switch x := a.(type) {
	case *ssa.FieldAddr:
		st := structNameOfPtr(x.X.Type())
		fn := fieldName(x)
		return addrInfo{base: x.X, back: fieldIsBack(st, fn), field: fn, stName: st, viaN: st == "CandidateNode" && fn == "Content", viaK: st == "CandidateNode" && fn == "Key"}
	case *ssa.IndexAddr:
		en := elemTypeName(x.X.Type())
		return addrInfo{base: x.X, field: "[]", stName: en, viaN: en == "[]CandidateNode"}
	case *ssa.Alloc, *ssa.Global, *ssa.FreeVar:
		return addrInfo{base: a, cell: true, field: "*"}
	}
	return addrInfo{base: a, field: "*", stName: structNameOfPtr(a.Type())}
}

func elemTypeName(t types.Type) string {
	switch u := t.Underlying().(type) {
	case *types.Slice:
		return "[]" + namedTypeName(u.Elem())
	case *types.Pointer:
		if a, ok := u.Elem().Underlying().(*types.Array); ok {
			return "[]" + namedTypeName(a.Elem())
		}
	case *types.Map:
		return "map"
	}
	return ""
}

func (f *frame) load(a ssa.Value) oset {
	ai := f.addr(a)
	return f.contents(f.get(ai.base), ai.back, ai.viaN, ai.viaK)
}

// classOf: which kind of object a store through this address writes.
func classOf(ai addrInfo) string {
	switch ai.stName {
	case "CandidateNode", "[]CandidateNode":
		return "node"
	case "ExpressionNode", "Operation", "operationType", "[]ExpressionNode", "[]Operation":
		return "expr"
	case "Context":
		return "ctx"
	}
	return "other"
}

func (f *frame) guards(b *ssa.BasicBlock) (bool, bool) {
	if g, ok := f.grd[b]; ok {
		return g[0], g[1]
	}
	ac, al := false, false
	dominatingConds(b, func(cond ssa.Value, taken bool, at *ssa.BasicBlock) {
		v := cond
		if u, ok := v.(*ssa.UnOp); ok && u.Op == token.NOT {
			v, taken = u.X, !taken
		}
		// a boolean computed beforehand (`ok := !(splat || ctx.DontAutoCreate)`): what its value says about the flag
		if _, isPhi := v.(*ssa.Phi); isPhi && boolImpliesFlagDown(v, taken, 0) {
			ac = true
		}
		// load of X.DontAutoCreate where X is a Context
		switch x := v.(type) {
		case *ssa.UnOp:
			if fa, ok := x.X.(*ssa.FieldAddr); ok && x.Op == token.MUL && fieldName(fa) == "DontAutoCreate" && structNameOfPtr(fa.X.Type()) == "Context" && !taken {
				ac = true
			}
		case *ssa.Field:
			if fieldNameOfField(x) == "DontAutoCreate" && namedTypeName(x.X.Type()) == "Context" && !taken {
				ac = true
			}
		case *ssa.Call:
			if x.Call.IsInvoke() && x.Call.Method.Name() == "CanHandleAliases" && !taken {
				al = true
			}
		}
	})
	f.grd[b] = [2]bool{ac, al}
	return ac, al
}

func (f *frame) recordMut(base ref, ai addrInfo, class string, vals oset, ins ssa.Instruction) {
	ac, al := f.guards(ins.Block())
	e := &mutEffect{Base: base, Class: class, StName: ai.stName, Field: ai.field, Vals: rootsOnly(closure(vals)), ValFresh: hasFresh(vals), Guarded: ac, AliasG: al, Site: ins, SiteFn: f.fn, Chain: funcKey(f.fn)}
	f.addMut(e)
}

func (f *frame) addMut(e *mutEffect) {
	k := e.key()
	if old, ok := f.sum.muts[k]; ok {
		if old.Vals.addAll(e.Vals) {
			f.m.changed = true
		}
		if e.ValFresh && !old.ValFresh {
			old.ValFresh = true
			f.m.changed = true
		}
		return
	}
	f.sum.muts[k] = e
	f.m.changed = true
}

func rootsOnly(s oset) oset {
	out := oset{}
	for r := range s {
		if r.o.isRoot() {
			out.add(r)
		}
	}
	return out
}

func hasFresh(s oset) bool {
	for r := range s {
		if r.o.isObj() {
			return true
		}
	}
	return false
}

func (f *frame) recordPut(base ref, vals oset, ins ssa.Instruction, stName ...string) {
	sn := ""
	if len(stName) > 0 {
		sn = stName[0]
	}
	if sn != "" && !f.rootMayHold(base, sn) {
		return
	}
	k := fmt.Sprintf("%p|%v", ins, base)
	rv := rootsOnly(closure(vals))
	if old, ok := f.sum.puts[k]; ok {
		if old.Vals.addAll(rv) {
			f.m.changed = true
		}
		return
	}
	f.sum.puts[k] = &putEffect{Base: base, Vals: rv, Site: ins, StName: sn}
	f.m.changed = true
}

// store: *a = v
func (f *frame) store(a ssa.Value, vals oset, ins ssa.Instruction, valIsStruct bool) {
	ai := f.addr(a)
	class := classOf(ai)
	for r := range f.get(ai.base) {
		switch {
		case r.o.isObj():
			tgt := r.o.elem
			if ai.back {
				tgt = r.o.back
			} else if ai.viaN {
				tgt = r.o.nin
			} else if ai.viaK {
				tgt = r.o.nkey
			}
			if tgt.addAll(vals) {
				f.dirty = true
			}
		case r.o.kind == kFunc:
		default:
			if ai.cell && r.o.kind == kGlobal && !r.deep {
				f.recordMut(r, addrInfo{field: r.o.g.Name(), stName: "global"}, "global", vals, ins)
				continue
			}
			if class == "other" || class == "ctx" {
				if r.o.kind == kGlobal {
					if f.rootMayHold(r, ai.stName) {
						f.recordMut(r, ai, "global", vals, ins)
					}
				} else {
					f.recordPut(r, vals, ins, ai.stName)
				}
			} else if f.rootMayHold(r, ai.stName) {
				f.recordMut(r, ai, class, vals, ins)
			}
		}
	}
}

func (m *mutfx) analyse(fn *ssa.Function) {
	m.seenVer[fn] = map[*ssa.Function]int{}
	f := &frame{m: m, fn: fn, sum: m.sums[fn], val: map[ssa.Value]oset{}, tup: map[ssa.Value][]oset{}, objs: map[string]*obj{}, grd: map[*ssa.BasicBlock][2]bool{}}
	for i, p := range fn.Params {
		if !hasRefs(p.Type()) {
			continue
		}
		r := ref{o: m.rootObj(kParam, i, nil)}
		if isStructVal(p.Type()) {
			r.deep = true
		}
		f.val[p] = single(r)
	}
	for j, fv := range fn.FreeVars {
		r := ref{o: m.rootObj(kFree, j, nil)}
		if isStructVal(fv.Type()) {
			r.deep = true
		}
		f.val[fv] = single(r)
	}
	for pass := 0; pass < 30; pass++ {
		f.dirty = false
		for _, b := range fn.Blocks {
			for _, ins := range b.Instrs {
				f.step(ins)
			}
		}
		if !f.dirty {
			break
		}
	}
	if dbg := os.Getenv("MUTFX_DEBUG"); dbg != "" && dbg == funcKey(fn) {
		fmt.Println("---- frame", funcKey(fn))
		for _, b := range fn.Blocks {
			for _, ins := range b.Instrs {
				if v, ok := ins.(ssa.Value); ok {
					extra := ""
					if t, ok := f.tup[v]; ok {
						for i, s := range t {
							extra += fmt.Sprintf(" #%d=%s", i, setStrObj(s))
						}
					}
					fmt.Printf("  %s = %s   :: %s%s\n", v.Name(), ins.String(), setStrObj(f.val[v]), extra)
				}
			}
		}
	}
	// export results
	for _, b := range fn.Blocks {
		ret, ok := b.Instrs[len(b.Instrs)-1].(*ssa.Return)
		if !ok {
			continue
		}
		for i := range ret.Results {
			if i >= len(f.sum.results) {
				break
			}
			v := returnedValue(ret, i)
			f.export(f.sum.results[i], f.get(v))
		}
	}
}

func (f *frame) export(ri *resultInfo, s oset) {
	grow := func(t oset, r ref) {
		if t.add(r) {
			f.m.changed = true
		}
	}
	for r := range s {
		switch {
		case r.o.isObj():
			if !ri.Fresh {
				ri.Fresh = true
				f.m.changed = true
			}
			for e := range closure(single(r)) {
				if e.o.isRoot() || (e.o.kind == kFunc && (e.o.mc != nil || e.o.bind == nil)) {
					grow(ri.Inner, f.exportRef(e))
				}
				if e.o.isObj() {
					for bk := range e.o.back {
						if bk.o.isRoot() {
							grow(ri.InnerBack, bk)
						}
					}
				}
			}
			for e := range closure(single(r)) {
				if e.o.isObj() {
					for k := range e.o.nkey {
						if k.o.isRoot() {
							k.nd = true
							grow(ri.InnerK, k)
						}
					}
				}
			}
			for e := range closureNin(single(r)) {
				if e.o.isObj() {
					for k := range e.o.nkey {
						if k.o.isRoot() {
							k.nd = true
							grow(ri.InnerK, k)
						}
					}
				}
				if e.o.isRoot() || (e.o.kind == kFunc && (e.o.mc != nil || e.o.bind == nil)) {
					grow(ri.InnerN, f.exportRef(e))
				}
				if e.o.isObj() {
					for bk := range e.o.back {
						if bk.o.isRoot() {
							grow(ri.InnerBack, bk)
						}
					}
				}
			}
		case r.o.kind == kFunc && r.o.mc == nil && r.o.bind != nil:
			// a translated closure passed along: not exported (none in this code base)
		default:
			grow(ri.Direct, f.exportRef(r))
		}
	}
}

// exportRef: function objects created in this frame carry their bindings.
func (f *frame) exportRef(r ref) ref {
	if r.o.kind == kFunc && r.o.mc != nil && r.o.mc.Parent() == f.fn {
		for i, bv := range r.o.mc.Bindings {
			for len(r.o.bind) <= i {
				r.o.bind = append(r.o.bind, oset{})
			}
			if r.o.bind[i].addAll(exportable(closure(f.get(bv)))) {
				f.m.changed = true
			}
		}
	}
	return r
}

// exportable: refs that make sense outside this frame.
func exportable(s oset) oset {
	out := oset{}
	for r := range s {
		if r.o.isRoot() || (r.o.kind == kFunc && (r.o.mc != nil || r.o.bind == nil)) {
			out.add(r)
		}
	}
	return out
}

func rootsAndFuncs(s oset) oset { return exportable(s) }

func (f *frame) step(ins ssa.Instruction) {
	switch x := ins.(type) {
	case *ssa.Alloc:
		o := f.localObj(kLocal, x, 0)
		if x.Comment == "complit" && namedTypeName(x.Type()) == "Context" && !storesField(x, "DontAutoCreate") {
			o.w = true
		}
		f.set(x, single(ref{o: o}))
	case *ssa.MakeSlice, *ssa.MakeMap, *ssa.MakeChan:
		v := ins.(ssa.Value)
		f.set(v, single(ref{o: f.localObj(kLocal, v, 0)}))
	case *ssa.MakeClosure:
		if fn, ok := x.Fn.(*ssa.Function); ok {
			f.set(x, single(ref{o: f.funcObj(fn, x)}))
		}
	case *ssa.UnOp:
		if x.Op == token.MUL {
			if hasRefs(x.Type()) {
				f.set(x, f.load(x.X))
			}
		} else if x.Op == token.ARROW {
			f.set(x, f.contents(f.get(x.X), false))
		}
	case *ssa.FieldAddr:
		f.set(x, f.get(x.X))
	case *ssa.IndexAddr:
		f.set(x, f.get(x.X))
	case *ssa.Field:
		if hasRefs(x.Type()) {
			st := namedTypeName(x.X.Type())
			fnm := fieldNameOfField(x)
			back := fieldIsBack(st, fnm)
			vn := st == "CandidateNode" && fnm == "Content"
			vk := st == "CandidateNode" && fnm == "Key"
			if back {
				f.set(x, f.contents(f.get(x.X), true))
			} else {
				// x.X is a struct value: its refs already denote contents
				s := oset{}
				s.addAll(f.get(x.X))
				s.addAll(f.contents(f.get(x.X), false, vn, vk))
				f.set(x, s)
			}
		}
	case *ssa.Index:
		if hasRefs(x.Type()) {
			s := oset{}
			s.addAll(f.get(x.X))
			s.addAll(f.contents(f.get(x.X), false, elemTypeName(x.X.Type()) == "[]CandidateNode"))
			f.set(x, s)
		}
	case *ssa.Lookup:
		if hasRefs(x.Type()) {
			s := f.contents(f.get(x.X), false)
			if x.CommaOk {
				f.tup[x] = []oset{s, nil}
			} else {
				f.set(x, s)
			}
		}
	case *ssa.Slice:
		f.set(x, f.get(x.X))
	case *ssa.Phi:
		for _, e := range x.Edges {
			f.set(x, f.get(e))
		}
	case *ssa.Extract:
		if t, ok := f.tup[x.Tuple]; ok && x.Index < len(t) && t[x.Index] != nil {
			f.set(x, t[x.Index])
		}
	case *ssa.TypeAssert:
		if x.CommaOk {
			f.tup[x] = []oset{f.get(x.X), nil}
		} else {
			f.set(x, f.get(x.X))
		}
	case *ssa.ChangeType:
		f.set(x, f.get(x.X))
	case *ssa.ChangeInterface:
		f.set(x, f.get(x.X))
	case *ssa.MakeInterface:
		f.set(x, f.get(x.X))
	case *ssa.Convert:
		if hasRefs(x.Type()) {
			f.set(x, f.get(x.X))
		}
	case *ssa.SliceToArrayPointer:
		f.set(x, f.get(x.X))
	case *ssa.Range:
		f.set(x, f.get(x.X))
	case *ssa.Next:
		vn := false
		if rg, ok := x.Iter.(*ssa.Range); ok {
			vn = elemTypeName(rg.X.Type()) == "[]CandidateNode"
		}
		c := f.contents(f.get(x.Iter), false, vn)
		f.tup[x] = []oset{nil, c, c}
	case *ssa.Store:
		if hasRefs(x.Val.Type()) || true {
			var vals oset
			if hasRefs(x.Val.Type()) {
				vals = f.get(x.Val)
			}
			f.store(x.Addr, vals, x, isStructVal(x.Val.Type()))
		}
	case *ssa.MapUpdate:
		vals := oset{}
		vals.addAll(f.get(x.Key))
		vals.addAll(f.get(x.Value))
		f.containerPut(x.Map, vals, x)
	case *ssa.Send:
		f.containerPut(x.Chan, f.get(x.X), x)
	case *ssa.Call:
		f.call(x, &x.Call, x)
	case *ssa.Defer:
		f.call(x, &x.Call, nil)
	case *ssa.Go:
		f.call(x, &x.Call, nil)
	}
}

// containerPut: a value is put into a container (map / chan / list / slice cell).
func (f *frame) containerPut(container ssa.Value, vals oset, ins ssa.Instruction) {
	for r := range f.get(container) {
		switch {
		case r.o.isObj():
			if r.o.elem.addAll(vals) {
				f.dirty = true
			}
		case r.o.kind == kFunc:
		default:
			if r.o.kind == kGlobal {
				f.recordMut(r, addrInfo{field: "[]", stName: "global"}, "global", vals, ins)
			} else {
				f.recordPut(r, vals, ins)
			}
		}
	}
}

func (f *frame) setResult(call ssa.Value, n int, idx int, s oset) {
	if call == nil {
		return
	}
	if n <= 1 {
		f.set(call, s)
		return
	}
	t := f.tup[call]
	if t == nil {
		t = make([]oset, n)
		f.tup[call] = t
	}
	if t[idx] == nil {
		t[idx] = oset{}
	}
	if t[idx].addAll(s) {
		f.dirty = true
	}
}

// isGetMatchingNodes recognises the dynamic evaluation entry point.
func isGetMatchingNodes(cc *ssa.CallCommon) bool {
	if cc.IsInvoke() {
		return cc.Method.Name() == "GetMatchingNodes"
	}
	if cal := cc.StaticCallee(); cal != nil {
		return cal.Name() == "GetMatchingNodes" && cal.Signature.Recv() != nil
	}
	return false
}

func (f *frame) call(ins ssa.Instruction, cc *ssa.CallCommon, resv ssa.Value) {
	nres := cc.Signature().Results().Len()
	args := cc.Args
	var argSets []oset
	for _, a := range args {
		if hasRefs(a.Type()) {
			argSets = append(argSets, f.get(a))
		} else {
			argSets = append(argSets, nil)
		}
	}
	// builtins
	if b, ok := cc.Value.(*ssa.Builtin); ok {
		switch b.Name() {
		case "append":
			res := oset{}
			res.addAll(argSets[0])
			o := f.localObj(kLocal, resv, 1)
			if resv != nil {
				res.add(ref{o: o})
				vn := elemTypeName(args[0].Type()) == "[]CandidateNode"
				tgt := o.elem
				if vn {
					tgt = o.nin
				}
				if tgt.addAll(f.contents(argSets[0], false, vn)) {
					f.dirty = true
				}
				if len(argSets) > 1 && argSets[1] != nil {
					if tgt.addAll(f.contents(argSets[1], false, vn)) {
						f.dirty = true
					}
					// the appended elements also land in the first argument's backing array
					for r := range argSets[0] {
						if r.o.isObj() {
							t2 := r.o.elem
							if vn {
								t2 = r.o.nin
							}
							if t2.addAll(f.contents(argSets[1], false, vn)) {
								f.dirty = true
							}
						}
					}
				}
				f.set(resv, res)
			}
		case "copy":
			if len(argSets) == 2 {
				f.containerPut(args[0], f.contents(argSets[1], false, true), ins)
			}
		case "delete":
			f.containerPut(args[0], nil, ins)
		}
		return
	}
	// dynamic evaluation
	if isGetMatchingNodes(cc) {
		var ctxS, exprS oset
		if cc.IsInvoke() {
			ctxS, exprS = argSets[0], argSets[1]
		} else {
			ctxS, exprS = argSets[1], argSets[2]
		}
		ac, al := f.guards(ins.Block())
		f.evalDyn(ctxS, exprS, ins, f.fn, ac, al, funcKey(f.fn))
		// result: a Context whose nodes are nodes of ctx, or fresh
		res := oset{}
		res.addAll(ctxS)
		res.addAll(f.contents(ctxS, false))
		o := f.localObj(kRet, resv, 0)
		res.add(ref{o: o, deep: true})
		f.setResult(resv, nres, 0, res)
		return
	}
	// an expression parsed at run time from a string is a user expression like
	// the handler's own operands: opaque, nothing is attributed to evaluating it
	if (cc.IsInvoke() && cc.Method.Name() == "ParseExpression") || (cc.StaticCallee() != nil && cc.StaticCallee().Name() == "ParseExpression") {
		if resv != nil {
			o := f.localObj(kRet, resv, 0)
			f.setResult(resv, nres, 0, single(ref{o: o}))
		}
		return
	}
	// static module callee
	if cal := cc.StaticCallee(); cal != nil && f.m.inSet[cal] {
		f.apply(f.m.sums[cal], argSets, nil, ins, resv, nres, funcKey(cal))
		return
	}
	// interface dispatch to module implementations
	if cc.IsInvoke() {
		impls := f.m.impls[cc.Method.Name()]
		recvT := cc.Value.Type()
		matched := 0
		for _, im := range impls {
			rt := im.Signature.Recv().Type()
			if types.Implements(rt, recvT.Underlying().(*types.Interface)) {
				matched++
				all := append([]oset{f.get(cc.Value)}, argSets...)
				f.apply(f.m.sums[im], all, nil, ins, resv, nres, funcKey(im))
			}
		}
		if matched > 0 {
			return
		}
		f.foreign(append([]oset{f.get(cc.Value)}, argSets...), ins, resv, nres, cc.Method.Name(), true)
		return
	}
	// call of a function value
	if cc.StaticCallee() == nil {
		resolved := false
		for r := range f.get(cc.Value) {
			switch {
			case r.o.kind == kFunc:
				if f.m.inSet[r.o.fn] {
					resolved = true
					f.apply(f.m.sums[r.o.fn], argSets, f.bindingsOf(r.o), ins, resv, nres, funcKey(r.o.fn))
				}
			case r.o.isRoot():
				resolved = true
				f.recordCb(r, argSets, ins)
				if r.o.kind == kGlobal {
					// a function stored in a package-level table: every function the
					// call graph allows at this site
					for _, cal := range f.m.cgSites[ins] {
						f.apply(f.m.sums[cal], argSets, nil, ins, resv, nres, funcKey(cal))
					}
				}
			}
		}
		_ = resolved
		// result of an unresolved / callback call: fresh thing that may contain its arguments
		if resv != nil {
			f.foreign(argSets, ins, resv, nres, "func-value", false)
		}
		return
	}
	// foreign function
	name := calleeName(cc)
	f.foreign(argSets, ins, resv, nres, name, cc.StaticCallee().Signature.Recv() != nil)
}

func (f *frame) recordCb(fnRef ref, args []oset, ins ssa.Instruction) {
	k := fmt.Sprintf("%p|%v", ins, fnRef)
	ac, _ := f.guards(ins.Block())
	var mapped []oset
	for _, a := range args {
		mapped = append(mapped, rootsAndFuncs(closure(a)))
	}
	if old, ok := f.sum.cbs[k]; ok {
		for i := range mapped {
			if i < len(old.Args) && old.Args[i].addAll(mapped[i]) {
				f.m.changed = true
			}
		}
		return
	}
	f.sum.cbs[k] = &cbCall{Fn: fnRef, Args: mapped, Site: ins, Grd: ac}
	f.m.changed = true
}

// foreign: a function outside the module. Its result is a fresh object that
// may contain its arguments; local container arguments may receive the others.
func (f *frame) foreign(args []oset, ins ssa.Instruction, resv ssa.Value, nres int, name string, method bool) {
	all := oset{}
	for _, a := range args {
		all.addAll(a)
	}
	// closures handed to a foreign function run there (strings.Map, sort.Slice,
	// regexp.ReplaceAllStringFunc ...). sync.Once.Do runs its argument at most
	// once per process: start-up initialisation, not evaluation state.
	for _, a := range args {
		for r := range a {
			if r.o.kind == kFunc && f.m.inSet[r.o.fn] {
				if strings.HasSuffix(name, "sync.Once).Do") {
					f.m.onceFuncs[r.o.fn] = true
					continue
				}
				np := len(r.o.fn.Params)
				cargs := make([]oset, np)
				for i := range cargs {
					cargs[i] = all
				}
				f.apply(f.m.sums[r.o.fn], cargs, f.bindingsOf(r.o), ins, nil, 0, funcKey(r.o.fn))
			}
		}
	}
	mutator := method && len(args) > 0 && foreignMutates(name)
	if mutator {
		rest := oset{}
		for _, a := range args[1:] {
			rest.addAll(a)
		}
		for r := range args[0] {
			switch {
			case r.o.isObj():
				if r.o.elem.addAll(rest) {
					f.dirty = true
				}
			case r.o.isRoot():
				if r.o.kind == kGlobal {
					f.recordMut(r, addrInfo{field: name, stName: "global"}, "global", rest, ins)
				} else {
					f.recordPut(r, rest, ins)
				}
			}
		}
	}
	if resv != nil && nres > 0 {
		res := f.m.c.P.SSA // silence
		_ = res
		sig := resultTypes(resv, nres)
		for i := 0; i < nres; i++ {
			if !hasRefs(sig[i]) {
				continue
			}
			o := f.localObj(kRet, resv, i)
			if o.elem.addAll(all) {
				f.dirty = true
			}
			f.setResult(resv, nres, i, single(ref{o: o}))
		}
	}
}

func resultTypes(v ssa.Value, n int) []types.Type {
	if n == 1 {
		return []types.Type{v.Type()}
	}
	t, ok := v.Type().(*types.Tuple)
	out := make([]types.Type, n)
	for i := 0; i < n; i++ {
		if ok && i < t.Len() {
			out[i] = t.At(i).Type()
		} else {
			out[i] = types.Typ[types.Invalid]
		}
	}
	return out
}

func foreignMutates(name string) bool {
	for _, s := range []string{"PushBack", "PushFront", "InsertBefore", "InsertAfter", "Set", "Remove", "Delete", "MoveTo", "Init", "Write", "Copy", "Decode", "Unmarshal", "Reset", "Append", "Add", "Put", "Store"} {
		if strings.Contains(name, s) {
			return true
		}
	}
	return false
}

// mapRef translates a ref of a callee summary into the caller's frame.
func (f *frame) mapRef(r ref, args []oset, bind []oset, paramIsStruct func(int) bool) oset {
	var src oset
	switch r.o.kind {
	case kParam:
		if r.o.idx < len(args) {
			src = args[r.o.idx]
		}
	case kFree:
		if r.o.idx < len(bind) {
			src = bind[r.o.idx]
		}
	case kFunc:
		if r.o.mc == nil || r.o.mc.Parent() == f.fn {
			return single(r)
		}
		// a closure created in the callee: translate what it captured
		k := fmt.Sprintf("fnmap/%p/%p/%p", r.o.fn, r.o.mc, f.curSite)
		no, ok := f.objs[k]
		if !ok {
			no = &obj{kind: kFunc, fn: r.o.fn, bind: []oset{}}
			f.objs[k] = no
		}
		for i, b := range r.o.bind {
			for len(no.bind) <= i {
				no.bind = append(no.bind, oset{})
			}
			for br := range b {
				if no.bind[i].addAll(f.mapRef(br, args, bind, paramIsStruct)) {
					f.dirty = true
				}
			}
		}
		return single(ref{o: no})
	case kGlobal, kUnknown:
		return single(r)
	default:
		return nil
	}
	out := oset{}
	for a := range src {
		if r.back {
			out.addAll(f.contents(single(a), true))
			continue
		}
		if r.deep {
			if (r.o.kind == kParam && paramIsStruct != nil && paramIsStruct(r.o.idx)) || r.o.kind == kFree {
				out.add(a)
			}
			if a.o.isRoot() {
				out.add(ref{o: a.o, deep: true, back: a.back, nd: a.nd || r.nd})
				continue
			}
			// everything reachable inside the local object a: its container
			// structure, and — when the callee descended through node fields —
			// what its nodes hold through Content / Key
			for e := range closure(f.contents(single(a), false)) {
				if e.o.isRoot() && r.nd {
					e.nd = true
				}
				out.add(e)
			}
			if r.nd {
				for e := range closureNin(single(a)) {
					out.add(e)
				}
				out.add(ref{o: a.o, deep: true, nd: true})
			}
			continue
		}
		if r.nd && a.o.isRoot() {
			a.nd = true
		}
		out.add(a)
	}
	return out
}

// apply a callee summary at a call site.
func (f *frame) apply(s *summary, args []oset, bind []oset, ins ssa.Instruction, resv ssa.Value, nres int, calleeName string) {
	if s == nil {
		return
	}
	f.m.seenVer[f.fn][s.fn] = f.m.ver[s.fn]
	pIsStruct := func(i int) bool {
		return i < len(s.fn.Params) && isStructVal(s.fn.Params[i].Type())
	}
	mp := func(r ref) oset { return f.mapRef(r, args, bind, pIsStruct) }
	mpSet := func(t oset) oset {
		out := oset{}
		for r := range t {
			out.addAll(mp(r))
		}
		return out
	}
	ac, al := f.guards(ins.Block())
	f.curSite = ins
	// results
	if resv != nil {
		for i, ri := range s.results {
			if i >= nres {
				break
			}
			res := mpSet(ri.Direct)
			if ri.Fresh {
				o := f.localObj(kRet, resv, i)
				if s.fn.Name() == "WritableClone" && namedTypeName(s.fn.Signature.Results().At(0).Type()) == "Context" {
					o.w = true
				}
				if o.elem.addAll(mpSet(ri.Inner)) {
					f.dirty = true
				}
				if o.nin.addAll(mpSet(ri.InnerN)) {
					f.dirty = true
				}
				if o.nkey.addAll(mpSet(ri.InnerK)) {
					f.dirty = true
				}
				if o.back.addAll(mpSet(ri.InnerBack)) {
					f.dirty = true
				}
				res.add(ref{o: o})
			}
			f.setResult(resv, nres, i, res)
		}
	}
	// mutation effects
	for _, e := range s.muts {
		vals := mpSet(e.Vals)
		for t := range mp(e.Base) {
			switch {
			case t.o.isObj():
				if t.deep {
					// written somewhere inside a local container: the roots it holds are the targets
					continue
				}
				tgt := t.o.elem
				if fieldIsBack("CandidateNode", e.Field) && e.Class == "node" {
					tgt = t.o.back
				} else if e.Class == "node" && (e.Field == "Content" || e.Field == "[]") {
					tgt = t.o.nin
				} else if e.Class == "node" && e.Field == "Key" {
					tgt = t.o.nkey
				}
				if tgt.addAll(vals) {
					f.dirty = true
				}
				if e.ValFresh {
					fo := f.localObj(kRet, resvOrIns(resv, ins), 1000)
					if tgt.add(ref{o: fo}) {
						f.dirty = true
					}
				}
			case t.o.kind == kFunc:
			default:
				if !f.rootMayHold(t, e.StName) {
					continue
				}
				ne := &mutEffect{Base: t, Class: e.Class, StName: e.StName, Field: e.Field, Vals: rootsOnly(vals), ValFresh: e.ValFresh || hasFresh(vals), Guarded: e.Guarded || ac, AliasG: e.AliasG || al, Dyn: e.Dyn, Site: e.Site, SiteFn: e.SiteFn, Chain: funcKey(f.fn) + " -> " + e.Chain}
				f.addMut(ne)
			}
		}
	}
	for _, p := range s.puts {
		vals := mpSet(p.Vals)
		for t := range mp(p.Base) {
			switch {
			case t.o.isObj():
				if t.o.elem.addAll(vals) {
					f.dirty = true
				}
			case t.o.kind == kFunc:
			default:
				if p.StName != "" && !f.rootMayHold(t, p.StName) {
					continue
				}
				if t.o.kind == kGlobal {
					f.addMut(&mutEffect{Base: t, Class: "global", StName: p.StName, Field: "[]", Vals: rootsOnly(vals), Site: p.Site, SiteFn: p.Site.Parent(), Chain: funcKey(f.fn) + " -> " + funcKey(s.fn), Guarded: ac})
				} else {
					f.recordPutAt(t, vals, p.Site, p.StName)
				}
			}
		}
	}
	// callbacks
	for _, cb := range s.cbs {
		var cargs []oset
		for _, a := range cb.Args {
			cargs = append(cargs, mpSet(a))
		}
		for t := range mp(cb.Fn) {
			switch {
			case t.o.kind == kFunc && f.m.inSet[t.o.fn]:
				f.applyGuarded(f.m.sums[t.o.fn], cargs, f.bindingsOf(t.o), ins, cb.Grd)
			case t.o.isRoot():
				f.recordCbAt(t, cargs, cb.Site, cb.Grd || ac)
			}
		}
	}
	// dynamic evaluations
	for _, ev := range s.evals {
		f.evalDyn(mpSet(ev.Ctx), mpSet(ev.Expr), ev.Site, ev.Fn, ev.Grd || ac, ev.AlG || al, funcKey(f.fn)+" -> "+funcKey(s.fn))
	}
}

func resvOrIns(v ssa.Value, ins ssa.Instruction) ssa.Value {
	if v != nil {
		return v
	}
	if iv, ok := ins.(ssa.Value); ok {
		return iv
	}
	return nil
}

// applyGuarded applies a callback's summary; its results are not used.
func (f *frame) applyGuarded(s *summary, args []oset, bind []oset, ins ssa.Instruction, grd bool) {
	f.apply(s, args, bind, ins, nil, 0, "")
}

func (f *frame) recordPutAt(base ref, vals oset, site ssa.Instruction, stName string) {
	k := fmt.Sprintf("%p|%v", site, base)
	rv := rootsOnly(closure(vals))
	if old, ok := f.sum.puts[k]; ok {
		if old.Vals.addAll(rv) {
			f.m.changed = true
		}
		return
	}
	f.sum.puts[k] = &putEffect{Base: base, Vals: rv, Site: site, StName: stName}
	f.m.changed = true
}

func (f *frame) recordCbAt(fnRef ref, args []oset, site ssa.Instruction, grd bool) {
	k := fmt.Sprintf("%p|%v", site, fnRef)
	if old, ok := f.sum.cbs[k]; ok {
		for i := range args {
			if i < len(old.Args) && old.Args[i].addAll(rootsAndFuncs(closure(args[i]))) {
				f.m.changed = true
			}
		}
		return
	}
	var mapped []oset
	for _, a := range args {
		mapped = append(mapped, rootsAndFuncs(closure(a)))
	}
	f.sum.cbs[k] = &cbCall{Fn: fnRef, Args: mapped, Site: site, Grd: grd}
	f.m.changed = true
}

// evalDyn: GetMatchingNodes(ctx, expr) seen (directly or through a callee).
// Operator types found inside locally built expression objects decide whether
// the evaluation updates the nodes of ctx; expression parts rooted in a
// parameter are re-exported for the caller to decide.
func (f *frame) evalDyn(ctxS, exprS oset, site ssa.Instruction, siteFn *ssa.Function, ac, al bool, chain string) {
	var ops []string
	upd := false
	rootsExpr := oset{}
	for e := range closure(exprS) {
		if e.o.kind == kGlobal {
			if ot := f.m.optypes[e.o.g]; ot != nil {
				ops = append(ops, ot.Type)
				if isUpdateOp(ot.Type) {
					upd = true
				}
				continue
			}
		}
		if e.o.isRoot() {
			rootsExpr.add(e)
		}
	}
	if upd {
		sort.Strings(ops)
		ops = uniq(ops)
		// nodes of ctx (and everything below them) may be written
		targets := oset{}
		for c := range closure(ctxS) {
			if c.o.isRoot() {
				targets.add(ref{o: c.o, deep: true, back: c.back, nd: true})
			}
		}
		for t := range targets {
			f.addMut(&mutEffect{Base: t, Class: "node", Field: "*", Vals: oset{}, Guarded: false, AliasG: al, Dyn: strings.Join(ops, ","), Site: site, SiteFn: siteFn, Chain: chain})
		}
	}
	if len(rootsExpr) > 0 {
		user := false
		for e := range rootsExpr {
			if e.o.kind == kParam && e.o.idx < len(f.fn.Params) && namedTypeName(f.fn.Params[e.o.idx].Type()) == "ExpressionNode" {
				user = true
			}
			if e.o.kind == kFree && e.o.idx < len(f.fn.FreeVars) && namedTypeName(f.fn.FreeVars[e.o.idx].Type()) == "ExpressionNode" {
				user = true
			}
		}
		if user {
			for c := range closure(ctxS) {
				if c.o.isObj() && c.o.w {
					k := fmt.Sprintf("%p|%s", site, funcKey(f.fn))
					if _, ok := f.m.wevals[k]; !ok {
						f.m.wevals[k] = &wEval{Site: site, SiteFn: siteFn, In: f.fn, WSite: f.m.c.P.pos(c.o.site.Pos()), Chain: chain}
					}
				}
			}
		}
		k := fmt.Sprintf("%p", site)
		ctxR := rootsOnly(closure(ctxS))
		if old, ok := f.sum.evals[k]; ok {
			if old.Ctx.addAll(ctxR) {
				f.m.changed = true
			}
			if old.Expr.addAll(rootsExpr) {
				f.m.changed = true
			}
		} else {
			f.sum.evals[k] = &evalEffect{Ctx: ctxR, Expr: rootsExpr, Site: site, Fn: siteFn, Grd: ac, AlG: al}
			f.m.changed = true
		}
	}
}

// isUpdateOp: operation types whose handler is meant to change the document.
func isUpdateOp(ty string) bool {
	switch ty {
	case "ASSIGN", "ADD_ASSIGN", "SUBTRACT_ASSIGN", "MULTIPLY_ASSIGN", "ASSIGN_ATTRIBUTES", "ASSIGN_STYLE", "ASSIGN_TAG", "ASSIGN_COMMENT", "ASSIGN_ANCHOR", "ASSIGN_ALIAS",
		"DELETE", "DEL_PATHS", "SET_PATH", "WITH", "MAP_VALUES", "EXPLODE", "SORT_KEYS", "SPLIT_DOC", "ASSIGN_VARIABLE":
		return true
	}
	return false
}

func (m *mutfx) dumpSummary(fn *ssa.Function) {
	s := m.sums[fn]
	fmt.Printf("== %s\n", funcKey(fn))
	for i, r := range s.results {
		fmt.Printf("   result %d: direct=%v fresh=%v inner=%v innerN=%v innerK=%v innerBack=%v\n", i, setStr(r.Direct), r.Fresh, setStr(r.Inner), setStr(r.InnerN), setStr(r.InnerK), setStr(r.InnerBack))
	}
	var keys []string
	for k := range s.muts {
		keys = append(keys, k)
	}
	sort.Strings(keys)
	for _, k := range keys {
		e := s.muts[k]
		fmt.Printf("   MUT %-18s %s.%s class=%s guarded=%v alias=%v dyn=%q vals=%v fresh=%v at %s [%s]\n", e.Base, "", e.Field, e.Class, e.Guarded, e.AliasG, e.Dyn, setStr(e.Vals), e.ValFresh, m.c.P.pos(e.Site.Pos()), e.Chain)
	}
	for _, p := range s.puts {
		fmt.Printf("   PUT %-18s vals=%v at %s\n", p.Base, setStr(p.Vals), m.c.P.pos(p.Site.Pos()))
	}
	for _, cb := range s.cbs {
		var as []string
		for _, a := range cb.Args {
			as = append(as, setStr(a))
		}
		fmt.Printf("   CB  %-18s args=%v at %s\n", cb.Fn, as, m.c.P.pos(cb.Site.Pos()))
	}
	for _, ev := range s.evals {
		fmt.Printf("   EVAL ctx=%v expr=%v at %s\n", setStr(ev.Ctx), setStr(ev.Expr), m.c.P.pos(ev.Site.Pos()))
	}
}

func setStr(s oset) string {
	var parts []string
	for r := range s {
		parts = append(parts, r.String())
	}
	sort.Strings(parts)
	return "{" + strings.Join(parts, " ") + "}"
}

func setStrObj(s oset) string {
	var parts []string
	for r := range s {
		p := r.String()
		if r.o.isObj() {
			p += fmt.Sprintf("@%s[elem=%s nin=%s back=%s]", siteName(r.o), setStr(r.o.elem), setStr(r.o.nin), setStr(r.o.back))
		}
		parts = append(parts, p)
	}
	sort.Strings(parts)
	return "{" + strings.Join(parts, " ") + "}"
}

func siteName(o *obj) string {
	if o.site != nil {
		return o.site.Name()
	}
	return "?"
}

func storesField(al *ssa.Alloc, field string) bool {
	if al.Referrers() == nil {
		return false
	}
	for _, r := range *al.Referrers() {
		if fa, ok := r.(*ssa.FieldAddr); ok && fieldName(fa) == field {
			for _, r2 := range *fa.Referrers() {
				if st, ok := r2.(*ssa.Store); ok && st.Addr == fa {
					return true
				}
			}
		}
	}
	return false
}

// writable evaluation of a user expression: recorded per function summary.
type wEval struct {
	Site   ssa.Instruction
	SiteFn *ssa.Function
	In     *ssa.Function // frame where the writable context met the user expression
	WSite  string
	Chain  string
}

// rootMayHold: can an object of struct type stName be (deep: be reachable
// from) the root r of this frame, judging by declared types?
func (f *frame) rootMayHold(r ref, stName string) bool {
	stName = strings.TrimPrefix(stName, "[]")
	if stName == "" || stName == "global" || stName == "map" {
		return true
	}
	var t types.Type
	switch r.o.kind {
	case kParam:
		if r.o.idx < len(f.fn.Params) {
			t = f.fn.Params[r.o.idx].Type()
		}
	case kFree:
		if r.o.idx < len(f.fn.FreeVars) {
			t = f.fn.FreeVars[r.o.idx].Type()
		}
	case kGlobal:
		t = r.o.g.Type()
	}
	if t == nil {
		return true
	}
	return typeReaches(t, stName, map[types.Type]bool{}, 0)
}

func typeReaches(t types.Type, stName string, seen map[types.Type]bool, d int) bool {
	if d > 8 || seen[t] {
		return false
	}
	seen[t] = true
	if n, ok := t.(*types.Named); ok && n.Obj().Name() == stName {
		return true
	}
	switch u := t.Underlying().(type) {
	case *types.Pointer:
		return typeReaches(u.Elem(), stName, seen, d+1)
	case *types.Slice:
		return typeReaches(u.Elem(), stName, seen, d+1)
	case *types.Array:
		return typeReaches(u.Elem(), stName, seen, d+1)
	case *types.Map:
		return typeReaches(u.Key(), stName, seen, d+1) || typeReaches(u.Elem(), stName, seen, d+1)
	case *types.Chan:
		return typeReaches(u.Elem(), stName, seen, d+1)
	case *types.Struct:
		for i := 0; i < u.NumFields(); i++ {
			if typeReaches(u.Field(i).Type(), stName, seen, d+1) {
				return true
			}
		}
		return false
	case *types.Interface:
		return true // anything can hide behind an interface (list elements, Preferences)
	case *types.Signature:
		return false
	}
	return false
}

// isContextFlagLoad: v is a read of <Context>.DontAutoCreate.
func isContextFlagLoad(v ssa.Value) bool {
	switch x := v.(type) {
	case *ssa.UnOp:
		if fa, ok := x.X.(*ssa.FieldAddr); ok && x.Op == token.MUL && fieldName(fa) == "DontAutoCreate" && structNameOfPtr(fa.X.Type()) == "Context" {
			return true
		}
	case *ssa.Field:
		return fieldNameOfField(x) == "DontAutoCreate" && namedTypeName(x.X.Type()) == "Context"
	}
	return false
}

// boolImpliesFlagDown: knowing that the boolean v evaluated to val, the context's
// DontAutoCreate flag is known to be false. v may be the flag itself, a negation,
// or the phi go/ssa builds for `a || b || c` / `a && b`: an incoming constant that
// differs from val rules its edge out; for every remaining edge either the
// incoming value settles it or the branch conditions on the way to that edge do.
func boolImpliesFlagDown(v ssa.Value, val bool, d int) bool {
	return boolImpliesDown(v, val, d, isContextFlagLoad)
}

// boolImpliesDown: the same for any boolean flag recognised by isFlag.
func boolImpliesDown(v ssa.Value, val bool, d int, isFlag func(ssa.Value) bool) bool {
	if d > 6 {
		return false
	}
	if isFlag(v) {
		return !val
	}
	switch x := v.(type) {
	case *ssa.UnOp:
		if x.Op == token.NOT {
			return boolImpliesDown(x.X, !val, d+1, isFlag)
		}
	case *ssa.Phi:
		any := false
		for i, e := range x.Edges {
			if k, ok := e.(*ssa.Const); ok && k.Value != nil && k.Value.Kind() == constant.Bool {
				if constant.BoolVal(k.Value) != val {
					continue // this edge cannot have produced val
				}
				// the constant arrived because an earlier operand decided: the conditions on the way say which
			}
			any = true
			if boolImpliesDown(e, val, d+1, isFlag) {
				continue
			}
			settled := false
			pred := x.Block().Preds[i]
			edgeConds(pred, x.Block())(func(cond ssa.Value, taken bool, at *ssa.BasicBlock) {
				c := cond
				if u, ok := c.(*ssa.UnOp); ok && u.Op == token.NOT {
					c, taken = u.X, !taken
				}
				if isFlag(c) && !taken {
					settled = true
				}
			})
			if !settled {
				return false
			}
		}
		return any
	}
	return false
}
