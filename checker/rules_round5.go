package main

import (
	"fmt"
	"go/constant"
	"go/token"
	"go/types"
	"strings"

	"golang.org/x/tools/go/ssa"
)

// ---- D4 (C03): a sequence element is deleted by position -------------------------------

// ruleD4: in deleteFromArray the test that selects the victim depends on the
// loop position. The keys children carry are not reliable positions (known
// finding K1: AddChild keeps a key a child already has, so concatenated
// sequences hold duplicate key texts); matching on the stored key removes
// every element that carries that text.
func ruleD4(c *Ctx, rule string) {
	r := c.R
	r.Rule(rule, "deleteFromArray selects its victim by loop position", 1)
	fn := c.libFunc("deleteFromArray")
	if fn == nil {
		r.Fatal("anchor missing: deleteFromArray")
		return
	}
	// the counting loop variable: phi(0, phi+1)
	var idx *ssa.Phi
	eachInstr(fn, func(ins ssa.Instruction) {
		if phi, ok := ins.(*ssa.Phi); ok {
			for _, e := range phi.Edges {
				if b, off := idxPlus(e); b == ssa.Value(phi) && off == 1 {
					idx = phi
				}
			}
		}
	})
	key := "deleteFromArray/victim-by-position"
	if idx == nil {
		// a range loop: the index is phi+1 of the hidden counter
		eachInstr(fn, func(ins ssa.Instruction) {
			if phi, ok := ins.(*ssa.Phi); ok && idx == nil {
				for _, e := range phi.Edges {
					if k, isK := constInt64(e); isK && k == -1 {
						idx = phi
					}
				}
			}
		})
	}
	if idx == nil {
		r.Undecided(rule, key, c.P.pos(fn.Pos()), "no counting loop over the children found: shape not recognised")
		return
	}
	uses := false
	eachInstr(fn, func(ins ssa.Instruction) {
		bo, ok := ins.(*ssa.BinOp)
		if !ok || (bo.Op != token.EQL && bo.Op != token.NEQ) {
			return
		}
		if dependsOnLoopIndex(bo.X, idx, 0) || dependsOnLoopIndex(bo.Y, idx, 0) {
			uses = true
		}
	})
	if uses {
		r.Discharge(rule, key, c.P.pos(fn.Pos()), "the deciding comparison reads the loop position")
	} else {
		r.Finding(rule, key, c.P.pos(fn.Pos()), "no comparison in deleteFromArray reads the loop position: the victim is chosen by something stored on the element (its key text), and elements that carry the same text — concatenated sequences, TOML arrays of tables — are all removed")
	}
}

func dependsOnLoopIndex(v ssa.Value, idx *ssa.Phi, d int) bool {
	if d > 8 {
		return false
	}
	if v == ssa.Value(idx) {
		return true
	}
	switch x := v.(type) {
	case *ssa.BinOp:
		return dependsOnLoopIndex(x.X, idx, d+1) || dependsOnLoopIndex(x.Y, idx, d+1)
	case *ssa.UnOp:
		return dependsOnLoopIndex(x.X, idx, d+1)
	case *ssa.Convert:
		return dependsOnLoopIndex(x.X, idx, d+1)
	case *ssa.MakeInterface:
		return dependsOnLoopIndex(x.X, idx, d+1)
	case *ssa.Call:
		for _, a := range x.Call.Args {
			if dependsOnLoopIndex(a, idx, d+1) {
				return true
			}
		}
	case *ssa.Slice:
		return dependsOnLoopIndex(x.X, idx, d+1)
	case *ssa.Alloc:
		// variadic argument array: its element stores
		if x.Referrers() != nil {
			for _, ref := range *x.Referrers() {
				if ia, ok := ref.(*ssa.IndexAddr); ok && ia.Referrers() != nil {
					for _, r2 := range *ia.Referrers() {
						if st, ok := r2.(*ssa.Store); ok && dependsOnLoopIndex(st.Val, idx, d+1) {
							return true
						}
					}
				}
			}
		}
	}
	return false
}

// ---- T6f (C09): the implied slice start only after `.[` ---------------------------------

// ruleT6f: handleToken supplies the implied `0` of `.[:n]` only when the token
// before the `:` is the traverse-array bracket. After an ordinary `[` a leading
// `:` has no left operand and must stay an error.
func ruleT6f(c *Ctx, rule string) {
	r := c.R
	fn := c.libFunc("handleToken")
	if fn == nil {
		r.Fatal("anchor missing: handleToken")
		return
	}
	n := 0
	eachInstr(fn, func(ins ssa.Instruction) {
		call, ok := ins.(*ssa.Call)
		if !ok || call.Call.StaticCallee() == nil || call.Call.StaticCallee().Name() != "createValueOperation" {
			return
		}
		n++
		key := fmt.Sprintf("handleToken/implied-slice-start#%d", n)
		guarded := dominatedByTokenTypeTest(c, call.Block(), "traverseArrayCollect")
		if guarded {
			r.Discharge(rule, key, c.P.pos(call.Pos()), "inserted only where the previous token is the traverse-array bracket")
		} else {
			r.Finding(rule, key, c.P.pos(call.Pos()), "the implied slice start `0` is inserted on a path where the previous token is not known to be `.[`: a `:` with no left operand inside an ordinary `[ … ]` is then evaluated instead of rejected")
		}
	})
	if n == 0 {
		r.Note("%s: handleToken inserts no implied value operation", rule)
	}
}

// dominatedByTokenTypeTest: a dominating `x.TokenType == <const named name>` holds at blk.
func dominatedByTokenTypeTest(c *Ctx, blk *ssa.BasicBlock, name string) bool {
	want, okc := constValueOf(c, name)
	if !okc {
		return false
	}
	found := false
	dominatingConds(blk, func(cond ssa.Value, taken bool, at *ssa.BasicBlock) {
		bo, ok := cond.(*ssa.BinOp)
		if !ok || bo.Op != token.EQL || !taken {
			return
		}
		for _, pr := range [][2]ssa.Value{{bo.X, bo.Y}, {bo.Y, bo.X}} {
			u, ok := pr[0].(*ssa.UnOp)
			if !ok {
				continue
			}
			fa, ok := u.X.(*ssa.FieldAddr)
			if !ok || fieldName(fa) != "TokenType" {
				continue
			}
			if v, ok := constInt64(pr[1]); ok && v == want {
				found = true
			}
		}
	})
	return found
}

// ---- E9 (C19): the TOML parser's accumulated error is consulted -------------------------

// ruleE9: every return of tomlDecoder.Decode that reports success (a node and a
// nil error) or a clean end of input is preceded, on every path from the
// expression loop, by a call of parser.Error() — the third-party parser stops
// at the first syntax error and only tells when asked.
func ruleE9(c *Ctx, rule string) {
	r := c.R
	r.Rule(rule, "tomlDecoder.Decode asks the parser for its error before reporting success", 1)
	fn := c.libFunc("tomlDecoder.Decode")
	if fn == nil {
		r.Fatal("anchor missing: (*tomlDecoder).Decode")
		return
	}
	isErrCall := func(ins ssa.Instruction) bool {
		cc := callCommon(ins)
		if cc == nil {
			return false
		}
		n := calleeName(cc)
		return strings.HasSuffix(n, ".Error") && strings.Contains(n, "toml") && strings.Contains(n, "Parser")
	}
	// the loop that consumes expressions: the last NextExpression call
	var loop *ssa.BasicBlock
	eachInstr(fn, func(ins ssa.Instruction) {
		cc := callCommon(ins)
		if cc != nil && strings.HasSuffix(calleeName(cc), ".NextExpression") {
			loop = ins.Block()
		}
	})
	if loop == nil {
		r.Undecided(rule, "tomlDecoder.Decode/parser-error", c.P.pos(fn.Pos()), "no NextExpression loop found: shape not recognised")
		return
	}
	n, bad := 0, ""
	for _, b := range fn.Blocks {
		ret, ok := b.Instrs[len(b.Instrs)-1].(*ssa.Return)
		if !ok || len(ret.Results) != 2 || !reaches(loop, b) || b == loop {
			continue
		}
		// every return that does not hand back an error it has just tested non-nil
		if isErrorExit(ret) {
			continue
		}
		n++
		if pathAvoiding(fn, loop, 0, b, len(b.Instrs)-1, isErrCall) {
			bad = c.P.pos(ret.Pos())
		}
	}
	key := "tomlDecoder.Decode/parser-error"
	switch {
	case n == 0:
		r.Undecided(rule, key, c.P.pos(fn.Pos()), "no success return after the expression loop: shape not recognised")
	case bad != "":
		r.Finding(rule, key, bad, "a successful return is reachable from the expression loop without parser.Error() having been called: input with a syntax error after some valid content is decoded as far as it went and reported as success")
	default:
		r.Discharge(rule, key, c.P.pos(fn.Pos()), "parser.Error() is called on every path from the expression loop to a successful return")
	}
}

// ---- J11 (C06): Go quoting is not JSON quoting -------------------------------------------

// ruleJ11: the JSON encoder type never formats a string with strconv.Quote /
// %q: Go escapes (\x1b, \a, \U0001f600) are not JSON.
func ruleJ11(c *Ctx, rule string) {
	r := c.R
	r.Rule(rule, "the JSON encoder never quotes text with Go's quoting functions", 1)
	n := 0
	for _, fn := range c.moduleFuncs() {
		if !strings.HasPrefix(funcKey(fn), "yqlib.jsonEncoder.") {
			continue
		}
		n++
		bad := ""
		eachInstr(fn, func(ins ssa.Instruction) {
			cc := callCommon(ins)
			if cc == nil {
				return
			}
			switch calleeName(cc) {
			case "strconv.Quote", "strconv.QuoteToASCII", "strconv.QuoteToGraphic", "strconv.AppendQuote":
				bad = c.P.pos(ins.Pos())
			}
		})
		key := strings.TrimPrefix(funcKey(fn), "yqlib.") + "/no-go-quoting"
		if bad == "" {
			r.Discharge(rule, key, c.P.pos(fn.Pos()), "strings are encoded by the JSON library only")
		} else {
			r.Finding(rule, key, bad, "a string is written with strconv.Quote: control characters and code points outside the BMP come out as Go escapes (\\x1b, \\a, \\U…), which is not JSON")
		}
	}
	if n == 0 {
		r.Fatal("anchor moved: no method of jsonEncoder found")
	}
}

// ---- W6 (C12): the handler edits the path it was given -----------------------------------

// ruleW6: NewWriteInPlaceHandler stores its argument, unchanged, as the target
// path. Resolving or rewriting the path there (Readlink, Abs, Clean against
// another directory) makes -i replace some other file.
func ruleW6(c *Ctx, rule string) {
	r := c.R
	r.Rule(rule, "the in-place handler's target is the path it was given", 1)
	fn := c.libFunc("NewWriteInPlaceHandler")
	if fn == nil {
		r.Fatal("anchor missing: NewWriteInPlaceHandler")
		return
	}
	n, bad := 0, ""
	eachInstr(fn, func(ins ssa.Instruction) {
		st, ok := ins.(*ssa.Store)
		if !ok {
			return
		}
		fa, ok := st.Addr.(*ssa.FieldAddr)
		if !ok || fieldName(fa) != "inputFilename" {
			return
		}
		n++
		if st.Val != ssa.Value(fn.Params[0]) {
			bad = c.P.pos(st.Pos())
		}
	})
	key := "NewWriteInPlaceHandler/target-path"
	switch {
	case n == 0:
		r.Undecided(rule, key, c.P.pos(fn.Pos()), "no store to inputFilename: shape not recognised")
	case bad != "":
		r.Finding(rule, key, bad, "the target path kept by the handler is computed ("+"not the argument itself): -i then stats, replaces and renames over a different path than the one yq read")
	default:
		r.Discharge(rule, key, c.P.pos(fn.Pos()), "inputFilename = the argument")
	}
}

// constValueOf: the integer value of a package-level constant of the library package.
func constValueOf(c *Ctx, name string) (int64, bool) {
	k, ok := c.P.lib().Types.Scope().Lookup(name).(*types.Const)
	if !ok {
		return 0, false
	}
	return constant.Int64Val(constant.ToInt(k.Val()))
}
