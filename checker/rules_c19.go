package main

import (
	"fmt"
	"go/constant"
	"go/token"
	"go/types"
	"sort"
	"strings"

	"golang.org/x/tools/go/ssa"
)

// C19 — exit status and output tell the truth.

func init() {
	register("C19", "Decides structural necessary conditions of 'exit 0 only if everything was decoded, evaluated and encoded completely': (E1) module-wide error discipline — no call's error result is dropped, no `if err != nil { return nil }`, no recovered panic lost, log-and-continue only at tabled sites; (E2) every locally created buffering writer (csv.Writer, xml.Encoder, bufio.Writer) is flushed with its error observed on every non-error exit, and the printer flushes the writer it obtains; (E3) in both RunE functions the evaluation error reaches the return, completedSuccessfully is exactly `err == nil` of it, the deferred in-place step may only set the command error when it was nil, and main exits 1 exactly under Execute() != nil; (E4) the -e test (exitStatus && !PrintedAnything()) guards the success exit in both siblings and the printedMatches flag is monotone; (E5) the two RunE siblings call the same set-up functions; (E6) the -n route (EvaluateNew) cannot reach readStream/os.Stdin and stdin is not appended under nullInput; (E7) automatic input format derives from args[0]; (S4, shared with C10) every decoder field written by Decode is reset by Init. (E10) printedMatches is read only by its accessor and its own update; E1 also covers a swallow through a jump and a value nil-tested before its error. Does NOT decide the -e truth table over values nor what each encoder does with each value.", runC19)
}

// accepted log-and-continue / ignored-error sites: key -> reason
var c19Accepted = map[string]string{
	"cmd.initCommand/call (*os.File).Stat": "colour auto-detection only; a failed Stat of stdout cannot change results or exit status (Go reopens closed std fds on /dev/null)",
}

func runC19(c *Ctx) {
	r := c.R
	r.Rule("E1", "no error dropped, swallowed or lost in recover (module-wide)", 300)
	r.Rule("E2", "buffering writers are flushed with the error observed on every non-error exit", 3)
	r.Rule("E3", "evaluation error reaches the exit status", 7)
	r.Rule("E4", "-e test guards the success exit; printedMatches is monotone", 3)
	r.Rule("E5", "RunE siblings agree on set-up calls", 15)
	r.Rule("E6", "-n reads no input", 3)
	r.Rule("E7", "automatic input format derives from the first file argument", 1)
	r.Rule("S4", "decoder state written by Decode is reset by Init", 8)

	ruleE1(c, "E1")
	ruleE2(c, "E2")
	ruleE3(c)
	ruleE4(c)
	ruleE5(c)
	ruleE6(c)
	ruleE7(c)
	ruleS4(c, "S4")
	ruleE8(c)
	ruleE9(c, "E9")
	ruleG11(c, "E10")
}

// ruleE8: the message on stderr is written by cobra when RunE returns an
// error (main only turns the error into the exit status). Nothing in the
// module may switch that off or redirect it: no store to Command.SilenceErrors
// other than the constant false, no SetErr.
func ruleE8(c *Ctx) {
	r := c.R
	r.Rule("E8", "cobra's error echo on stderr is never silenced or redirected", 1)
	n := 0
	for _, fn := range c.moduleFuncs() {
		eachInstr(fn, func(ins ssa.Instruction) {
			switch x := ins.(type) {
			case *ssa.Store:
				fa, ok := x.Addr.(*ssa.FieldAddr)
				if !ok || fieldName(fa) != "SilenceErrors" || structNameOfPtr(fa.X.Type()) != "Command" {
					return
				}
				n++
				key := funcKey(fn) + "/SilenceErrors="
				if k, isK := x.Val.(*ssa.Const); isK && k.Value != nil && k.Value.String() == "false" {
					r.Discharge("E8", key, c.P.pos(x.Pos()), "explicitly false")
				} else {
					r.Finding("E8", key, c.P.pos(x.Pos()), "the command's SilenceErrors is set to "+exprOfValue(x.Val)+": when it is true a failing run exits 1 with nothing on stderr")
				}
			case *ssa.Call:
				if name := calleeName(&x.Call); name == "(*github.com/spf13/cobra.Command).SetErr" {
					n++
					r.Finding("E8", funcKey(fn)+"/SetErr", c.P.pos(x.Pos()), "the command's error stream is redirected: the message for a failing run no longer reaches stderr")
				}
			}
		})
	}
	// the positive side: main relies on Execute's echo — it prints nothing itself
	if n == 0 {
		r.Discharge("E8", "module/no-silencing", "-", "no store to cobra.Command.SilenceErrors and no SetErr call in the module")
	}
}

// ruleE1: one obligation per call with an error result, per error-returning
// function (swallow check) and per recover().
func ruleE1(c *Ctx, rule string) {
	r := c.R
	ncalls := 0
	for _, fn := range c.moduleFuncs() {
		bad := map[ssa.Instruction]errSite{}
		for _, s := range errorDroppedSites(c, fn) {
			bad[s.Instr] = s
		}
		eachInstr(fn, func(ins ssa.Instruction) {
			cc := callCommon(ins)
			if cc == nil || errorResultIndex(cc.Signature()) < 0 {
				return
			}
			ncalls++
			if s, ok := bad[ins]; ok {
				if why, ok := c19Accepted[s.Key]; ok {
					r.Discharge(rule, s.Key, c.P.pos(ins.Pos()), "accepted: "+why)
				} else {
					r.Finding(rule, s.Key, c.P.pos(ins.Pos()), s.Desc+": a failure here is invisible in the exit status")
				}
				return
			}
			name := calleeName(cc)
			if name == "" {
				name = "func-value"
			}
			r.Discharge(rule, fmt.Sprintf("%s/call %s", funcKey(fn), shortCallee(name)), c.P.pos(ins.Pos()), "error result is used")
		})
		for _, s := range errorSwallowedSites(c, fn) {
			if s.Kind == "log-and-continue" {
				if why, ok := c19Accepted[s.Key]; ok {
					r.Discharge(rule, s.Key, c.P.pos(s.Instr.Pos()), "accepted log-and-continue: "+why)
					continue
				}
			}
			r.Finding(rule, s.Key, c.P.pos(s.Instr.Pos()), s.Desc+": the failure is reported as success")
		}
		for _, s := range errorTestedAfterValueSites(c, fn) {
			r.Finding(rule, s.Key, c.P.pos(s.Instr.Pos()), s.Desc+": a failure that comes with a nil value is reported as success")
		}
		for _, s := range recoverLostSites(c, fn) {
			// not armed: no input reaching this recover could be exhibited (DESIGN §3 C11/P6)
			r.Note("E1/recover (not armed, no reproducer): %s at %s: %s", s.Key, c.P.pos(s.Instr.Pos()), s.Desc)
		}
	}
	r.Analysed["calls_with_error_result"] = ncalls
}

// flushConstructors: constructors of buffering writers and the method that
// makes their content (and deferred error) visible.
var flushConstructors = map[string][]string{
	"encoding/csv.NewWriter":   {"Flush"}, // error via Error()
	"bufio.NewWriter":          {"Flush"},
	"bufio.NewWriterSize":      {"Flush"},
	"encoding/xml.NewEncoder":  {"Flush", "Close"},
	"text/tabwriter.NewWriter": {"Flush"},
}

func ruleE2(c *Ctx, rule string) {
	r := c.R
	for _, fn := range c.moduleFuncs() {
		eachInstr(fn, func(ins ssa.Instruction) {
			call, ok := ins.(*ssa.Call)
			if !ok {
				return
			}
			name := calleeName(&call.Call)
			methods, ok := flushConstructors[name]
			isGetWriter := call.Call.IsInvoke() && call.Call.Method.Name() == "GetWriter"
			var w ssa.Value = call
			if isGetWriter {
				methods = []string{"Flush"}
				// (writer, err) tuple
				w = nil
				for _, ref := range *call.Referrers() {
					if ex, ok := ref.(*ssa.Extract); ok && ex.Index == 0 {
						w = ex
					}
				}
				if w == nil {
					return
				}
			} else if !ok {
				return
			}
			key := fmt.Sprintf("%s/%s", funcKey(fn), shortCallee(name))
			if isGetWriter {
				key = fmt.Sprintf("%s/GetWriter()", funcKey(fn))
			}
			// escapes? returned or stored into a field/global: the owner flushes
			if esc := escapesTo(w); esc != "" {
				r.Discharge(rule, key, c.P.pos(call.Pos()), "writer escapes ("+esc+"); flushed by its owner (the printer obtains it through GetWriter and is checked there)")
				return
			}
			// does the writer get written to at all?
			isFlush := func(i ssa.Instruction) bool {
				cc := callCommon(i)
				if cc == nil || len(cc.Args) == 0 || cc.Args[0] != w {
					return false
				}
				cal := cc.StaticCallee()
				if cal == nil {
					return false
				}
				for _, m := range methods {
					if cal.Name() == m {
						return true
					}
				}
				return false
			}
			startIdx := instrIndex(call) + 1
			var missing []string
			for _, b := range fn.Blocks {
				ret, ok := b.Instrs[len(b.Instrs)-1].(*ssa.Return)
				if !ok {
					continue
				}
				if !call.Block().Dominates(b) && !reachesBlock(call.Block(), b) {
					continue
				}
				if returnsDefiniteError(fn, ret) {
					continue
				}
				// an exit needs the flush only if something was written before it
				written := false
				for _, ref := range *w.Referrers() {
					ui, ok := ref.(ssa.Instruction)
					if !ok || isFlush(ui) || callCommon(ui) == nil {
						continue
					}
					ub := ui.Block()
					if pathAvoiding(fn, call.Block(), startIdx, ub, instrIndex(ui), isFlush) && pathAvoiding(fn, ub, instrIndex(ui)+1, b, len(b.Instrs)-1, isFlush) {
						written = true
					}
				}
				if written {
					missing = append(missing, c.P.pos(ret.Pos()))
				}
			}
			// the error of the flush must be observed: Flush() result used, or Error() called
			observed := false
			for _, ref := range *w.Referrers() {
				cc := callCommon(ref)
				if cc == nil || len(cc.Args) == 0 || cc.Args[0] != w || cc.StaticCallee() == nil {
					continue
				}
				switch cc.StaticCallee().Name() {
				case "Error":
					observed = true
				case "Flush", "Close":
					if cv, ok := ref.(*ssa.Call); ok && errorResultIndex(cc.Signature()) >= 0 && cv.Referrers() != nil && len(*cv.Referrers()) > 0 {
						observed = true
					}
				}
			}
			switch {
			case len(missing) > 0:
				r.Finding(rule, key, c.P.pos(call.Pos()), fmt.Sprintf("buffering writer is not flushed on the non-error exit(s) at %s: buffered output is lost whenever the underlying writer is not the printer's own buffer (e.g. -0), exit status 0", strings.Join(missing, ", ")))
			case !observed:
				r.Finding(rule, key, c.P.pos(call.Pos()), "writer is flushed but the flush error is never observed (no Error()/Flush() result use)")
			default:
				r.Discharge(rule, key, c.P.pos(call.Pos()), "every non-error exit passes "+strings.Join(methods, "/")+"() and its error is observed")
			}
		})
	}
}

func reachesBlock(from, to *ssa.BasicBlock) bool {
	if from == to {
		return true
	}
	return reaches(from, to)
}

// escapesTo: the value is returned or stored into a field / global.
func escapesTo(v ssa.Value) string {
	if v.Referrers() == nil {
		return ""
	}
	for _, ref := range *v.Referrers() {
		switch x := ref.(type) {
		case *ssa.Return:
			return "returned"
		case *ssa.Store:
			if x.Val == v {
				switch x.Addr.(type) {
				case *ssa.FieldAddr:
					return "stored in a field"
				case *ssa.Global:
					return "stored in a global"
				}
			}
		case *ssa.MakeInterface:
			if e := escapesTo(x); e != "" {
				return e
			}
		case *ssa.Call:
			// handed to a constructor / function that is not one of its own methods
			for i, a := range x.Call.Args {
				if a != v {
					continue
				}
				if cal := x.Call.StaticCallee(); cal != nil && cal.Signature.Recv() != nil && i == 0 {
					continue // its own method
				}
				if x.Call.IsInvoke() {
					continue
				}
				if cal := x.Call.StaticCallee(); cal != nil && strings.HasPrefix(cal.Name(), "New") {
					return "passed to " + cal.Name()
				}
			}
		}
	}
	return ""
}

// returnsDefiniteError: the return's error operand is known non-nil: built by
// fmt.Errorf/errors.New, or the very value tested `!= nil` on a dominating branch.
func returnsDefiniteError(fn *ssa.Function, ret *ssa.Return) bool {
	idx := errorResultIndex(fn.Signature)
	if idx < 0 || idx >= len(ret.Results) {
		return false
	}
	e := returnedValue(ret, idx)
	if e == nil || isNilConst(e) {
		return false
	}
	if call, ok := e.(*ssa.Call); ok {
		n := calleeName(&call.Call)
		if n == "fmt.Errorf" || n == "errors.New" {
			return true
		}
	}
	if mi, ok := e.(*ssa.MakeInterface); ok {
		_ = mi
		return true // a concrete error value
	}
	def := false
	dominatingConds(ret.Block(), func(cond ssa.Value, taken bool, at *ssa.BasicBlock) {
		if bo, ok := cond.(*ssa.BinOp); ok {
			if (bo.X == e && isNilConst(bo.Y)) || (bo.Y == e && isNilConst(bo.X)) {
				if (bo.Op == token.NEQ && taken) || (bo.Op == token.EQL && !taken) {
					def = true
				}
			}
		}
	})
	return def
}

// ---- E3 ---------------------------------------------------------------------

func runEFuncs(c *Ctx) []*ssa.Function {
	var out []*ssa.Function
	for _, n := range []string{"evaluateSequence", "evaluateAll"} {
		if f := lookupFunc(c.P.Cmd, n); f != nil {
			if sf := c.P.SSA.FuncValue(f); sf != nil {
				out = append(out, sf)
			}
		}
	}
	return out
}

func ruleE3(c *Ctx) {
	r := c.R
	c.P.buildSSA()
	fns := runEFuncs(c)
	if len(fns) != 2 {
		r.Fatal("anchor missing: cmd.evaluateSequence / cmd.evaluateAll")
		return
	}
	for _, fn := range fns {
		// evaluation calls: invoke of EvaluateFiles / EvaluateNew
		var evals []ssa.Value
		eachInstr(fn, func(ins ssa.Instruction) {
			if call, ok := ins.(*ssa.Call); ok && call.Call.IsInvoke() && strings.HasPrefix(call.Call.Method.Name(), "Evaluate") {
				evals = append(evals, call)
			}
		})
		if len(evals) == 0 {
			r.Fatal("anchor moved: no Evaluate* call in %s", funcKey(fn))
			continue
		}
		derives := func(v ssa.Value) bool {
			ok := false
			returnLeaves(v, func(l ssa.Value) bool {
				for _, e := range evals {
					if l == e {
						ok = true
					}
				}
				return false
			})
			return ok
		}
		// (a) a return carries the evaluation error
		found := false
		eachInstr(fn, func(ins ssa.Instruction) {
			if ret, ok := ins.(*ssa.Return); ok && len(ret.Results) == 1 && derives(ret.Results[0]) {
				found = true
			}
		})
		// named result: the value is stored into the result cell before the return
		if !found {
			eachInstr(fn, func(ins ssa.Instruction) {
				if st, ok := ins.(*ssa.Store); ok && derives(st.Val) {
					if al, ok := st.Addr.(*ssa.Alloc); ok && isNamedResult(fn, al) {
						found = true
					}
				}
			})
		}
		key := funcKey(fn) + "/evaluation-error-returned"
		if found {
			r.Discharge("E3", key, c.P.pos(fn.Pos()), "the error of Evaluate* is the value returned to cobra")
		} else {
			r.Finding("E3", key, c.P.pos(fn.Pos()), "the error of Evaluate* does not reach the function result: failed runs exit 0")
		}
		// (b) completedSuccessfully = (evalErr == nil)
		nstores := 0
		eachInstr(fn, func(ins ssa.Instruction) {
			st, ok := ins.(*ssa.Store)
			if !ok {
				return
			}
			g, ok := st.Addr.(*ssa.Global)
			if !ok || g.Name() != "completedSuccessfully" {
				return
			}
			nstores++
			key := funcKey(fn) + "/completedSuccessfully="
			bo, ok := st.Val.(*ssa.BinOp)
			if ok && bo.Op == token.EQL && ((derives(bo.X) && isNilConst(bo.Y)) || (derives(bo.Y) && isNilConst(bo.X))) {
				r.Discharge("E3", key, c.P.pos(st.Pos()), "completedSuccessfully := (evaluation error == nil)")
			} else {
				r.Finding("E3", key, c.P.pos(st.Pos()), "completedSuccessfully is not `err == nil` of the evaluation call: a failed run may commit the in-place file")
			}
		})
		if nstores == 0 {
			r.Finding("E3", funcKey(fn)+"/completedSuccessfully=", c.P.pos(fn.Pos()), "completedSuccessfully is never set")
		}
		// (c) deferred closures: stores to the named result only under `result == nil`
		for _, anon := range fn.AnonFuncs {
			eachInstr(anon, func(ins ssa.Instruction) {
				st, ok := ins.(*ssa.Store)
				if !ok {
					return
				}
				fv, ok := st.Addr.(*ssa.FreeVar)
				if !ok || !isErrorType(derefType(fv.Type())) {
					return
				}
				key := funcKey(anon) + "/store " + fv.Name()
				guarded := false
				dominatingConds(st.Block(), func(cond ssa.Value, taken bool, at *ssa.BasicBlock) {
					bo, ok := cond.(*ssa.BinOp)
					if !ok {
						return
					}
					isLoad := func(v ssa.Value) bool {
						u, ok := v.(*ssa.UnOp)
						return ok && u.Op == token.MUL && u.X == ssa.Value(fv)
					}
					if (isLoad(bo.X) && isNilConst(bo.Y)) || (isLoad(bo.Y) && isNilConst(bo.X)) {
						if (bo.Op == token.EQL && taken) || (bo.Op == token.NEQ && !taken) {
							guarded = true
						}
					}
				})
				if guarded {
					r.Discharge("E3", key, c.P.pos(st.Pos()), "deferred step overwrites the command error only when it is nil")
				} else {
					r.Finding("E3", key, c.P.pos(st.Pos()), "deferred closure overwrites the command error unconditionally: an earlier failure can be replaced by nil (exit 0) ")
				}
			})
		}
		// (c') the same for a named helper that is deferred with the address of the named result
		eachInstr(fn, func(ins ssa.Instruction) {
			d, ok := ins.(*ssa.Defer)
			if !ok {
				return
			}
			h := d.Call.StaticCallee()
			if h == nil || h.Blocks == nil || funcPkgPath(h) != cmdPath {
				return
			}
			for ai, a := range d.Call.Args {
				al, isAl := a.(*ssa.Alloc)
				if !isAl || !isNamedResult(fn, al) || ai >= len(h.Params) {
					continue
				}
				p := h.Params[ai]
				nst, bad := 0, false
				eachInstr(h, func(hi ssa.Instruction) {
					st, ok := hi.(*ssa.Store)
					if !ok || st.Addr != ssa.Value(p) {
						return
					}
					nst++
					guarded := false
					dominatingConds(st.Block(), func(cond ssa.Value, taken bool, at *ssa.BasicBlock) {
						bo, ok := cond.(*ssa.BinOp)
						if !ok {
							return
						}
						isLoad := func(v ssa.Value) bool {
							u, ok := v.(*ssa.UnOp)
							return ok && u.Op == token.MUL && u.X == ssa.Value(p)
						}
						if (isLoad(bo.X) && isNilConst(bo.Y)) || (isLoad(bo.Y) && isNilConst(bo.X)) {
							if (bo.Op == token.EQL && taken) || (bo.Op == token.NEQ && !taken) {
								guarded = true
							}
						}
					})
					if !guarded {
						bad = true
					}
				})
				key := funcKey(fn) + "/deferred " + h.Name() + " stores " + p.Name()
				switch {
				case nst == 0:
				case bad:
					r.Finding("E3", key, c.P.pos(ins.Pos()), "the deferred step overwrites the command error unconditionally: an earlier failure can be replaced by nil (exit 0)")
				default:
					r.Discharge("E3", key, c.P.pos(ins.Pos()), "the deferred step overwrites the command error only when it is nil")
				}
			}
		})
	}
	// (d) main: os.Exit(1) exactly under Execute() != nil
	mainFn := c.P.SSA.FuncValue(lookupFunc(c.P.Main, "main"))
	if mainFn == nil {
		r.Fatal("anchor missing: main.main")
		return
	}
	nexit := 0
	eachInstr(mainFn, func(ins ssa.Instruction) {
		call, ok := ins.(*ssa.Call)
		if !ok || calleeName(&call.Call) != "os.Exit" {
			return
		}
		nexit++
		code, _ := constInt64(call.Call.Args[0])
		guarded := false
		dominatingConds(call.Block(), func(cond ssa.Value, taken bool, at *ssa.BasicBlock) {
			bo, ok := cond.(*ssa.BinOp)
			if !ok || !taken || bo.Op != token.NEQ {
				return
			}
			if ex, ok := bo.X.(*ssa.Call); ok && isNilConst(bo.Y) && ex.Call.StaticCallee() != nil && ex.Call.StaticCallee().Name() == "Execute" {
				guarded = true
			}
		})
		if guarded && code != 0 {
			r.Discharge("E3", "main/os.Exit", c.P.pos(call.Pos()), fmt.Sprintf("exit %d under Execute() != nil", code))
		} else {
			r.Finding("E3", "main/os.Exit", c.P.pos(call.Pos()), fmt.Sprintf("os.Exit(%d) is not the non-zero exit under Execute() != nil", code))
		}
	})
	if nexit == 0 {
		r.Finding("E3", "main/os.Exit", c.P.pos(mainFn.Pos()), "main never exits non-zero on error")
	}
}

// ---- E4 ---------------------------------------------------------------------

func ruleE4(c *Ctx) {
	r := c.R
	for _, fn := range runEFuncs(c) {
		ok := false
		var pos token.Pos = fn.Pos()
		eachInstr(fn, func(ins ssa.Instruction) {
			call, isCall := ins.(*ssa.Call)
			if !isCall || !call.Call.IsInvoke() || call.Call.Method.Name() != "PrintedAnything" {
				return
			}
			pos = call.Pos()
			// its result (negated or not) controls a branch one arm of which returns a non-nil error
			flowUses(call, 0, map[ssa.Value]bool{}, func(u ssa.Instruction, v ssa.Value) {
				var ifi *ssa.If
				switch x := u.(type) {
				case *ssa.If:
					ifi = x
				case *ssa.UnOp:
					for _, r2 := range *x.Referrers() {
						if i2, isIf := r2.(*ssa.If); isIf {
							ifi = i2
						}
					}
				}
				if ifi == nil {
					return
				}
				for _, s := range ifi.Block().Succs {
					if ret, isRet := s.Instrs[len(s.Instrs)-1].(*ssa.Return); isRet && returnsDefiniteError(fn, ret) {
						ok = true
					}
				}
			})
			// the test itself must sit on the success path: dominated by err == nil and exitStatus
			gotErrNil, gotFlag := false, false
			dominatingConds(call.Block(), func(cond ssa.Value, taken bool, at *ssa.BasicBlock) {
				if bo, isBo := cond.(*ssa.BinOp); isBo && bo.Op == token.EQL && taken && (isNilConst(bo.X) || isNilConst(bo.Y)) {
					gotErrNil = true
				}
				if u, isU := cond.(*ssa.UnOp); isU && u.Op == token.MUL && taken {
					if g, isG := u.X.(*ssa.Global); isG && g.Name() == "exitStatus" {
						gotFlag = true
					}
					// `if !completedSuccessfully { return err }`: the global is exactly `err == nil` of the
					// evaluation (rule E3), so being past that test is being on the success path
					if g, isG := u.X.(*ssa.Global); isG && g.Name() == "completedSuccessfully" {
						gotErrNil = true
					}
				}
				if bo, isBo := cond.(*ssa.BinOp); isBo && (bo.Op == token.NEQ && !taken) && (isNilConst(bo.X) || isNilConst(bo.Y)) {
					gotErrNil = true
				}
			})
			if !gotErrNil || !gotFlag {
				ok = false
			}
		})
		key := funcKey(fn) + "/exit-status-test"
		if ok {
			r.Discharge("E4", key, c.P.pos(pos), "on success with -e, !PrintedAnything() leads to a non-nil error return")
		} else {
			r.Finding("E4", key, c.P.pos(pos), "the -e test (err == nil && exitStatus && !PrintedAnything()) no longer guards the success exit")
		}
	}
	// printedMatches is monotone
	n := 0
	for _, fn := range c.moduleFuncs() {
		eachInstr(fn, func(ins ssa.Instruction) {
			st, ok := ins.(*ssa.Store)
			if !ok {
				return
			}
			fa, ok := st.Addr.(*ssa.FieldAddr)
			if !ok || fieldName(fa) != "printedMatches" {
				return
			}
			n++
			key := funcKey(fn) + "/store printedMatches"
			if monotoneFlagValue(st.Val, fa) {
				r.Discharge("E4", key, c.P.pos(st.Pos()), "flag is only ever raised (`old || x` or true)")
			} else if storeOnlyWhenFlagDown(st, fa) {
				r.Discharge("E4", key, c.P.pos(st.Pos()), "the store runs only when the flag was tested false (`if !old { old = x }`), so it is never lowered")
			} else {
				r.Finding("E4", key, c.P.pos(st.Pos()), "printedMatches can be lowered by a later result: -e reports failure although an earlier result was truthy")
			}
		})
	}
	if n == 0 {
		r.Fatal("anchor moved: no store to printedMatches")
	}
}

// storeOnlyWhenFlagDown: the store is dominated by a test of the same field
// having been false, and no other store to the field lies between that test and it.
func storeOnlyWhenFlagDown(st *ssa.Store, fa *ssa.FieldAddr) bool {
	guarded := false
	var testBlk *ssa.BasicBlock
	dominatingConds(st.Block(), func(cond ssa.Value, taken bool, at *ssa.BasicBlock) {
		v := cond
		if u, ok := v.(*ssa.UnOp); ok && u.Op == token.NOT {
			v, taken = u.X, !taken
		}
		if u, ok := v.(*ssa.UnOp); ok && u.Op == token.MUL && !taken {
			if fa2, ok := u.X.(*ssa.FieldAddr); ok && fa2.Field == fa.Field && sameLenBase(fa2.X, fa.X) {
				guarded = true
				testBlk = at
			}
		}
	})
	if !guarded {
		return false
	}
	// any other store to the field (or call that may store it) in a block dominated by the test and reaching the store
	for _, b := range st.Parent().Blocks {
		if !testBlk.Dominates(b) || !reaches(b, st.Block()) {
			continue
		}
		for _, ins := range b.Instrs {
			if ins == ssa.Instruction(st) {
				break
			}
			if o, ok := ins.(*ssa.Store); ok {
				if fo, ok := o.Addr.(*ssa.FieldAddr); ok && fo.Field == fa.Field && b != testBlk {
					return false
				}
			}
		}
	}
	return true
}

// monotoneFlagValue: v is `true`, or a phi one edge of which is `true` arriving
// from the block that branched on the old value of the same field.
func monotoneFlagValue(v ssa.Value, fa *ssa.FieldAddr) bool {
	if cst, ok := v.(*ssa.Const); ok && cst.Value != nil && cst.Value.Kind() == constant.Bool {
		return constant.BoolVal(cst.Value)
	}
	phi, ok := v.(*ssa.Phi)
	if !ok {
		return false
	}
	for i, e := range phi.Edges {
		cst, ok := e.(*ssa.Const)
		if !ok || cst.Value == nil || cst.Value.Kind() != constant.Bool || !constant.BoolVal(cst.Value) {
			continue
		}
		pred := phi.Block().Preds[i]
		if ifi, ok := pred.Instrs[len(pred.Instrs)-1].(*ssa.If); ok {
			if u, ok := ifi.Cond.(*ssa.UnOp); ok && u.Op == token.MUL {
				if fa2, ok := u.X.(*ssa.FieldAddr); ok && fa2.Field == fa.Field && sameLenBase(fa2.X, fa.X) && pred.Succs[0] == phi.Block() {
					return true
				}
			}
		}
	}
	return false
}

// ---- E5 ---------------------------------------------------------------------

func ruleE5(c *Ctx) {
	r := c.R
	fns := runEFuncs(c)
	if len(fns) != 2 {
		return
	}
	ignore := func(n string) bool {
		return strings.Contains(n, "GetLogger") || strings.Contains(n, "Debug") || strings.Contains(n, "NewStreamEvaluator") || strings.Contains(n, "NewAllAtOnceEvaluator") || strings.HasPrefix(n, "builtin.") || strings.Contains(n, "cobra.Command") || n == "errors.New" || n == ""
	}
	sets := make([]map[string]bool, 2)
	for i, fn := range fns {
		sets[i] = map[string]bool{}
		var visit func(f *ssa.Function)
		visit = func(f *ssa.Function) {
			eachInstr(f, func(ins ssa.Instruction) {
				if cc := callCommon(ins); cc != nil {
					n := calleeName(cc)
					if cc.IsInvoke() {
						n = "iface." + cc.Method.Name()
					}
					if cal := cc.StaticCallee(); cal != nil && cal.Parent() != nil {
						return // a closure of the function itself; its body is visited below
					}
					if !ignore(n) {
						sets[i][shortCallee(n)] = true
					}
				}
			})
			for _, a := range f.AnonFuncs {
				visit(a)
			}
		}
		visit(fn)
	}
	all := map[string]bool{}
	for _, s := range sets {
		for k := range s {
			all[k] = true
		}
	}
	var names []string
	for k := range all {
		names = append(names, k)
	}
	sort.Strings(names)
	for _, n := range names {
		key := "setup-call " + n
		if sets[0][n] && sets[1][n] {
			r.Discharge("E5", key, c.P.pos(fns[0].Pos()), "called by both evaluateSequence and evaluateAll")
		} else {
			who, other := funcKey(fns[0]), funcKey(fns[1])
			if sets[1][n] {
				who, other = other, who
			}
			r.Finding("E5", key, c.P.pos(fns[0].Pos()), fmt.Sprintf("%s calls %s but its sibling %s does not: the two commands disagree on set-up / error handling", who, n, other))
		}
	}
}

// ---- E6 ---------------------------------------------------------------------

func ruleE6(c *Ctx) {
	r := c.R
	newFn := c.libFunc("streamEvaluator.EvaluateNew")
	if newFn == nil {
		r.Fatal("anchor missing: (*streamEvaluator).EvaluateNew")
		return
	}
	reach := staticReach(c, []*ssa.Function{newFn}, func(f *ssa.Function) bool { return f.Name() == "GetMatchingNodes" })
	bad := ""
	for f := range reach {
		if f.Name() == "readStream" || f.Name() == "readDocuments" {
			bad = pathTo(reach, f)
		}
		eachInstr(f, func(ins ssa.Instruction) {
			for _, op := range ins.Operands(nil) {
				if g, ok := (*op).(*ssa.Global); ok && g.Pkg.Pkg.Path() == "os" && g.Name() == "Stdin" {
					bad = pathTo(reach, f) + " (os.Stdin)"
				}
			}
		})
	}
	if bad == "" {
		r.Discharge("E6", "EvaluateNew/no-input", c.P.pos(newFn.Pos()), fmt.Sprintf("%d functions reachable from EvaluateNew (outside expression evaluation); none reads a stream or os.Stdin", len(reach)))
	} else {
		r.FindingPath("E6", "EvaluateNew/no-input", c.P.pos(newFn.Pos()), "the -n route can read input", bad)
	}
	// nullInput: files rejected, stdin not appended
	initFn := c.P.SSA.FuncValue(lookupFunc(c.P.Cmd, "initCommand"))
	stdinFn := c.P.SSA.FuncValue(lookupFunc(c.P.Cmd, "processStdInArgs"))
	if initFn == nil || stdinFn == nil {
		r.Fatal("anchor missing: cmd.initCommand / cmd.processStdInArgs")
		return
	}
	loadsGlobal := func(v ssa.Value, name string) bool {
		u, ok := v.(*ssa.UnOp)
		if !ok || u.Op != token.MUL {
			return false
		}
		g, ok := u.X.(*ssa.Global)
		return ok && g.Name() == name
	}
	rejected := false
	// in initCommand itself, or in a helper of the command package whose error initCommand returns
	rejectIn := []*ssa.Function{initFn}
	eachInstr(initFn, func(ins ssa.Instruction) {
		if call, ok := ins.(*ssa.Call); ok {
			if h := call.Call.StaticCallee(); h != nil && h.Blocks != nil && funcPkgPath(h) == cmdPath && errorResultIndex(h.Signature) >= 0 && errorReachesReturn(call, 0) {
				rejectIn = append(rejectIn, h)
			}
		}
	})
	for _, f := range rejectIn {
		for _, b := range f.Blocks {
			ret, ok := b.Instrs[len(b.Instrs)-1].(*ssa.Return)
			if !ok || !returnsDefiniteError(f, ret) {
				continue
			}
			dominatingConds(b, func(cond ssa.Value, taken bool, at *ssa.BasicBlock) {
				if taken && loadsGlobal(cond, "nullInput") {
					rejected = true
				}
				// `case nullInput && !noFiles:` is built as a phi of the two tests: the phi is true only
				// along an edge that was reached with nullInput true
				if phi, isPhi := cond.(*ssa.Phi); isPhi && taken {
					all, any := true, false
					for i, e := range phi.Edges {
						if k, isK := e.(*ssa.Const); isK && k.Value != nil && k.Value.String() == "false" {
							continue
						}
						any = true
						up := loadsGlobal(e, "nullInput")
						edgeConds(phi.Block().Preds[i], phi.Block())(func(c2 ssa.Value, t2 bool, _ *ssa.BasicBlock) {
							if t2 && loadsGlobal(c2, "nullInput") {
								up = true
							}
						})
						if !up {
							all = false
						}
					}
					if any && all {
						rejected = true
					}
				}
			})
		}
	}
	if rejected {
		r.Discharge("E6", "initCommand/nullInput-rejects-files", c.P.pos(initFn.Pos()), "an error return is guarded by nullInput (files with -n are rejected)")
	} else {
		r.Finding("E6", "initCommand/nullInput-rejects-files", c.P.pos(initFn.Pos()), "no error return guarded by nullInput: -n with files would read them")
	}
	appended := false
	guardedAll := true
	eachInstr(stdinFn, func(ins ssa.Instruction) {
		call, ok := ins.(*ssa.Call)
		if !ok {
			return
		}
		if b, ok := call.Call.Value.(*ssa.Builtin); !ok || b.Name() != "append" {
			return
		}
		appended = true
		g := false
		dominatingConds(call.Block(), func(cond ssa.Value, taken bool, at *ssa.BasicBlock) {
			if !taken && loadsGlobal(cond, "nullInput") {
				g = true
			}
		})
		if !g {
			guardedAll = false
		}
	})
	if appended && guardedAll {
		r.Discharge("E6", "processStdInArgs/stdin-not-appended", c.P.pos(stdinFn.Pos()), "`-` is appended to the arguments only when nullInput is false")
	} else if appended {
		r.Finding("E6", "processStdInArgs/stdin-not-appended", c.P.pos(stdinFn.Pos()), "`-` can be appended to the arguments although nullInput is set: -n would read stdin")
	} else {
		r.Discharge("E6", "processStdInArgs/stdin-not-appended", c.P.pos(stdinFn.Pos()), "arguments are never extended with stdin")
	}
}

// ---- E7 ---------------------------------------------------------------------

func ruleE7(c *Ctx) {
	r := c.R
	initFn := c.P.SSA.FuncValue(lookupFunc(c.P.Cmd, "initCommand"))
	if initFn == nil {
		return
	}
	n := 0
	eachInstr(initFn, func(ins ssa.Instruction) {
		call, ok := ins.(*ssa.Call)
		if !ok || call.Call.StaticCallee() == nil || call.Call.StaticCallee().Name() != "FormatStringFromFilename" {
			return
		}
		n++
		// the inputFormat store must take this result, and the argument must come from args[0]
		fromFirst := false
		other := ""
		returnLeaves(call.Call.Args[0], func(l ssa.Value) bool {
			if u, ok := l.(*ssa.UnOp); ok {
				if ia, ok := u.X.(*ssa.IndexAddr); ok {
					if k, ok := constInt64(ia.Index); ok && k == 0 {
						fromFirst = true
						return true
					}
				}
			}
			if cst, ok := l.(*ssa.Const); ok && cst.Value != nil && cst.Value.Kind() == constant.String && constant.StringVal(cst.Value) == "" {
				return true // no file argument
			}
			if _, isPhi := l.(*ssa.Phi); !isPhi {
				other = exprOfValue(l)
			}
			return false
		})
		if other != "" {
			fromFirst = false
		}
		key := "initCommand/FormatStringFromFilename(arg)"
		if fromFirst {
			r.Discharge("E7", key, c.P.pos(call.Pos()), "format is derived from args[0]")
		} else {
			r.Finding("E7", key, c.P.pos(call.Pos()), "automatic format is not derived from the first file argument")
		}
	})
	if n == 0 {
		r.Finding("E7", "initCommand/FormatStringFromFilename(arg)", c.P.pos(initFn.Pos()), "input format is no longer derived from the file name")
	}
}

// ---- S4 ---------------------------------------------------------------------

// ruleS4: for every type implementing Decoder: fields written in Decode (and
// in module functions it calls on the receiver) ⊆ fields written in Init.
func ruleS4(c *Ctx, rule string) {
	r := c.R
	pk := c.P.lib()
	decIface, _ := pk.Types.Scope().Lookup("Decoder").Type().Underlying().(*types.Interface)
	if decIface == nil {
		r.Fatal("anchor missing: interface Decoder")
		return
	}
	ndec := 0
	for _, name := range pk.Types.Scope().Names() {
		tn, ok := pk.Types.Scope().Lookup(name).(*types.TypeName)
		if !ok {
			continue
		}
		named, ok := tn.Type().(*types.Named)
		if !ok {
			continue
		}
		ptr := types.NewPointer(named)
		if !types.Implements(ptr, decIface) {
			continue
		}
		if _, isIface := named.Underlying().(*types.Interface); isIface {
			continue
		}
		st, ok := named.Underlying().(*types.Struct)
		if !ok {
			continue
		}
		ndec++
		initFn := c.libFunc(name + ".Init")
		decFn := c.libFunc(name + ".Decode")
		if initFn == nil || decFn == nil || initFn.Blocks == nil {
			r.Undecided(rule, name+"/methods", c.P.pos(tn.Pos()), "Init/Decode not found")
			continue
		}
		initW := receiverFieldWrites(c, initFn, named, map[*ssa.Function]bool{})
		decW := receiverFieldWrites(c, decFn, named, map[*ssa.Function]bool{})
		for i := 0; i < st.NumFields(); i++ {
			f := st.Field(i).Name()
			if !decW[f] {
				continue
			}
			key := name + "." + f
			if initW[f] && hasDirectFieldStore(initFn, f) && storeAvoidable(initFn, f) {
				r.Finding(rule, key, c.P.pos(st.Field(i).Pos()), "field is written while decoding and Init resets it only on some paths (the store is conditional): a decoder reused for the next file can start with the previous file's state")
			} else if initW[f] {
				r.Discharge(rule, key, c.P.pos(st.Field(i).Pos()), "written by Decode and reset by Init")
			} else {
				r.Finding(rule, key, c.P.pos(st.Field(i).Pos()), "field is written while decoding but Init does not reset it: a decoder reused for the next file starts with stale state (file silently skipped or mixed)")
			}
		}
	}
	r.Analysed["decoder_types"] = ndec
}

// receiverFieldWrites: names of receiver fields stored to (or whose address
// is passed to a call / used as a method receiver with pointer semantics) in
// fn and in methods of the same type it calls on the same receiver.
func receiverFieldWrites(c *Ctx, fn *ssa.Function, named *types.Named, seen map[*ssa.Function]bool) map[string]bool {
	out := map[string]bool{}
	if fn == nil || seen[fn] || len(fn.Params) == 0 {
		return out
	}
	seen[fn] = true
	recv := fn.Params[0]
	var walk func(f *ssa.Function, self ssa.Value)
	walk = func(f *ssa.Function, self ssa.Value) {
		eachInstr(f, func(ins ssa.Instruction) {
			switch x := ins.(type) {
			case *ssa.Store:
				if fa, ok := x.Addr.(*ssa.FieldAddr); ok && fa.X == self {
					out[fieldName(fa)] = true
				}
			case *ssa.Call:
				// method of the same type called on the same receiver
				if cal := x.Call.StaticCallee(); cal != nil && len(x.Call.Args) > 0 && x.Call.Args[0] == self && cal.Signature.Recv() != nil && cal.Blocks != nil && c.P.isModulePath(funcPkgPath(cal)) {
					for k := range receiverFieldWrites(c, cal, named, seen) {
						out[k] = true
					}
				}
			case *ssa.MapUpdate:
				if u, ok := x.Map.(*ssa.UnOp); ok {
					if fa, ok := u.X.(*ssa.FieldAddr); ok && fa.X == self {
						out[fieldName(fa)] = true
					}
				}
			}
		})
		for _, a := range f.AnonFuncs {
			// closures capturing the receiver
			for i, fv := range a.FreeVars {
				_ = i
				if types.Identical(fv.Type(), recv.Type()) {
					walk(a, fv)
				}
			}
		}
	}
	walk(fn, recv)
	return out
}

// hasDirectFieldStore: fn itself stores into the receiver's field (rather than resetting it through a helper).
func hasDirectFieldStore(fn *ssa.Function, field string) bool {
	found := false
	eachInstr(fn, func(ins ssa.Instruction) {
		if st, ok := ins.(*ssa.Store); ok {
			if fa, ok := st.Addr.(*ssa.FieldAddr); ok && fa.X == ssa.Value(fn.Params[0]) && fieldName(fa) == field {
				found = true
			}
		}
	})
	return found
}
