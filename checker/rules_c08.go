package main

import "strings"

// C08 — conditions, keys and operands are evaluated read-only.

func init() {
	register("C08", "Decides structural necessary conditions of 'evaluating an expression without update operators never changes the input': (X1, engine E1) for every function stored in an operationType.Handler slot that is not a declared update operator, the inter-procedural mutation footprint (stores reached from the handler, through callbacks, interface dispatch and locally built dynamic evaluations, with context-sensitive summaries) contains no store into a node reachable from the handler's context unless the store is dominated by a `!context.DontAutoCreate` test; (X2) every Context-deriving method keeps the read-only flag or sets it, the only escalation point is WritableClone, and a context made writable never evaluates a user sub-expression; (X3) the `as` binder and `select` evaluate their source / predicate under a read-only context, and (R1) every operand that is evaluated read-only on the pinned tree (42 sites) still is. (X7) `as $v` binds a Copy() of every matched node whatever the node is. (X8 = M5, X9 = M12) the assumptions E1 makes about merges on copies are checked: merge preferences carry DontFollowAlias and under it no alias edge is followed (two known findings). Does NOT decide that results are correct, nor expressions parsed at run time from constant strings (array_to_map, pretty-print).", runC08)
}

func runC08(c *Ctx) {
	r := c.R
	r.Rule("X1", "pure handlers do not store into nodes of their context (unless guarded by !DontAutoCreate)", 80)
	r.Rule("X2", "derived contexts keep the read-only flag; writable contexts never evaluate user sub-expressions", 8)
	r.Rule("X3", "`as` and `select` evaluate their source/predicate read-only", 2)
	r.Rule("R1", "operands evaluated read-only on the pinned tree stay read-only", 38)
	ruleX1(c, "X1")
	ruleX2(c, "X2")
	isX3 := func(k string) bool {
		return strings.HasPrefix(k, "yqlib.variableLoopSingleChild/") || strings.HasPrefix(k, "yqlib.selectOperator/")
	}
	ruleR1(c, "X3", isX3)
	ruleR1(c, "R1", func(k string) bool { return !isX3(k) })
	// X4: no two nodes share one child list. A result or scratch copy that takes
	// another node's children as they are is the document under a second name:
	// code that normalises "its own copy" in place (explode before printing,
	// key re-tagging in the properties encoder) then rewrites the input.
	ruleK1w(c, "X4", 12)
	// X5: the pipe hands on results, not contexts: what `|` returns is its own (read-only
	// as received) context around the right side's results. Returning the right side's
	// Context lets a writable context made inside an operand (object construction) escape
	// into operators that reuse the context they get back (reduce).
	r.Rule("X5", "`|` returns its own context around the right side's results", 2)
	checkN1(c, "X5")
	ruleX6(c, "X6")
	ruleBindCopies(c, "X7")
	r.Rule("X8", "every merge-preferences value built in the module carries DontFollowAlias", 2)
	ruleM5(c, "X8")
	ruleM12(c, "X9")
	r.Assume("expression strings parsed at run time from constants (array_to_map, PrettyPrintExp) are not visible to the IR")
	r.Assume("third-party functions do not store into CandidateNode fields (they do not know the type); reflection-based copier.Copy is only applied to preference structs")
}
