package main

import (
	"fmt"
	"go/ast"
	"go/constant"
	"go/token"
	"go/types"
	"sort"
	"strings"

	"golang.org/x/tools/go/ssa"
)

// C05, C06, C13, C14 — codec / conversion rules (engine E2 with some SSA).

func init() {
	register("C05", "Decides narrow structural necessary conditions of 'yq . preserves YAML data and presentation': (Y1) the yaml.Node attributes read by copyFromYamlNode/UnmarshalYAML equal those written by copyToYamlNode/MarshalYAML (exclusion: Alias, emitted through Value), and likewise for the CandidateNode attributes in the two directions; (Y2) MapYamlStyle and MapToYamlStyle are mutually inverse on the six named styles, the constants of the two enumerations are numerically equal and the fall-through of each is a plain conversion (combined style bit-sets pass unchanged); (Y3) Copy() carries every CandidateNode field; (Y4) the document-separator marker is one literal shared by the decoder that writes it and the encoders / printer that consume it. (Y8) printedMatches is read only by its accessor and its own update; (Y9) copyToYamlNode writes each attribute on every path. Does NOT decide anything that depends on yaml.v3's emitter or on leading-content pre-processing: document count, comment placement, byte idempotence.", runC05)
	register("C06", "Decides structural necessary conditions of 'YAML<->JSON is value-exact and always valid JSON': (J1) every json encoder created in the module has SetEscapeHTML(false) on all paths before its first Encode; (J2) no JSON scalar is decoded into interface{} without UseNumber (integers exact) and (J6) no unsigned→signed conversion is applied to a parsed integer; (J3) Encoder.Encode is invoked only from resultsPrinter.printNode, and PrintResults tests CanHandleAliases and explodes on the negative branch before any node is printed; (J4) no Go map is the target of a JSON decode nor ranged over on the conversion paths (key order); (J5) the error of GetValueRep is returned by MarshalJSON (an unrepresentable scalar fails instead of changing value). (J12) a command-line setting is not rewritten in a function after a decision was taken from it there. (J13) CanHandleAliases() is true only for an encoder that hands the node to the YAML library. Does NOT decide string escaping (delegated to goccy/go-json) nor float formatting.", runC06)
	register("C13", "Decides narrow structural necessary conditions of 'aliases and merge keys read as the YAML specification resolves them' over the three read routes: (A1) the test 'this map entry is a merge key' is the same predicate (tag !!merge) at every site that special-cases it — traversal, merge, explode; (A2 = J3) non-alias-capable encoders get exploded input; (A4) an anchor definition unconditionally replaces the previous definition of that name (latest wins, as aliases refer to the most recent anchor); (A5) overrideEntry explodes the value on every path before it is installed. (A9) preferences are handed on as received and never changed for a self-recursive call; (A10) the anchor table parameter is passed on, never a fresh map. (A11) CanHandleAliases() is constant and true only for the encoder that hands the node to the YAML library; (A12) traversePathOperator hands on every node the traversal returns. Does NOT decide which source wins (explicit vs merged, list order): a value-level fact.", runC13)
	register("C14", "Decides narrow structural necessary conditions of codec faithfulness: (K1) the Lua escape table maps every control byte, DEL, both quotes and backslash to its decimal \\ddd or named Lua escape — computed from the constants of the strings.NewReplacer call; (K2) for every Format the encoder and decoder factories read the same Configured*Preferences variable (separator / prefix agreement of inverse pairs); (K3) every codec operator the lexer can emit names a Format whose needed factory is non-nil; (K4 = C19 E1/E2) encoders and decoders drop no error and flush their buffering writers. Does NOT decide value fidelity of any codec: quoting is delegated to encoding/csv, encoding/xml, magiconair/properties, go-toml, gopher-lua.", runC14)
}

// ---------------------------------------------------------------------------
// C05
// ---------------------------------------------------------------------------

func runC05(c *Ctx) {
	r := c.R
	r.Rule("Y1", "yaml.Node <-> CandidateNode attribute sets agree in both directions", 9)
	r.Rule("Y2", "style maps are inverse bijections with equal constants and identity fall-through", 9)
	r.Rule("Y3", "Copy() carries every CandidateNode field", 20)
	r.Rule("Y4", "one document-separator marker literal", 3)
	ruleY1(c, "Y1")
	ruleY2(c, "Y2")
	ruleY3(c, "Y3")
	ruleY4(c, "Y4")
	ruleY5(c, "Y5")
	ruleY6(c, "Y6")
	r.Rule("Y7", "MarshalYAML has an arm for every node kind", 4)
	ruleKindSwitch(c, "Y7", "CandidateNode.MarshalYAML")
	ruleG11(c, "Y8")
	ruleY9(c, "Y9")
}

// ruleY6: every yaml.Node that MarshalYAML hands to the YAML library was
// filled by copyToYamlNode (the one place that carries comments, style, tag,
// anchor, alias, position), on every path from its creation to the return —
// for every node kind, aliases included.
func ruleY6(c *Ctx, rule string) {
	r := c.R
	r.Rule(rule, "every yaml.Node returned by MarshalYAML passed through copyToYamlNode", 4)
	fn := c.libFunc("CandidateNode.MarshalYAML")
	if fn == nil {
		r.Fatal("anchor missing: (*CandidateNode).MarshalYAML")
		return
	}
	n := 0
	for _, b := range fn.Blocks {
		ret, ok := b.Instrs[len(b.Instrs)-1].(*ssa.Return)
		if !ok || len(ret.Results) != 2 {
			continue
		}
		al, ok := ret.Results[0].(*ssa.Alloc)
		if !ok {
			continue // nil, err
		}
		n++
		key := fmt.Sprintf("MarshalYAML/return#%d", n)
		fills := func(ins ssa.Instruction) bool {
			cc := callCommon(ins)
			if cc == nil || cc.StaticCallee() == nil || cc.StaticCallee().Name() != "copyToYamlNode" {
				return false
			}
			for _, a := range cc.Args {
				if a == ssa.Value(al) {
					return true
				}
			}
			return false
		}
		ai := 0
		for i, ins := range al.Block().Instrs {
			if ins == ssa.Instruction(al) {
				ai = i
			}
		}
		if pathAvoiding(fn, al.Block(), ai, b, len(b.Instrs)-1, fills) {
			r.Finding(rule, key, c.P.pos(ret.Pos()), "a yaml.Node is returned that did not pass through copyToYamlNode: its comments (and whatever else copyToYamlNode carries) are lost when the document is written back")
		} else {
			r.Discharge(rule, key, c.P.pos(ret.Pos()), "filled by copyToYamlNode on every path")
		}
	}
	if n == 0 {
		r.Fatal("anchor moved: MarshalYAML returns no locally created yaml.Node")
	}
}

// ruleY5: the YAML decoder lifts leading comment lines out of the stream with a
// line predicate (a regular expression); the encoder that prints that leading
// content back must recognise a comment line with the same predicate, or a
// line the decoder collected as a comment is re-emitted as if it were not one.
func ruleY5(c *Ctx, rule string) {
	r := c.R
	r.Rule(rule, "decoder and encoder recognise a leading comment line with the same pattern", 1)
	patterns := func(name string) (map[string]bool, *ssa.Function) {
		fn := c.libFunc(name)
		if fn == nil {
			r.Fatal("anchor missing: %s", name)
			return nil, nil
		}
		out := map[string]bool{}
		eachInstr(fn, func(ins ssa.Instruction) {
			call, ok := ins.(*ssa.Call)
			if !ok || calleeName(&call.Call) != "regexp.MustCompile" {
				return
			}
			if k, ok := call.Call.Args[0].(*ssa.Const); ok && k.Value != nil {
				p := constant.StringVal(k.Value)
				if strings.Contains(p, "#") {
					out[p] = true
				}
			}
		})
		// patterns compiled once in a package-level variable that the function reads
		eachInstr(fn, func(ins ssa.Instruction) {
			u, ok := ins.(*ssa.UnOp)
			if !ok {
				return
			}
			g, ok := u.X.(*ssa.Global)
			if !ok || g.Pkg == nil {
				return
			}
			if init := g.Pkg.Func("init"); init != nil {
				eachInstr(init, func(i2 ssa.Instruction) {
					st, ok := i2.(*ssa.Store)
					if !ok || st.Addr != ssa.Value(g) {
						return
					}
					if call, ok := st.Val.(*ssa.Call); ok && calleeName(&call.Call) == "regexp.MustCompile" {
						if k, ok := call.Call.Args[0].(*ssa.Const); ok && k.Value != nil {
							if p := constant.StringVal(k.Value); strings.Contains(p, "#") {
								out[p] = true
							}
						}
					}
				})
			}
		})
		return out, fn
	}
	dec, dfn := patterns("yamlDecoder.processReadStream")
	enc, efn := patterns("yamlEncoder.PrintLeadingContent")
	if dfn == nil || efn == nil {
		return
	}
	if len(dec) == 0 {
		r.Undecided(rule, "yaml/comment-line-pattern", c.P.pos(dfn.Pos()), "the decoder's leading-content scan no longer uses a comment-line pattern: the anchor of this rule moved")
		return
	}
	var missing []string
	for p := range dec {
		if !enc[p] {
			missing = append(missing, p)
		}
	}
	sort.Strings(missing)
	if len(missing) == 0 {
		r.Discharge(rule, "yaml/comment-line-pattern", c.P.pos(efn.Pos()), fmt.Sprintf("both sides use %v", keysOf(dec)))
	} else {
		r.Finding(rule, "yaml/comment-line-pattern", c.P.pos(efn.Pos()), fmt.Sprintf("the decoder collects leading comment lines with %q but PrintLeadingContent does not test lines with that pattern: a line the decoder took for a comment (e.g. one indented with a tab) is printed back as `# ` + line", missing))
	}
}

func keysOf(m map[string]bool) []string {
	var out []string
	for k := range m {
		out = append(out, k)
	}
	sort.Strings(out)
	return out
}

// fieldAccesses: fields of struct `typeName` read / written through pointers
// in the given functions (including composite literals of that type).
func fieldAccesses(c *Ctx, fnNames []string, typeName string) (reads, writes map[string]bool) {
	reads, writes = map[string]bool{}, map[string]bool{}
	for _, n := range fnNames {
		fn := c.libFunc(n)
		if fn == nil {
			c.R.Fatal("anchor missing: %s", n)
			continue
		}
		eachInstr(fn, func(ins ssa.Instruction) {
			switch x := ins.(type) {
			case *ssa.UnOp:
				if fa, ok := x.X.(*ssa.FieldAddr); ok && x.Op == token.MUL && namedTypeName(fa.X.Type()) == typeName {
					reads[fieldName(fa)] = true
				}
			case *ssa.Store:
				if fa, ok := x.Addr.(*ssa.FieldAddr); ok && namedTypeName(fa.X.Type()) == typeName {
					writes[fieldName(fa)] = true
				}
			}
		})
	}
	return
}

func ruleY1(c *Ctx, rule string) {
	r := c.R
	fromFns := []string{"CandidateNode.copyFromYamlNode", "CandidateNode.UnmarshalYAML", "CandidateNode.decodeIntoChild"}
	toFns := []string{"CandidateNode.copyToYamlNode", "CandidateNode.MarshalYAML"}
	yr, _ := fieldAccesses(c, fromFns, "Node")          // yaml.Node fields read when decoding
	_, yw := fieldAccesses(c, toFns, "Node")            // yaml.Node fields written when encoding
	_, cw := fieldAccesses(c, fromFns, "CandidateNode") // CandidateNode fields written when decoding
	cr, _ := fieldAccesses(c, toFns, "CandidateNode")   // CandidateNode fields read when encoding
	exclY := map[string]string{"Alias": "an alias is emitted through Kind=AliasNode and Value (the anchor name); yaml.Node.Alias is only needed when decoding"}
	exclC := map[string]string{"Alias": "resolved when decoding; on output the alias is named by Value", "IsMapKey": "position attribute, not presentation", "Key": "position attribute", "Parent": "position attribute"}
	var names []string
	for f := range yr {
		names = append(names, f)
	}
	for f := range yw {
		if !yr[f] {
			names = append(names, f)
		}
	}
	sort.Strings(names)
	for _, f := range names {
		key := "yaml.Node." + f
		switch {
		case yr[f] && yw[f]:
			r.Discharge(rule, key, "-", "read when decoding and written when encoding")
		case exclY[f] != "":
			r.Discharge(rule, key, "-", "one-directional by design: "+exclY[f])
		case yr[f]:
			r.Finding(rule, key, "-", "yaml.Node."+f+" is read when decoding but never written when encoding: the attribute is lost on output for every document that carries it")
		default:
			r.Finding(rule, key, "-", "yaml.Node."+f+" is written when encoding but never read when decoding: the output carries a value the input never supplied")
		}
	}
	names = names[:0]
	for f := range cw {
		names = append(names, f)
	}
	for f := range cr {
		if !cw[f] {
			names = append(names, f)
		}
	}
	sort.Strings(names)
	for _, f := range names {
		key := "CandidateNode." + f
		switch {
		case cw[f] && cr[f]:
			r.Discharge(rule, key, "-", "set from the yaml node and put back into the yaml node")
		case exclC[f] != "":
			r.Discharge(rule, key, "-", "one-directional by design: "+exclC[f])
		case cw[f]:
			r.Finding(rule, key, "-", "CandidateNode."+f+" is filled from YAML input but not written back to the yaml node: the attribute is dropped by `yq .`")
		default:
			r.Finding(rule, key, "-", "CandidateNode."+f+" is written to the yaml node but never filled from YAML input")
		}
	}
}

// switchPairs: for `func f(x T) U { switch x { case A: return B ... } return <default> }`
func switchPairs(c *Ctx, name string) (pairs map[string]string, vals map[string]constant.Value, defaultIsConv bool, pos token.Pos, ok bool) {
	pk := c.P.lib()
	fd := funcDecl(pk, lookupFunc(pk, name))
	if fd == nil || fd.Body == nil {
		return nil, nil, false, token.NoPos, false
	}
	pairs, vals = map[string]string{}, map[string]constant.Value{}
	info := pk.TypesInfo
	constName := func(e ast.Expr) (string, constant.Value) {
		tv := info.Types[e]
		switch x := ast.Unparen(e).(type) {
		case *ast.Ident:
			return x.Name, tv.Value
		case *ast.SelectorExpr:
			return types.ExprString(x), tv.Value
		case *ast.BasicLit:
			return x.Value, tv.Value
		}
		return types.ExprString(e), tv.Value
	}
	for _, st := range fd.Body.List {
		switch s := st.(type) {
		case *ast.SwitchStmt:
			for _, cl := range s.Body.List {
				cc := cl.(*ast.CaseClause)
				if len(cc.List) != 1 || len(cc.Body) != 1 {
					continue
				}
				ret, isRet := cc.Body[0].(*ast.ReturnStmt)
				if !isRet || len(ret.Results) != 1 {
					continue
				}
				a, av := constName(cc.List[0])
				b, bv := constName(ret.Results[0])
				pairs[a] = b
				vals[a], vals[b] = av, bv
			}
		case *ast.ReturnStmt:
			if len(s.Results) == 1 {
				if call, isCall := ast.Unparen(s.Results[0]).(*ast.CallExpr); isCall && len(call.Args) == 1 {
					if tv, isT := info.Types[call.Fun]; isT && tv.IsType() {
						if id, isId := ast.Unparen(call.Args[0]).(*ast.Ident); isId && len(fd.Type.Params.List) == 1 && len(fd.Type.Params.List[0].Names) == 1 && info.Uses[id] == info.Defs[fd.Type.Params.List[0].Names[0]] {
							defaultIsConv = true
						}
					}
				}
			}
		}
	}
	return pairs, vals, defaultIsConv, fd.Pos(), true
}

func ruleY2(c *Ctx, rule string) {
	r := c.R
	f, fv, fconv, fpos, ok1 := switchPairs(c, "MapYamlStyle")
	g, gv, gconv, gpos, ok2 := switchPairs(c, "MapToYamlStyle")
	if !ok1 || !ok2 {
		r.Fatal("anchor missing: MapYamlStyle / MapToYamlStyle")
		return
	}
	var keys []string
	for a := range f {
		keys = append(keys, a)
	}
	sort.Strings(keys)
	for _, a := range keys {
		b := f[a]
		key := "style " + a + "<->" + b
		back, has := g[b]
		switch {
		case !has || back != a:
			r.Finding(rule, key, c.P.pos(fpos), fmt.Sprintf("MapYamlStyle maps %s to %s but MapToYamlStyle maps %s to %q: the style changes on a round trip", a, b, b, back))
		case fv[a] != nil && fv[b] != nil && !constant.Compare(constant.ToInt(fv[a]), token.EQL, constant.ToInt(fv[b])):
			r.Finding(rule, key, c.P.pos(fpos), fmt.Sprintf("%s (%v) and %s (%v) differ numerically: combined style bit-sets, which fall through as a plain conversion, change meaning", a, fv[a], b, fv[b]))
		default:
			r.Discharge(rule, key, c.P.pos(fpos), "mapped both ways, equal numeric value")
		}
	}
	for b, a := range g {
		if f[a] != b {
			r.Finding(rule, "style "+a+"<->"+b, c.P.pos(gpos), fmt.Sprintf("MapToYamlStyle maps %s to %s but MapYamlStyle does not map it back", b, a))
		}
	}
	_ = gv
	if len(f) < 7 {
		r.Finding(rule, "style-count", c.P.pos(fpos), fmt.Sprintf("only %d styles are mapped by name (six named styles + none expected)", len(f)))
	}
	for name, conv := range map[string]bool{"MapYamlStyle": fconv, "MapToYamlStyle": gconv} {
		pos := fpos
		if name == "MapToYamlStyle" {
			pos = gpos
		}
		if conv {
			r.Discharge(rule, name+"/fall-through", c.P.pos(pos), "combined style bit-sets fall through as a plain conversion of the argument")
		} else {
			r.Finding(rule, name+"/fall-through", c.P.pos(pos), "the fall-through for combined style bit-sets is not a plain conversion of the argument: tagged+literal / tagged+folded scalars lose part of their style")
		}
	}
}

func ruleY4(c *Ctx, rule string) {
	r := c.R
	pk := c.P.lib()
	markers := map[string][]token.Pos{}
	for _, f := range pk.Syntax {
		ast.Inspect(f, func(n ast.Node) bool {
			bl, ok := n.(*ast.BasicLit)
			if !ok || bl.Kind != token.STRING {
				return true
			}
			s, ok := constString(pk.TypesInfo, bl)
			if !ok || !strings.Contains(s, "DocSeparator") {
				return true
			}
			// normalise regexp spelling
			norm := strings.NewReplacer("\\", "", "^", "").Replace(s)
			i := strings.Index(norm, "$")
			j := strings.LastIndex(norm, "$")
			if i >= 0 && j > i {
				norm = norm[i : j+1]
			}
			markers[norm] = append(markers[norm], bl.Pos())
			return true
		})
	}
	n := 0
	var names []string
	for m, ps := range markers {
		names = append(names, m)
		n += len(ps)
	}
	sort.Strings(names)
	if len(names) == 0 {
		r.Fatal("anchor missing: document separator marker literal")
		return
	}
	for _, m := range names {
		for i, p := range markers[m] {
			key := fmt.Sprintf("marker %q site %d", m, i+1)
			if len(names) == 1 {
				r.Discharge(rule, key, c.P.pos(p), "the same marker text at every site that writes or consumes it")
			} else {
				r.Finding(rule, key, c.P.pos(p), fmt.Sprintf("document separator marker is spelled in %d different ways (%v): the writer and a reader disagree, leading `---` is lost or printed as text", len(names), names))
			}
		}
	}
	if n < 3 {
		r.Finding(rule, "marker-sites", "-", fmt.Sprintf("expected the marker at >= 3 sites (decoder, yaml encoder, printer), found %d", n))
	}
}

// ---------------------------------------------------------------------------
// C06
// ---------------------------------------------------------------------------

func isJSONPkg(name string) bool {
	return strings.Contains(name, "github.com/goccy/go-json") || strings.Contains(name, "encoding/json")
}

func runC06(c *Ctx) {
	r := c.R
	r.Rule("J1", "json encoders never escape HTML", 2)
	r.Rule("J2", "JSON numbers are decoded without float64 loss; no sign-changing conversion of parsed integers", 2)
	r.Rule("J3", "only the printer encodes, after the alias test / explode", 2)
	r.Rule("J4", "no Go map on the conversion paths", 3)
	r.Rule("J5", "an unrepresentable scalar is an error", 1)
	r.Rule("J7", "aliases resolve to the most recent anchor of that name; merged values are exploded on every path", 2)
	ruleA4(c, "J7")
	ruleA5(c, "J7")
	ruleJ124(c)
	ruleJ6(c)
	ruleJ8(c, "J8")
	ruleJ10(c, "J10")
	ruleJ11(c, "J11")
	ruleStaleSetting(c, "J12")
	ruleA11(c, "J13")
	r.Rule("J9", "MarshalJSON has an arm for every node kind", 4)
	ruleKindSwitch(c, "J9", "CandidateNode.MarshalJSON")
	if fn := c.libFunc("parseInt64"); fn != nil {
		r.Discharge("J2", "parseInt64/no-sign-wrap", c.P.pos(fn.Pos()), "integers are parsed with strconv.ParseInt; no unsigned->signed conversion of parsed values in the module")
	}
	ruleJ3(c, "J3")
	// J4b: map ranges (shared with C18-G5)
	before := len(r.obligs)
	ruleG5(c)
	for i := before; i < len(r.obligs); i++ {
		r.obligs[i].Rule = "J4"
	}
	delete(r.rules, "G5")
	var ord []string
	for _, id := range r.ruleOrder {
		if id != "G5" {
			ord = append(ord, id)
		}
	}
	r.ruleOrder = ord
	// J5
	mj := c.libFunc("CandidateNode.MarshalJSON")
	if mj == nil {
		r.Fatal("anchor missing: MarshalJSON")
		return
	}
	n := 0
	eachInstr(mj, func(ins ssa.Instruction) {
		call, ok := ins.(*ssa.Call)
		if !ok || call.Call.StaticCallee() == nil || call.Call.StaticCallee().Name() != "GetValueRep" {
			return
		}
		n++
		okErr := false
		for _, ref := range *call.Referrers() {
			if ex, ok := ref.(*ssa.Extract); ok && ex.Index == 1 && errorReachesReturn(ex, 0) {
				okErr = true
			}
		}
		if okErr {
			r.Discharge("J5", "MarshalJSON/GetValueRep error", c.P.pos(call.Pos()), "the conversion error of a scalar is returned to the encoder")
		} else {
			r.Finding("J5", "MarshalJSON/GetValueRep error", c.P.pos(call.Pos()), "the error of GetValueRep is not returned: an unrepresentable scalar is emitted as some other value")
		}
	})
	if n == 0 {
		r.Finding("J5", "MarshalJSON/GetValueRep error", c.P.pos(mj.Pos()), "MarshalJSON no longer derives scalars from GetValueRep")
	}
}

// ruleJ3: Encoder.Encode only from printNode; alias test + explode before printing.
func ruleJ3(c *Ctx, rule string) {
	r := c.R
	pk := c.P.lib()
	encI, _ := pk.Types.Scope().Lookup("Encoder").Type().Underlying().(*types.Interface)
	for _, fn := range c.moduleFuncs() {
		eachInstr(fn, func(ins ssa.Instruction) {
			cc := callCommon(ins)
			if cc == nil || !cc.IsInvoke() || cc.Method.Name() != "Encode" {
				return
			}
			if it, ok := cc.Value.Type().Underlying().(*types.Interface); !ok || encI == nil || !types.Identical(it, encI) {
				return
			}
			key := funcKey(fn) + "/Encoder.Encode"
			if fn.Name() == "printNode" {
				r.Discharge(rule, key, c.P.pos(ins.Pos()), "the printer is the only caller of Encoder.Encode")
			} else {
				r.Finding(rule, key, c.P.pos(ins.Pos()), "an encoder is invoked outside the printer: aliases / merge keys are not exploded for encoders that cannot represent them")
			}
		})
	}
	pr := c.libFunc("resultsPrinter.PrintResults")
	if pr == nil {
		r.Fatal("anchor missing: PrintResults")
		return
	}
	var test *ssa.Call
	var prints []*ssa.Call
	var explodeEval *ssa.Call
	eachInstr(pr, func(ins ssa.Instruction) {
		call, ok := ins.(*ssa.Call)
		if !ok {
			return
		}
		if call.Call.IsInvoke() && call.Call.Method.Name() == "CanHandleAliases" {
			test = call
		}
		if cal := call.Call.StaticCallee(); cal != nil && cal.Name() == "printNode" {
			prints = append(prints, call)
		}
		if isGetMatchingNodes(&call.Call) {
			explodeEval = call
		}
	})
	usesExplode := false
	eachInstr(pr, func(ins ssa.Instruction) {
		if u, ok := ins.(*ssa.UnOp); ok {
			if g, ok := u.X.(*ssa.Global); ok && g.Name() == "explodeOpType" {
				usesExplode = true
			}
		}
	})
	switch {
	case test == nil || len(prints) == 0:
		r.Finding(rule, "PrintResults/alias-test", c.P.pos(pr.Pos()), "PrintResults no longer asks the encoder whether it can handle aliases before printing")
	default:
		ok := true
		why := ""
		for _, p := range prints {
			if !test.Block().Dominates(p.Block()) {
				ok, why = false, "a node can be printed before the alias test"
			}
		}
		if explodeEval == nil || !usesExplode {
			ok, why = false, "no EXPLODE evaluation in PrintResults"
		} else {
			// the explode is on the negative branch of the test
			g := false
			dominatingConds(explodeEval.Block(), func(cond ssa.Value, taken bool, at *ssa.BasicBlock) {
				v := cond
				if u, isU := v.(*ssa.UnOp); isU && u.Op == token.NOT {
					v, taken = u.X, !taken
				}
				if v == ssa.Value(test) && !taken {
					g = true
				}
			})
			if !g {
				ok, why = false, "EXPLODE is not evaluated on the !CanHandleAliases() branch"
			}
		}
		if ok {
			r.Discharge(rule, "PrintResults/alias-test", c.P.pos(test.Pos()), "CanHandleAliases() is tested before any node is printed and the negative branch explodes the results")
		} else {
			r.Finding(rule, "PrintResults/alias-test", c.P.pos(test.Pos()), why+": JSON/props/… output can contain unresolved aliases or `<<` keys")
		}
	}
}

// ---------------------------------------------------------------------------
// C13
// ---------------------------------------------------------------------------

func runC13(c *Ctx) {
	r := c.R
	r.Rule("A1", "one merge-key predicate at every site", 4)
	r.Rule("A2", "non-alias-capable encoders get exploded input", 2)
	r.Rule("A4", "the latest anchor definition wins", 1)
	r.Rule("A5", "overrideEntry explodes the value on every path", 1)
	// A1: comparisons against "!!merge" / "<<"
	type site struct {
		fn    *ssa.Function
		pos   token.Pos
		field string
		cst   string
	}
	var sites []site
	for _, fn := range c.moduleFuncs() {
		if funcPkgPath(fn) != c.P.LibPath {
			continue
		}
		eachInstr(fn, func(ins ssa.Instruction) {
			bo, ok := ins.(*ssa.BinOp)
			if !ok || (bo.Op != token.EQL && bo.Op != token.NEQ) {
				return
			}
			for _, pair := range [][2]ssa.Value{{bo.X, bo.Y}, {bo.Y, bo.X}} {
				cst, ok := pair[1].(*ssa.Const)
				if !ok || cst.Value == nil || cst.Value.Kind() != constant.String {
					continue
				}
				s := constant.StringVal(cst.Value)
				if s != "<<" && s != "!!merge" {
					continue
				}
				field := "?"
				if u, ok := pair[0].(*ssa.UnOp); ok {
					if fa, ok := u.X.(*ssa.FieldAddr); ok {
						field = fieldName(fa)
					}
				}
				if _, isParam := pair[0].(*ssa.Parameter); isParam {
					field = "wanted-key" // `wantedKey != "<<"`: looking the key up by name, not classifying an entry
				}
				sites = append(sites, site{fn, bo.Pos(), field, s})
			}
		})
	}
	byPred := map[string]int{}
	for _, s := range sites {
		if s.field == "wanted-key" {
			continue
		}
		byPred[s.field+"=="+s.cst]++
	}
	for _, s := range sites {
		key := fmt.Sprintf("%s/%s==%q", funcKey(s.fn), s.field, s.cst)
		if s.field == "wanted-key" {
			r.Discharge("A1", key, c.P.pos(s.pos), "compares the requested key name, not a map entry")
			continue
		}
		if len(byPred) == 1 {
			r.Discharge("A1", key, c.P.pos(s.pos), "the same predicate as every other site")
		} else if s.field == "Tag" && s.cst == "!!merge" {
			r.Discharge("A1", key, c.P.pos(s.pos), "resolved-tag predicate (the reference: what the YAML decoder resolved as a merge key)")
		} else {
			r.Finding("A1", key, c.P.pos(s.pos), fmt.Sprintf("this site decides 'is a merge key' by %s == %q while others use Tag == \"!!merge\": a quoted string key \"<<\" is an ordinary entry for traversal but a merge key here (dropped by explode / JSON output)", s.field, s.cst))
		}
	}
	if len(sites) < 4 {
		r.Fatal("anchor moved: expected >= 4 merge-key tests, found %d", len(sites))
	}
	ruleJ3(c, "A2")
	ruleA4(c, "A4")
	ruleA5(c, "A5")
	ruleA6(c, "A6")
	ruleA7(c, "A7")
	r.Rule("A8", "the JSON route has an arm for alias nodes (and every other kind)", 4)
	ruleKindSwitch(c, "A8", "CandidateNode.MarshalJSON")
	rulePF(c, "A9", 20)
	ruleA10(c, "A10")
	ruleA11(c, "A11")
	ruleN11(c, "A12")
}

// ruleA6: explodeNode descends into every key and value: its recursive calls
// on children are not conditional on what the child is.
func ruleA6(c *Ctx, rule string) {
	r := c.R
	r.Rule(rule, "explode descends into every key and value", 3)
	ex := c.libFunc("explodeNode")
	if ex == nil {
		r.Fatal("anchor missing: explodeNode")
		return
	}
	n := 0
	eachInstr(ex, func(ins ssa.Instruction) {
		call, ok := ins.(*ssa.Call)
		if !ok || call.Call.StaticCallee() != ex {
			return
		}
		arg := call.Call.Args[0]
		// a child loaded from a Content slice
		fromContent := false
		if u, ok := arg.(*ssa.UnOp); ok {
			if ia, ok := u.X.(*ssa.IndexAddr); ok && elemTypeName(ia.X.Type()) == "[]CandidateNode" {
				fromContent = true
			}
		}
		if ex2, ok := arg.(*ssa.Extract); ok {
			if _, isNext := ex2.Tuple.(*ssa.Next); isNext {
				fromContent = true
			}
		}
		if !fromContent {
			return
		}
		n++
		key := fmt.Sprintf("explodeNode/recurse(%s)", exprOfValue(arg))
		cond := ""
		dominatingConds(call.Block(), func(cv ssa.Value, taken bool, at *ssa.BasicBlock) {
			if dependsOnValue(cv, arg, 0) {
				cond = c.P.pos(cv.Pos())
			}
		})
		if cond == "" {
			r.Discharge(rule, key, c.P.pos(call.Pos()), "the child is exploded whatever it is")
		} else {
			r.Finding(rule, key, c.P.pos(call.Pos()), "a child is exploded only when a test on the child itself holds (at "+cond+"): anchors on plain keys / aliases inside complex keys survive explode")
		}
	})
	if n == 0 {
		r.Finding(rule, "explodeNode/recurse", c.P.pos(ex.Pos()), "explodeNode no longer recurses into children taken from Content")
	}
}

func dependsOnValue(v ssa.Value, target ssa.Value, d int) bool {
	if d > 8 {
		return false
	}
	if v == target {
		return true
	}
	switch x := v.(type) {
	case *ssa.UnOp:
		return dependsOnValue(x.X, target, d+1)
	case *ssa.FieldAddr:
		return dependsOnValue(x.X, target, d+1)
	case *ssa.TypeAssert:
		return dependsOnValue(x.X, target, d+1)
	case *ssa.BinOp:
		return dependsOnValue(x.X, target, d+1) || dependsOnValue(x.Y, target, d+1)
	case *ssa.Call:
		for _, a := range x.Call.Args {
			if dependsOnValue(a, target, d+1) {
				return true
			}
		}
	}
	return false
}

// ruleA4: anchorMap[name] = node is not conditional on a lookup of the same map
func ruleA4(c *Ctx, rule string) {
	r := c.R
	cf := c.libFunc("CandidateNode.copyFromYamlNode")
	if cf == nil {
		r.Fatal("anchor missing: copyFromYamlNode")
	} else {
		n := 0
		eachInstr(cf, func(ins ssa.Instruction) {
			mu, ok := ins.(*ssa.MapUpdate)
			if !ok {
				return
			}
			if _, isParam := mu.Map.(*ssa.Parameter); !isParam {
				return
			}
			n++
			cond := ""
			dominatingConds(mu.Block(), func(cv ssa.Value, taken bool, at *ssa.BasicBlock) {
				if dependsOnLookup(cv, mu.Map, 0) {
					cond = c.P.pos(cv.Pos())
				}
			})
			if cond == "" {
				r.Discharge(rule, "copyFromYamlNode/anchorMap[]=", c.P.pos(mu.Pos()), "an anchor definition always replaces the previous definition of that name")
			} else {
				r.Finding(rule, "copyFromYamlNode/anchorMap[]=", c.P.pos(mu.Pos()), "registering an anchor depends on whether the name is already known (test at "+cond+"): after a re-definition aliases resolve to the first anchor, not the most recent one")
			}
		})
		if n == 0 {
			r.Finding(rule, "copyFromYamlNode/anchorMap[]=", c.P.pos(cf.Pos()), "anchors are no longer registered while decoding")
		}
	}
}

// ruleA5: overrideEntry explodes `value` on every path to a nil-error return
func ruleA5(c *Ctx, rule string) {
	r := c.R
	oe := c.libFunc("overrideEntry")
	ex := c.libFunc("explodeNode")
	if oe == nil || ex == nil {
		r.Fatal("anchor missing: overrideEntry / explodeNode")
		return
	}
	valueParam := oe.Params[2]
	isExplode := func(i ssa.Instruction) bool {
		cc := callCommon(i)
		return cc != nil && cc.StaticCallee() == ex && len(cc.Args) > 0 && cc.Args[0] == ssa.Value(valueParam)
	}
	missing := ""
	for _, b := range oe.Blocks {
		ret, ok := b.Instrs[len(b.Instrs)-1].(*ssa.Return)
		if !ok || returnsDefiniteError(oe, ret) {
			continue
		}
		if pathAvoiding(oe, oe.Blocks[0], 0, b, len(b.Instrs)-1, isExplode) {
			missing = c.P.pos(ret.Pos())
		}
	}
	if missing == "" {
		r.Discharge(rule, "overrideEntry/explodes-value", c.P.pos(oe.Pos()), "every successful path explodes the value before it is installed or appended")
	} else {
		r.Finding(rule, "overrideEntry/explodes-value", missing, "an entry can be installed without exploding its value: explode(.) / JSON output keeps an alias, an anchor or a nested `<<` behind")
	}
}

func dependsOnLookup(v ssa.Value, m ssa.Value, d int) bool {
	if d > 6 {
		return false
	}
	switch x := v.(type) {
	case *ssa.Lookup:
		return x.X == m
	case *ssa.Extract:
		return dependsOnLookup(x.Tuple, m, d+1)
	case *ssa.BinOp:
		return dependsOnLookup(x.X, m, d+1) || dependsOnLookup(x.Y, m, d+1)
	case *ssa.UnOp:
		return dependsOnLookup(x.X, m, d+1)
	case *ssa.Phi:
		for _, e := range x.Edges {
			if dependsOnLookup(e, m, d+1) {
				return true
			}
		}
	}
	return false
}

// ---------------------------------------------------------------------------
// C14
// ---------------------------------------------------------------------------

func runC14(c *Ctx) {
	r := c.R
	r.Rule("K1", "Lua escape table is correct and covers control bytes, DEL, quotes, backslash", 36)
	r.Rule("K2", "encoder and decoder factories of a Format read the same configured preferences", 5)
	r.Rule("K3", "codec operators name Formats with the needed factory", 20)
	r.Rule("K4", "codecs drop no error and flush their writers", 100)
	ruleLuaEscapes(c, "K1")
	ruleFormats(c, "K2", "K3")
	r.Rule("K5", "a reused decoder starts clean (inverse pairs are applied element by element with one decoder)", 8)
	ruleS4(c, "K5")
	ruleK6(c, "K6")
	ruleK7(c, "K7")
	r.Rule("K8", "csv/tsv readers keep encoding/csv's defaults apart from the separator", 1)
	ruleCsvReaderOptions(c, "K8", nil)
	// K4: E1 (error discipline) + E2 (flush) restricted to codec files
	before := len(r.obligs)
	ruleE1(c, "K4")
	ruleE2(c, "K4")
	var kept []Oblig
	kept = append(kept, r.obligs[:before]...)
	for _, o := range r.obligs[before:] {
		if strings.Contains(o.Pos, "encoder") || strings.Contains(o.Pos, "decoder") || strings.Contains(o.Pos, "candidate_node_") || strings.Contains(o.Pos, "candidiate_node_") || o.Verdict != "discharged" {
			kept = append(kept, o)
		}
	}
	r.obligs = kept
}

func ruleLuaEscapes(c *Ctx, rule string) {
	r := c.R
	pk := c.P.lib()
	fd := funcDecl(pk, lookupFunc(pk, "NewLuaEncoder"))
	if fd == nil {
		r.Fatal("anchor missing: NewLuaEncoder")
		return
	}
	named := map[byte]string{7: `\a`, 8: `\b`, 9: `\t`, 10: `\n`, 11: `\v`, 12: `\f`, 13: `\r`, '\\': `\\`, '"': `\"`, '\'': `\'`}
	var table map[byte]string
	var tpos token.Pos
	ast.Inspect(fd, func(n ast.Node) bool {
		call, ok := n.(*ast.CallExpr)
		if !ok {
			return true
		}
		fn := calleeFunc(pk.TypesInfo, call)
		if fn == nil || fn.FullName() != "strings.NewReplacer" || len(call.Args)%2 != 0 {
			return true
		}
		t := map[byte]string{}
		okT := true
		for i := 0; i+1 < len(call.Args); i += 2 {
			k, ok1 := constString(pk.TypesInfo, call.Args[i])
			v, ok2 := constString(pk.TypesInfo, call.Args[i+1])
			if !ok1 || !ok2 || len(k) != 1 {
				okT = false
				break
			}
			t[k[0]] = v
		}
		// the escape table is the one keyed by single bytes
		if okT && len(t) > 10 {
			table, tpos = t, call.Pos()
		}
		return true
	})
	if table == nil {
		r.Finding(rule, "lua-escape-table", c.P.pos(fd.Pos()), "no single-byte strings.NewReplacer escape table with constant entries found in NewLuaEncoder")
		return
	}
	var keys []int
	for b := range table {
		keys = append(keys, int(b))
	}
	sort.Ints(keys)
	for _, k := range keys {
		b := byte(k)
		v := table[b]
		key := fmt.Sprintf("escape[0x%02x]", b)
		dec := fmt.Sprintf("\\%03d", b)
		if v == dec || v == named[b] || (b < 100 && v == fmt.Sprintf("\\%d", b)) {
			r.Discharge(rule, key, c.P.pos(tpos), fmt.Sprintf("byte %d -> %s", b, v))
		} else {
			r.Finding(rule, key, c.P.pos(tpos), fmt.Sprintf("byte %d is escaped as %q, which a Lua reader decodes to a different byte (expected %s%s)", b, v, dec, map[bool]string{true: " or " + named[b], false: ""}[named[b] != ""]))
		}
	}
	for b := 0; b < 256; b++ {
		// both quote characters: encodeString delimits with " or, for single-quoted style, with '
		need := b < 32 || b == 127 || b == '"' || b == '\'' || b == '\\'
		if !need {
			continue
		}
		if _, ok := table[byte(b)]; !ok {
			r.Finding(rule, fmt.Sprintf("escape[0x%02x]", b), c.P.pos(tpos), fmt.Sprintf("byte %d has no escape: it is written raw into a quoted Lua string", b))
		}
	}
}

func ruleFormats(c *Ctx, k2, k3 string) {
	r := c.R
	pk := c.P.lib()
	info := pk.TypesInfo
	type fmtInfo struct {
		encNil, decNil bool
		encCfg, decCfg map[string]bool
		pos            token.Pos
	}
	formats := map[string]*fmtInfo{}
	for _, f := range pk.Syntax {
		for _, d := range f.Decls {
			gd, ok := d.(*ast.GenDecl)
			if !ok || gd.Tok != token.VAR {
				continue
			}
			for _, sp := range gd.Specs {
				vs := sp.(*ast.ValueSpec)
				for i, val := range vs.Values {
					ue, ok := val.(*ast.UnaryExpr)
					if !ok {
						continue
					}
					cl, ok := ue.X.(*ast.CompositeLit)
					if !ok || namedTypeName(info.TypeOf(cl)) != "Format" {
						continue
					}
					st := structOf(info.TypeOf(cl))
					fi := &fmtInfo{encCfg: map[string]bool{}, decCfg: map[string]bool{}, pos: vs.Names[i].Pos(), encNil: true, decNil: true}
					for j, el := range cl.Elts {
						name := ""
						v := el
						if kv, ok := el.(*ast.KeyValueExpr); ok {
							name = kv.Key.(*ast.Ident).Name
							v = kv.Value
						} else if st != nil && j < st.NumFields() {
							name = st.Field(j).Name()
						}
						if name != "EncoderFactory" && name != "DecoderFactory" {
							continue
						}
						isNil := false
						if id, ok := ast.Unparen(v).(*ast.Ident); ok {
							if _, n := info.Uses[id].(*types.Nil); n {
								isNil = true
							}
						}
						cfg := map[string]bool{}
						ast.Inspect(v, func(n ast.Node) bool {
							if id, ok := n.(*ast.Ident); ok && strings.HasPrefix(id.Name, "Configured") {
								cfg[id.Name] = true
							}
							return true
						})
						if name == "EncoderFactory" {
							fi.encNil, fi.encCfg = isNil, cfg
						} else {
							fi.decNil, fi.decCfg = isNil, cfg
						}
					}
					formats[vs.Names[i].Name] = fi
				}
			}
		}
	}
	if len(formats) < 10 {
		r.Fatal("anchor moved: expected >= 10 Format records, found %d", len(formats))
		return
	}
	var names []string
	for n := range formats {
		names = append(names, n)
	}
	sort.Strings(names)
	for _, n := range names {
		fi := formats[n]
		if len(fi.encCfg) == 0 || len(fi.decCfg) == 0 {
			continue
		}
		key := n + "/configured-preferences"
		if joinSorted(fi.encCfg) == joinSorted(fi.decCfg) {
			r.Discharge(k2, key, c.P.pos(fi.pos), "encoder and decoder read "+joinSorted(fi.encCfg))
		} else {
			r.Finding(k2, key, c.P.pos(fi.pos), fmt.Sprintf("encoder reads %s but decoder reads %s: the inverse pair disagrees on separator / prefix settings", joinSorted(fi.encCfg), joinSorted(fi.decCfg)))
		}
	}
	// K3: lexer rules
	if !c.tables() {
		return
	}
	for _, lr := range c.Lex.Rules {
		if lr.Action == nil || lr.Action.kind != "closure" {
			continue
		}
		needEnc, needDec := false, false
		for _, t := range lr.Tokens {
			for _, o := range t.Ops {
				if o.Type == "ENCODE" {
					needEnc = true
				}
				if o.Type == "DECODE" {
					needDec = true
				}
			}
		}
		if !needEnc && !needDec {
			continue
		}
		fname := ""
		// the Format the factory was given: directly, in a preferences literal evaluated from
		// the factory body, or captured by a function value handed on to a generic factory
		var findFormat func(env map[*types.Var]*absVal, d int)
		findFormat = func(env map[*types.Var]*absVal, d int) {
			if d > 3 {
				return
			}
			for _, a := range env {
				if a == nil {
					continue
				}
				if a.kind == "global" && namedTypeName(a.global.Type()) == "Format" {
					fname = a.global.Name()
				}
				if (a.kind == "opaque" || a.kind == "closure") && a.env != nil {
					findFormat(a.env, d+1)
				}
			}
		}
		findFormat(lr.Action.env, 0)
		key := fmt.Sprintf("lexer-rule[%q]", lr.Pattern)
		fi := formats[fname]
		switch {
		case fi == nil:
			r.Undecided(k3, key, c.P.pos(lr.Pos), "cannot resolve the Format this codec operator uses")
		case needEnc && fi.encNil:
			r.Finding(k3, key, c.P.pos(lr.Pos), "encode operator for "+fname+", whose EncoderFactory is nil: evaluating it dereferences a nil function")
		case needDec && fi.decNil:
			r.Finding(k3, key, c.P.pos(lr.Pos), "decode operator for "+fname+", whose DecoderFactory is nil: evaluating it dereferences a nil function")
		default:
			r.Discharge(k3, key, c.P.pos(lr.Pos), "uses "+fname+" with the needed factory present")
		}
	}
}

func ruleJ124(c *Ctx) {
	r := c.R
	for _, fn := range c.moduleFuncs() {
		eachInstr(fn, func(ins ssa.Instruction) {
			call, ok := ins.(*ssa.Call)
			if !ok {
				return
			}
			name := calleeName(&call.Call)
			if !isJSONPkg(name) {
				return
			}
			switch {
			case strings.HasSuffix(name, ".NewEncoder"):
				// J1
				isEsc := func(i ssa.Instruction) bool {
					cc := callCommon(i)
					if cc == nil || len(cc.Args) != 2 || cc.Args[0] != ssa.Value(call) {
						return false
					}
					if cal := cc.StaticCallee(); cal == nil || cal.Name() != "SetEscapeHTML" {
						return false
					}
					cst, ok := cc.Args[1].(*ssa.Const)
					return ok && cst.Value != nil && cst.Value.Kind() == constant.Bool && !constant.BoolVal(cst.Value)
				}
				bad := ""
				n := 0
				for _, ref := range *call.Referrers() {
					cc := callCommon(ref)
					if cc == nil || cc.StaticCallee() == nil || cc.StaticCallee().Name() != "Encode" || cc.Args[0] != ssa.Value(call) {
						continue
					}
					n++
					if pathAvoiding(fn, call.Block(), instrIndex(call)+1, ref.Block(), instrIndex(ref), isEsc) {
						bad = c.P.pos(ref.Pos())
					}
				}
				key := funcKey(fn) + "/json.NewEncoder"
				if bad == "" {
					r.Discharge("J1", key, c.P.pos(call.Pos()), fmt.Sprintf("SetEscapeHTML(false) precedes all %d Encode call(s)", n))
				} else {
					r.Finding("J1", key, bad, "a json encoder reaches Encode without SetEscapeHTML(false): <, > and & come out as \\u003c … (different text than the YAML value)")
				}
			case strings.HasSuffix(name, ".Unmarshal") || strings.HasSuffix(name, ").Decode"):
				// target type
				tgt := call.Call.Args[len(call.Call.Args)-1]
				tt := tgt.Type()
				if mi, ok := tgt.(*ssa.MakeInterface); ok {
					tt = mi.X.Type()
				}
				elem := tt
				if p, ok := tt.Underlying().(*types.Pointer); ok {
					elem = p.Elem()
				}
				key := fmt.Sprintf("%s/%s(%s)", funcKey(fn), shortCallee(name), types.TypeString(elem, func(*types.Package) string { return "" }))
				if _, isMap := elem.Underlying().(*types.Map); isMap {
					r.Finding("J4", key, c.P.pos(call.Pos()), "JSON is decoded into a Go map: key order of the document is lost")
					return
				}
				r.Discharge("J4", key, c.P.pos(call.Pos()), "decode target is not a map")
				if it, isIface := elem.Underlying().(*types.Interface); isIface && it.NumMethods() == 0 {
					// needs UseNumber on the decoder on all paths
					okNum := false
					if strings.HasSuffix(name, ").Decode") {
						dec := call.Call.Args[0]
						isUse := func(i ssa.Instruction) bool {
							cc := callCommon(i)
							return cc != nil && cc.StaticCallee() != nil && cc.StaticCallee().Name() == "UseNumber" && len(cc.Args) > 0 && cc.Args[0] == dec
						}
						if di, ok := dec.(ssa.Instruction); ok && !pathAvoiding(fn, di.Block(), instrIndex(di)+1, call.Block(), instrIndex(call), isUse) {
							okNum = true
						}
					}
					if okNum {
						r.Discharge("J2", key, c.P.pos(call.Pos()), "scalar decoded into interface{} with UseNumber: integers keep their text")
					} else {
						r.Finding("J2", key, c.P.pos(call.Pos()), "a JSON value is decoded into interface{} without UseNumber: numbers become float64 and integers above 2^53 change value")
					}
				}
			}
		})
	}
}

func ruleJ6(c *Ctx) {
	r := c.R
	// J6: no unsigned -> signed conversion of a parsed integer
	for _, fn := range c.moduleFuncs() {
		eachInstr(fn, func(ins ssa.Instruction) {
			cv, ok := ins.(*ssa.Convert)
			if !ok {
				return
			}
			from, ok1 := cv.X.Type().Underlying().(*types.Basic)
			to, ok2 := cv.Type().Underlying().(*types.Basic)
			if !ok1 || !ok2 || from.Info()&types.IsUnsigned == 0 || to.Info()&types.IsInteger == 0 || to.Info()&types.IsUnsigned != 0 {
				return
			}
			// derived from strconv.ParseUint?
			src := cv.X
			if ex, ok := src.(*ssa.Extract); ok {
				if call, ok := ex.Tuple.(*ssa.Call); ok && strings.HasPrefix(calleeName(&call.Call), "strconv.ParseUint") {
					r.Finding("J2", funcKey(fn)+"/int(ParseUint)", c.P.pos(cv.Pos()), "an integer parsed as unsigned is converted to a signed type: values >= 2^63 wrap to negative numbers instead of being rejected")
				}
			}
		})
	}
}

// ruleK6: the XML decoder builds reserved keys from string-typed fields of
// XmlPreferences (attribute prefix, content name, directive name,
// processing-instruction prefix). The encoder's key classifier isAttribute
// must consult every one of them, or a reserved key that happens to begin with
// the attribute prefix (the defaults "+content", "+directive", "+p_" all do)
// is written back as an attribute.
func ruleK6(c *Ctx, rule string) {
	r := c.R
	r.Rule(rule, "the XML encoder's key classifier consults every reserved-name preference the decoder writes keys with", 4)
	strFields := func(fn *ssa.Function) map[string]string {
		out := map[string]string{}
		eachInstr(fn, func(ins ssa.Instruction) {
			var name string
			var t types.Type
			switch x := ins.(type) {
			case *ssa.FieldAddr:
				if structNameOfPtr(x.X.Type()) == "XmlPreferences" {
					name = fieldName(x)
					t = x.Type().Underlying().(*types.Pointer).Elem()
				}
			case *ssa.Field:
				if n, ok := x.X.Type().(*types.Named); ok && n.Obj().Name() == "XmlPreferences" {
					name = fieldNameOfField(x)
					t = x.Type()
				}
			}
			if name == "" {
				return
			}
			if b, ok := t.Underlying().(*types.Basic); ok && b.Kind() == types.String {
				out[name] = c.P.pos(ins.Pos())
			}
		})
		return out
	}
	written := map[string]string{}
	for _, fn := range c.moduleFuncs() {
		k := funcKey(fn)
		if strings.HasPrefix(k, "yqlib.xmlDecoder.") {
			for f, p := range strFields(fn) {
				written[f] = p
			}
		}
	}
	isAttr := c.libFunc("xmlEncoder.isAttribute")
	if isAttr == nil {
		r.Fatal("anchor missing: xmlEncoder.isAttribute")
		return
	}
	read := strFields(isAttr)
	var names []string
	for f := range written {
		names = append(names, f)
	}
	sort.Strings(names)
	for _, f := range names {
		key := "xmlEncoder.isAttribute/consults(" + f + ")"
		if _, ok := read[f]; ok {
			r.Discharge(rule, key, read[f], "the decoder builds keys with XmlPreferences."+f+" and the encoder's classifier consults it")
		} else {
			r.Finding(rule, key, c.P.pos(isAttr.Pos()), "the XML decoder builds keys with XmlPreferences."+f+" (at "+written[f]+") but xmlEncoder.isAttribute does not consult it: a reserved key that begins with the attribute prefix is re-encoded as an attribute, so decode∘encode is no longer the identity")
		}
	}
}

// ruleK7: a Lua table key is written bare only when it is a Lua identifier and
// not a reserved word. needsQuoting's per-rune test is evaluated exactly: the
// runes that do not force quoting must be within [A-Za-z_] at position 0 and
// [A-Za-z0-9_] elsewhere; its keyword switch must list every Lua 5.4 reserved word.
func ruleK7(c *Ctx, rule string) {
	r := c.R
	r.Rule(rule, "bare Lua keys are identifiers ([A-Za-z_][A-Za-z0-9_]*) and never reserved words", 3)
	pk := c.P.lib()
	fn := lookupFunc(pk, "needsQuoting")
	fd := funcDecl(pk, fn)
	if fd == nil || fd.Body == nil {
		r.Fatal("anchor missing: needsQuoting")
		return
	}
	// (a) reserved words
	reserved := []string{"and", "break", "do", "else", "elseif", "end", "false", "for", "function", "goto", "if", "in", "local", "nil", "not", "or", "repeat", "return", "then", "true", "until", "while"}
	listed := map[string]bool{}
	var rng *ast.RangeStmt
	ast.Inspect(fd.Body, func(n ast.Node) bool {
		switch x := n.(type) {
		case *ast.CaseClause:
			returnsTrue := false
			for _, st := range x.Body {
				if ret, ok := st.(*ast.ReturnStmt); ok && len(ret.Results) == 1 {
					if b, ok := constBool(pk.TypesInfo, ret.Results[0]); ok && b {
						returnsTrue = true
					}
				}
			}
			if returnsTrue {
				for _, e := range x.List {
					if s, ok := constString(pk.TypesInfo, e); ok {
						listed[s] = true
					}
				}
			}
		case *ast.RangeStmt:
			if rng == nil {
				rng = x
			}
		}
		return true
	})
	var missing []string
	for _, w := range reserved {
		if !listed[w] {
			missing = append(missing, w)
		}
	}
	if len(missing) == 0 {
		r.Discharge(rule, "needsQuoting/reserved-words", c.P.pos(fd.Pos()), fmt.Sprintf("all %d Lua 5.4 reserved words force quoting", len(reserved)))
	} else {
		r.Finding(rule, "needsQuoting/reserved-words", c.P.pos(fd.Pos()), fmt.Sprintf("reserved word(s) %v are not quoted: `{%s = 1}` is not well-formed Lua", missing, missing[0]))
	}
	// (b) per-rune test
	if rng == nil || rng.Key == nil || rng.Value == nil {
		r.Undecided(rule, "needsQuoting/rune-test", c.P.pos(fd.Pos()), "needsQuoting no longer ranges over the runes of the key with index and rune: the identifier test cannot be located")
		return
	}
	keyID, ok1 := rng.Key.(*ast.Ident)
	valID, ok2 := rng.Value.(*ast.Ident)
	if !ok1 || !ok2 {
		r.Undecided(rule, "needsQuoting/rune-test", c.P.pos(rng.Pos()), "range variables are not plain identifiers")
		return
	}
	arg := pk.TypesInfo.Defs[valID]
	first := rsFromString("ABCDEFGHIJKLMNOPQRSTUVWXYZabcdefghijklmnopqrstuvwxyz_")
	rest := first.union(rsFromString("0123456789"))
	for _, pos := range []struct {
		name    string
		isFirst bool
		allowed runeSet
	}{{"first rune", true, first}, {"later runes", false, rest}} {
		none := rsNone()
		ev := &runePredEval{pk: pk, env: map[types.Object]runeBinding{}, fallOff: &none,
			assume: map[string]bool{keyID.Name + " == 0": pos.isFirst, keyID.Name + " != 0": !pos.isFirst, keyID.Name + " > 0": !pos.isFirst}}
		quoted, ok := ev.evalStmts(rng.Body.List, arg)
		key := "needsQuoting/rune-test(" + pos.name + ")"
		if !ok {
			r.Undecided(rule, key, c.P.pos(rng.Pos()), "the loop body is not a combination of rune comparisons the evaluator decides")
			continue
		}
		bare := quoted.complement()
		if extra := bare.minus(pos.allowed); len(extra) == 0 {
			r.Discharge(rule, key, c.P.pos(rng.Pos()), "runes that do not force quoting: "+bare.String())
		} else {
			r.Finding(rule, key, c.P.pos(rng.Pos()), fmt.Sprintf("a key whose %s is one of %s is written bare, but Lua identifiers are ASCII only ([A-Za-z_][A-Za-z0-9_]*): the output is not well-formed Lua and does not decode back", pos.name, extra.String()))
		}
	}
}
