package main

import (
	"fmt"
	"go/constant"
	"go/token"
	"go/types"
	"strings"

	"golang.org/x/tools/go/ssa"
)

func (c *Ctx) libFunc(name string) *ssa.Function {
	c.P.buildSSA()
	fn := lookupFunc(c.P.lib(), name)
	if fn == nil {
		return nil
	}
	return c.P.SSA.FuncValue(fn)
}

// implicitOps: operation types that token post-processing / postfix
// conversion put into `Operation{OperationType: X}` themselves.
func implicitOps(c *Ctx) map[*OpType]bool {
	return implicitOpsOf(c, "handleToken", "expressionPostFixerImpl.ConvertToPostfix")
}

// implicitOpSites: the same per store, with its position.
type implicitSite struct {
	op  *OpType
	pos token.Pos
}

func implicitOpSites(c *Ctx, name string) []implicitSite {
	var out []implicitSite
	fn := c.libFunc(name)
	if fn == nil {
		return nil
	}
	eachInstr(fn, func(ins ssa.Instruction) {
		st, ok := ins.(*ssa.Store)
		if !ok {
			return
		}
		fa, ok := st.Addr.(*ssa.FieldAddr)
		if !ok || fieldName(fa) != "OperationType" {
			return
		}
		o, _ := resolveOpTypeValue(c.P, c.Ops, st.Val, nil, nil, map[ssa.Value]bool{})
		for _, x := range o {
			out = append(out, implicitSite{x, st.Pos()})
		}
	})
	return out
}

func implicitOpsOf(c *Ctx, names ...string) map[*OpType]bool {
	out := map[*OpType]bool{}
	for _, name := range names {
		fn := c.libFunc(name)
		if fn == nil {
			c.R.Fatal("anchor missing: function %s", name)
			continue
		}
		for _, b := range fn.Blocks {
			for _, ins := range b.Instrs {
				st, ok := ins.(*ssa.Store)
				if !ok {
					continue
				}
				fa, ok := st.Addr.(*ssa.FieldAddr)
				if !ok || fieldName(fa) != "OperationType" {
					continue
				}
				o, _ := resolveOpTypeValue(c.P, c.Ops, st.Val, nil, nil, map[ssa.Value]bool{})
				for _, x := range o {
					out[x] = true
				}
			}
		}
	}
	return out
}

// isPrecedenceLoad: v is a load of the Precedence field of an operationType.
func isPrecedenceLoad(v ssa.Value) bool {
	u, ok := v.(*ssa.UnOp)
	if !ok || u.Op != token.MUL {
		return false
	}
	fa, ok := u.X.(*ssa.FieldAddr)
	return ok && fieldName(fa) == "Precedence"
}

// fromIndexedStack: the precedence is read from an element of a slice
// (the operator stack) rather than from the loop variable.
func fromIndexedStack(v ssa.Value, depth int) bool {
	if depth > 8 {
		return false
	}
	switch x := v.(type) {
	case *ssa.UnOp:
		return fromIndexedStack(x.X, depth+1)
	case *ssa.FieldAddr:
		return fromIndexedStack(x.X, depth+1)
	case *ssa.IndexAddr:
		// the operator stack is read at its top: index len(X)-1
		_, k, ok := lenMinus(x.Index)
		return ok && k == 1
	}
	return false
}

func checkT0(c *Ctx) {
	r := c.R
	fn := c.libFunc("expressionPostFixerImpl.ConvertToPostfix")
	if fn == nil {
		r.Fatal("anchor missing: (*expressionPostFixerImpl).ConvertToPostfix")
		return
	}
	n := 0
	for _, b := range fn.Blocks {
		for _, ins := range b.Instrs {
			bo, ok := ins.(*ssa.BinOp)
			if !ok {
				continue
			}
			// the comparison may be against a local copy of the current precedence
			lx, ly := isPrecedenceLoad(bo.X), isPrecedenceLoad(bo.Y)
			if !lx && !ly {
				continue
			}
			n++
			stackLeft := fromIndexedStack(bo.X, 0)
			stackRight := fromIndexedStack(bo.Y, 0)
			key := "ConvertToPostfix/precedence-comparison"
			strict := (bo.Op == token.GTR && stackLeft && !stackRight) || (bo.Op == token.LSS && stackRight && !stackLeft)
			if strict {
				r.Discharge("T0", key, c.P.pos(bo.Pos()), "pops while stack-top precedence is strictly greater than the current token's (equal precedence groups to the right); T1–T3 are stated for this discipline")
			} else {
				r.Finding("T0", key, c.P.pos(bo.Pos()), fmt.Sprintf("pop condition is `%s`, not `stackTop.Precedence > current.Precedence`: grouping of equal-precedence chains changes (`a - b - c`, `f(x)[k]`)", bo.Op))
			}
		}
	}
	if n == 0 {
		r.Fatal("anchor moved: no precedence comparison found in ConvertToPostfix")
	}
}

// checkT6: rejection guards.
func checkT6(c *Ctx) {
	r := c.R
	post := c.libFunc("expressionPostFixerImpl.ConvertToPostfix")
	tree := c.libFunc("expressionParserImpl.createExpressionTree")
	pop := c.libFunc("popOpToResult")
	if post == nil || tree == nil {
		r.Fatal("anchor missing: ConvertToPostfix / createExpressionTree")
		return
	}
	// (a) every stack access is guarded
	// Match of a closeCollect token is the non-empty lexeme of the lexer rule
	// (closeCollect tokens are built only by the lexer; checked by T5: no rule
	// is nullable), so `Match[len(Match)-1:]` is in range.
	exceptions := map[string]string{
		".Match:slice-low len-1": "Match of a closeCollect token is the non-empty lexeme of its lexer rule (T5: no rule is nullable)",
	}
	for _, fn := range []*ssa.Function{post, tree} {
		for _, s := range indexSites(fn) {
			key := fmt.Sprintf("%s/%s:%s", fn.Name(), exprOfValue(s.Base), s.Desc)
			if s.Proven {
				r.Discharge("T6", key, c.P.pos(s.Pos), fmt.Sprintf("dominating conditions give len ∈ %s ⊆ [%d,∞)", s.Fact, s.Need))
			} else if why, ok := exceptionFor(exceptions, key); ok {
				r.Discharge("T6", key, c.P.pos(s.Pos), "invariant: "+why)
			} else {
				r.Finding("T6", key, c.P.pos(s.Pos), fmt.Sprintf("stack access needs len ≥ %d but dominating conditions only give len ∈ %s: malformed input reaches an out-of-range access instead of an error", s.Need, s.Fact))
			}
		}
	}
	// popOpToResult indexes its parameter unguarded: each call site must establish len>=1
	if pop != nil {
		needs := false
		for _, s := range indexSites(pop) {
			if _, ok := s.Base.(*ssa.Parameter); ok && !s.Proven {
				needs = true
			}
		}
		if needs {
			for _, b := range post.Blocks {
				for _, ins := range b.Instrs {
					call, ok := ins.(*ssa.Call)
					if !ok || call.Call.StaticCallee() != pop {
						continue
					}
					base := call.Call.Args[0]
					fact := domFacts(b, base)
					key := fmt.Sprintf("ConvertToPostfix/popOpToResult(%s)", exprOfValue(base))
					if fact&^lenGE(1) == 0 {
						r.Discharge("T6", key, c.P.pos(call.Pos()), fmt.Sprintf("callee indexes opStack[len-1]; call site has len ∈ %s", fact))
					} else {
						r.Finding("T6", key, c.P.pos(call.Pos()), fmt.Sprintf("callee indexes opStack[len-1] but the call site only knows len ∈ %s", fact))
					}
				}
			}
		}
	}
	// (b) success exits: ConvertToPostfix returns (result, nil) only with an
	// empty operator stack; createExpressionTree returns (node, nil) only
	// with exactly one node on the stack (or for the empty program).
	successExit := func(fn *ssa.Function, stackHint string, want lenSet, what string) {
		found := 0
		for _, b := range fn.Blocks {
			ret, ok := b.Instrs[len(b.Instrs)-1].(*ssa.Return)
			if !ok || len(ret.Results) != 2 {
				continue
			}
			if cst, ok := ret.Results[1].(*ssa.Const); !ok || !cst.IsNil() {
				continue // error exit
			}
			if cst, ok := ret.Results[0].(*ssa.Const); ok && cst.IsNil() {
				continue // (nil, nil): empty program
			}
			found++
			// candidates: every len-tested base in dominating conditions
			best := lenAll
			bestName := ""
			for d := b; d != nil; d = d.Idom() {
				if ifi, ok := d.Instrs[len(d.Instrs)-1].(*ssa.If); ok {
					if x, _, ok := condLen(ifi.Cond); ok {
						f := domFacts(b, x)
						if f != lenAll && (bestName == "" || f&^want == 0) {
							best, bestName = f, exprOfValue(x)
						}
					}
				}
			}
			key := fmt.Sprintf("%s/success-return", fn.Name())
			if bestName != "" && best&^want == 0 {
				r.Discharge("T6", key, c.P.pos(ret.Pos()), fmt.Sprintf("success exit only with len(%s) ∈ %s (%s)", bestName, best, what))
			} else {
				r.Finding("T6", key, c.P.pos(ret.Pos()), fmt.Sprintf("success exit reachable with len(%s) ∈ %s; required: %s (%s) — malformed expressions are accepted", stackHint, best, want, what))
			}
		}
		if found == 0 {
			r.Fatal("anchor moved: no success return found in %s", fn.Name())
		}
	}
	checkT6e(c)
	successExit(post, "opStack", lenEQ(0), "no unmatched opener left on the operator stack")
	successExit(tree, "stack", lenEQ(1), "postfix program reduces to exactly one tree")

	// (c) arity: in createExpressionTree the branch taken for NumArgs==k pops k
	// operands — covered by (a): stack[len-k] must be guarded by len>=k.
	// (d) open-token validation inside the closing loops
	val := c.libFunc("validateNoOpenTokens")
	if val == nil {
		r.Fatal("anchor missing: validateNoOpenTokens")
		return
	}
	nval := 0
	for _, b := range post.Blocks {
		for _, ins := range b.Instrs {
			call, ok := ins.(*ssa.Call)
			if !ok || call.Call.StaticCallee() != val {
				continue
			}
			nval++
			key := "ConvertToPostfix/validateNoOpenTokens"
			if errorReachesReturn(call, 0) {
				r.Discharge("T6", key, c.P.pos(call.Pos()), "mismatched opener found while closing is returned as an error")
			} else {
				r.Finding("T6", key, c.P.pos(call.Pos()), "result of validateNoOpenTokens does not reach a return: `(1]` style mismatches are accepted")
			}
		}
	}
	// every loop that pops until an opener must validate what it pops
	for _, b := range post.Blocks {
		for _, ins := range b.Instrs {
			call, ok := ins.(*ssa.Call)
			if !ok || pop == nil || call.Call.StaticCallee() != pop {
				continue
			}
			if !inOpenerSearchLoop(b) {
				continue
			}
			key := "ConvertToPostfix/pop-in-closing-loop"
			okv := false
			for _, b2 := range post.Blocks {
				for _, i2 := range b2.Instrs {
					if c2, ok := i2.(*ssa.Call); ok && c2.Call.StaticCallee() == val && b2.Dominates(b) {
						okv = true
					}
				}
			}
			if okv {
				r.Discharge("T6", key, c.P.pos(call.Pos()), "pop while searching for the opener is dominated by validateNoOpenTokens")
			} else {
				r.Finding("T6", key, c.P.pos(call.Pos()), "operators are popped while searching for the matching opener without checking for a different opener: `[ ( ]` is accepted")
			}
		}
	}
	_ = nval
}

// inOpenerSearchLoop: block is inside a loop whose condition compares a
// TokenType field with != (searching for the matching opener).
func inOpenerSearchLoop(b *ssa.BasicBlock) bool {
	for d := b.Idom(); d != nil; d = d.Idom() {
		ifi, ok := d.Instrs[len(d.Instrs)-1].(*ssa.If)
		if !ok {
			continue
		}
		bo, ok := ifi.Cond.(*ssa.BinOp)
		if !ok || bo.Op != token.NEQ {
			continue
		}
		if u, ok := bo.X.(*ssa.UnOp); ok {
			if fa, ok := u.X.(*ssa.FieldAddr); ok && fieldName(fa) == "TokenType" && fromIndexedStack(fa, 0) {
				// is b in the true-successor region and can it flow back to d?
				if len(d.Succs) == 2 && d.Succs[0].Dominates(b) && reaches(b, d) {
					return true
				}
			}
		}
	}
	return false
}

func reaches(from, to *ssa.BasicBlock) bool {
	seen := map[*ssa.BasicBlock]bool{}
	var walk func(b *ssa.BasicBlock) bool
	walk = func(b *ssa.BasicBlock) bool {
		if b == to {
			return true
		}
		if seen[b] {
			return false
		}
		seen[b] = true
		for _, s := range b.Succs {
			if walk(s) {
				return true
			}
		}
		return false
	}
	for _, s := range from.Succs {
		if walk(s) {
			return true
		}
	}
	return false
}

// errorReachesReturn: the (error) value v flows to a Return operand, possibly
// through phis, extracts, and local cells.
func errorReachesReturn(v ssa.Value, depth int) bool {
	if depth > 6 || v.Referrers() == nil {
		return false
	}
	for _, ref := range *v.Referrers() {
		switch x := ref.(type) {
		case *ssa.Return:
			return true
		case *ssa.Phi:
			if errorReachesReturn(x, depth+1) {
				return true
			}
		case *ssa.Extract:
			if errorReachesReturn(x, depth+1) {
				return true
			}
		case *ssa.Store:
			if x.Val == v {
				if al, ok := x.Addr.(*ssa.Alloc); ok {
					for _, r2 := range *al.Referrers() {
						if u, ok := r2.(*ssa.UnOp); ok && errorReachesReturn(u, depth+1) {
							return true
						}
					}
				}
			}
		case *ssa.MakeInterface:
			if errorReachesReturn(x, depth+1) {
				return true
			}
		case *ssa.ChangeInterface:
			if errorReachesReturn(x, depth+1) {
				return true
			}
		}
	}
	return false
}

var _ = types.Typ

func exceptionFor(ex map[string]string, key string) (string, bool) {
	for suffix, why := range ex {
		if len(key) >= len(suffix) && key[len(key)-len(suffix):] == suffix {
			return why, true
		}
	}
	return "", false
}

// checkT6e: the implicit EMPTY operand is inserted only between the two
// brackets of an empty collection (`[]`, `{}`): every token-type comparison
// that leads to the insertion names a collect bracket. An empty `()` must stay
// an operand-less group so that the arity checks reject it.
func checkT6e(c *Ctx) {
	r := c.R
	fn := c.libFunc("handleToken")
	if fn == nil {
		r.Fatal("anchor missing: handleToken")
		return
	}
	allowed := map[string]bool{"openCollect": true, "closeCollect": true, "openCollectObject": true, "closeCollectObject": true}
	var target *ssa.BasicBlock
	var pos token.Pos
	eachInstr(fn, func(ins ssa.Instruction) {
		st, ok := ins.(*ssa.Store)
		if !ok {
			return
		}
		fa, ok := st.Addr.(*ssa.FieldAddr)
		if !ok || fieldName(fa) != "OperationType" {
			return
		}
		if u, ok := st.Val.(*ssa.UnOp); ok {
			if g, ok := u.X.(*ssa.Global); ok && g.Name() == "emptyOpType" {
				target, pos = st.Block(), st.Pos()
			}
		}
	})
	if target == nil {
		r.Fatal("anchor moved: handleToken no longer inserts the EMPTY operation")
		return
	}
	dom := target.Idom()
	var bad []string
	n := 0
	for _, b := range fn.Blocks {
		if b == target || dom == nil || !(dom.Dominates(b)) || !(b == dom || reaches(b, target)) || (b != dom && reaches(target, b)) {
			continue
		}
		ifi, ok := b.Instrs[len(b.Instrs)-1].(*ssa.If)
		if !ok {
			continue
		}
		bo, ok := ifi.Cond.(*ssa.BinOp)
		if !ok {
			continue
		}
		// x.TokenType == K   or   x.TokenType & MASK != 0
		var k ssa.Value
		isTT := func(v ssa.Value) bool {
			u, ok := v.(*ssa.UnOp)
			if !ok {
				return false
			}
			fa, ok := u.X.(*ssa.FieldAddr)
			return ok && fieldName(fa) == "TokenType"
		}
		mask := false
		switch {
		case isTT(bo.X):
			k = bo.Y
		case isTT(bo.Y):
			k = bo.X
		default:
			if inner, ok := bo.X.(*ssa.BinOp); ok && inner.Op == token.AND && (isTT(inner.X) || isTT(inner.Y)) {
				mask = true
				k = inner.Y
				if isTT(inner.Y) {
					k = inner.X
				}
			}
		}
		if k == nil {
			continue
		}
		kv, ok := constInt64(k)
		if !ok {
			continue
		}
		n++
		if mask {
			for bit := int64(1); bit <= kv; bit <<= 1 {
				if kv&bit != 0 {
					name := tokenKindByValue(c, bit)
					if !allowed[name] {
						bad = append(bad, name)
					}
				}
			}
		} else if name := tokenKindByValue(c, kv); !allowed[name] {
			bad = append(bad, name)
		}
	}
	key := "handleToken/EMPTY-insertion"
	switch {
	case n == 0:
		r.Finding("T6", key, c.P.pos(pos), "the implicit EMPTY operand is inserted without testing the bracket kinds: `()` and operators with a missing operand are accepted")
	case len(bad) > 0:
		r.Finding("T6", key, c.P.pos(pos), fmt.Sprintf("the implicit EMPTY operand is also inserted for token kind(s) %v: an empty `()` becomes a valid operand, so `.a + ()` or `select()` are evaluated instead of rejected", uniq(bad)))
	default:
		r.Discharge("T6", key, c.P.pos(pos), fmt.Sprintf("EMPTY is inserted only between the brackets of an empty collection (%d token-type tests, all on collect brackets)", n))
	}
}

func tokenKindByValue(c *Ctx, v int64) string {
	sc := c.P.lib().Types.Scope()
	for _, n := range sc.Names() {
		if cst, ok := sc.Lookup(n).(*types.Const); ok && (strings.HasPrefix(n, "open") || strings.HasPrefix(n, "close") || n == "operationToken" || n == "traverseArrayCollect") {
			if x, ok := constant.Int64Val(constant.ToInt(cst.Val())); ok && x == v {
				return n
			}
		}
	}
	return fmt.Sprintf("tokenType(%d)", v)
}
