package main

import (
	"fmt"
	"go/constant"
	"go/token"
	"go/types"
	"sort"
	"strings"

	"golang.org/x/tools/go/ssa"
)

// ---- U7 (C02/C04/C07): a kind change drops the old children on every path ------------

// ruleU7: in UpdateAttributesFrom, once `n.Kind != other.Kind` holds, the
// store of the new Kind is reached only after n.Content was reset. An extra
// condition on the way ("…and the new kind is not a sequence") leaves the old
// entries of a map inside the sequence that replaces it.
func ruleU7(c *Ctx, rule string) {
	r := c.R
	fn := c.libFunc("CandidateNode.UpdateAttributesFrom")
	if fn == nil {
		r.Fatal("anchor missing: UpdateAttributesFrom")
		return
	}
	n, other := fn.Params[0], fn.Params[1]
	kindOf := func(v ssa.Value, base ssa.Value) bool {
		u, ok := v.(*ssa.UnOp)
		if !ok {
			return false
		}
		fa, ok := u.X.(*ssa.FieldAddr)
		return ok && fa.X == base && fieldName(fa) == "Kind"
	}
	var test *ssa.If
	var differSucc *ssa.BasicBlock
	for _, b := range fn.Blocks {
		ifi, ok := b.Instrs[len(b.Instrs)-1].(*ssa.If)
		if !ok {
			continue
		}
		bo, ok := ifi.Cond.(*ssa.BinOp)
		if !ok || !((kindOf(bo.X, n) && kindOf(bo.Y, other)) || (kindOf(bo.X, other) && kindOf(bo.Y, n))) {
			continue
		}
		switch bo.Op {
		case token.NEQ:
			test, differSucc = ifi, b.Succs[0]
		case token.EQL:
			test, differSucc = ifi, b.Succs[1]
		}
	}
	key := "UpdateAttributesFrom/kind-change-clears-content"
	if test == nil {
		r.Undecided(rule, key, c.P.pos(fn.Pos()), "UpdateAttributesFrom no longer tests `n.Kind != other.Kind`: the children of the old kind are never dropped (or the anchor of this rule moved)")
		return
	}
	// the store n.Kind = other.Kind
	var kindStore *ssa.Store
	eachInstr(fn, func(ins ssa.Instruction) {
		if st, ok := ins.(*ssa.Store); ok {
			if fa, ok := st.Addr.(*ssa.FieldAddr); ok && fa.X == ssa.Value(n) && fieldName(fa) == "Kind" {
				kindStore = st
			}
		}
	})
	if kindStore == nil {
		r.Fatal("anchor moved: UpdateAttributesFrom does not store n.Kind")
		return
	}
	clears := func(ins ssa.Instruction) bool {
		st, ok := ins.(*ssa.Store)
		return ok && contentAddrBase(st.Addr) == ssa.Value(n)
	}
	ki := 0
	for i, ins := range kindStore.Block().Instrs {
		if ins == ssa.Instruction(kindStore) {
			ki = i
		}
	}
	if pathAvoiding(fn, differSucc, 0, kindStore.Block(), ki, clears) {
		r.Finding(rule, key, c.P.pos(test.Cond.Pos()), "with n.Kind != other.Kind the new Kind can be stored without n.Content having been reset: a map that becomes a sequence (or the reverse) keeps its old entries among the new ones")
	} else {
		r.Discharge(rule, key, c.P.pos(test.Cond.Pos()), "every path from `kinds differ` to the Kind store resets n.Content")
	}
}

// ---- M8 (C04): the `n` flag still writes new entries ---------------------------------

// ruleM8: in assignAttributesOperator the call of UpdateAttributesFrom is not
// confined to `!prefs.OnlyWriteNull`: with the flag set it must still run for
// targets that are new (null). A call dominated by the flag being false turns
// "only new fields" into "no fields".
func ruleM8(c *Ctx, rule string) {
	r := c.R
	fn := c.libFunc("assignAttributesOperator")
	if fn == nil {
		r.Fatal("anchor missing: assignAttributesOperator")
		return
	}
	n := 0
	eachInstr(fn, func(ins ssa.Instruction) {
		call, ok := ins.(*ssa.Call)
		if !ok || call.Call.StaticCallee() == nil || call.Call.StaticCallee().Name() != "UpdateAttributesFrom" {
			return
		}
		n++
		key := fmt.Sprintf("assignAttributesOperator/UpdateAttributesFrom#%d", n)
		confined := ""
		dominatingConds(call.Block(), func(cond ssa.Value, taken bool, at *ssa.BasicBlock) {
			v := cond
			neg := false
			if u, ok := v.(*ssa.UnOp); ok && u.Op == token.NOT {
				v, neg = u.X, true
			}
			isFlag := false
			switch x := v.(type) {
			case *ssa.UnOp:
				if fa, ok := x.X.(*ssa.FieldAddr); ok && fieldName(fa) == "OnlyWriteNull" {
					isFlag = true
				}
			case *ssa.Field:
				if fieldNameOfField(x) == "OnlyWriteNull" {
					isFlag = true
				}
			}
			if isFlag && (taken == neg) { // the flag is known false here
				confined = c.P.pos(cond.Pos())
			}
		})
		if confined == "" {
			r.Discharge(rule, key, c.P.pos(call.Pos()), "reachable with OnlyWriteNull set (for null targets) as well as without it")
		} else {
			r.Finding(rule, key, c.P.pos(call.Pos()), "the attribute update runs only when OnlyWriteNull is false (test at "+confined+"): with the `n` merge flag a key that is new on the left never receives the right-hand value's kind/tag/style (an empty map arrives as null)")
		}
	})
	if n == 0 {
		r.Fatal("anchor moved: assignAttributesOperator does not call UpdateAttributesFrom")
	}
}

// ---- A7 (C13): a merged mapping is read through doTraverseMap ------------------------

// ruleA7: in traverseMergeAnchor, once the alias is known to point at a
// mapping, the only successful way out is the result of doTraverseMap on that
// mapping — the function that also follows a merge key inside the merged map.
func ruleA7(c *Ctx, rule string) {
	r := c.R
	r.Rule(rule, "a merged mapping is traversed by doTraverseMap (nested merge keys are followed)", 1)
	fn := c.libFunc("traverseMergeAnchor")
	if fn == nil {
		r.Fatal("anchor missing: traverseMergeAnchor")
		return
	}
	// the branch where value.Alias.Kind == MappingNode
	var region *ssa.BasicBlock
	for _, b := range fn.Blocks {
		ifi, ok := b.Instrs[len(b.Instrs)-1].(*ssa.If)
		if !ok {
			continue
		}
		bo, ok := ifi.Cond.(*ssa.BinOp)
		if !ok {
			continue
		}
		isAliasKind := func(v ssa.Value) bool {
			u, ok := v.(*ssa.UnOp)
			if !ok {
				return false
			}
			fa, ok := u.X.(*ssa.FieldAddr)
			if !ok || fieldName(fa) != "Kind" {
				return false
			}
			u2, ok := fa.X.(*ssa.UnOp)
			if !ok {
				return false
			}
			fa2, ok := u2.X.(*ssa.FieldAddr)
			return ok && fieldName(fa2) == "Alias"
		}
		if !isAliasKind(bo.X) && !isAliasKind(bo.Y) {
			continue
		}
		switch bo.Op {
		case token.NEQ:
			region = b.Succs[1]
		case token.EQL:
			region = b.Succs[0]
		}
	}
	key := "traverseMergeAnchor/alias-to-mapping"
	if region == nil {
		r.Undecided(rule, key, c.P.pos(fn.Pos()), "traverseMergeAnchor no longer tests that the alias target is a mapping (or the anchor of this rule moved)")
		return
	}
	bad := ""
	nret := 0
	for _, b := range fn.Blocks {
		if !region.Dominates(b) {
			continue
		}
		ret, ok := b.Instrs[len(b.Instrs)-1].(*ssa.Return)
		if !ok {
			continue
		}
		nret++
		isTraverse := func(ins ssa.Instruction) bool {
			cc := callCommon(ins)
			return cc != nil && cc.StaticCallee() != nil && cc.StaticCallee().Name() == "doTraverseMap"
		}
		if pathAvoiding(fn, region, 0, b, len(b.Instrs)-1, isTraverse) {
			if k, isK := ret.Results[0].(*ssa.Const); isK && k.IsNil() {
				// the cycle guard: the alias target is the very map this merge sits in (reached through
				// Parent) — its entries are the ones already being looked at, nothing is left out
				selfMerge := false
				dominatingConds(b, func(cond ssa.Value, taken bool, at *ssa.BasicBlock) {
					bo, ok := cond.(*ssa.BinOp)
					if !ok || (bo.Op != token.EQL && bo.Op != token.NEQ) || (bo.Op == token.EQL) != taken {
						return
					}
					for _, pr := range [][2]ssa.Value{{bo.X, bo.Y}, {bo.Y, bo.X}} {
						if parentChainValue(pr[0]) == nil {
							continue
						}
						if u, ok := pr[1].(*ssa.UnOp); ok && u.Op == token.MUL {
							if fa, ok := u.X.(*ssa.FieldAddr); ok && fieldName(fa) == "Alias" {
								selfMerge = true
							}
						}
					}
				})
				if selfMerge {
					continue
				}
				bad = c.P.pos(ret.Pos())
			}
		}
	}
	switch {
	case nret == 0:
		r.Fatal("anchor moved: no return in the mapping-alias branch of traverseMergeAnchor")
	case bad != "":
		r.Finding(rule, key, bad, "the merged mapping is answered without doTraverseMap: a merge key inside the merged map (a two-level `<<`) is not followed for this kind of lookup, while explode and the JSON encoder do follow it")
	default:
		r.Discharge(rule, key, c.P.pos(region.Instrs[0].Pos()), "every successful exit of the branch is the result of doTraverseMap on the alias target")
	}
}

// ---- J8 (C06): an empty sequence is [] ----------------------------------------------

// ruleJ8: MarshalJSON hands o.Content to the JSON encoder only where it is
// known to be non-empty; an empty child list can be a nil slice (after explode,
// after an alias was resolved), which the encoder prints as null.
func ruleJ8(c *Ctx, rule string) {
	r := c.R
	r.Rule(rule, "MarshalJSON never hands a possibly empty (nil) child list to the JSON encoder", 1)
	fn := c.libFunc("CandidateNode.MarshalJSON")
	if fn == nil {
		r.Fatal("anchor missing: (*CandidateNode).MarshalJSON")
		return
	}
	n := 0
	eachInstr(fn, func(ins ssa.Instruction) {
		call, ok := ins.(*ssa.Call)
		if !ok || len(call.Call.Args) == 0 {
			return
		}
		name := calleeName(&call.Call)
		if len(name) < 7 || name[len(name)-7:] != ".Encode" {
			return
		}
		arg := call.Call.Args[len(call.Call.Args)-1]
		if mi, ok := arg.(*ssa.MakeInterface); ok {
			arg = mi.X
		}
		if contentOwner(arg, 0) == nil {
			return
		}
		n++
		key := fmt.Sprintf("MarshalJSON/Encode(o.Content)#%d", n)
		facts := domFacts(call.Block(), arg)
		if facts&lenEQ(0) == 0 {
			r.Discharge(rule, key, c.P.pos(call.Pos()), "only reached with len(o.Content) != 0; the empty list is written as [] by hand")
		} else {
			r.Finding(rule, key, c.P.pos(call.Pos()), "o.Content is encoded even when it is empty; an empty child list that is a nil slice (an exploded alias, a resolved merge) comes out as null instead of []")
		}
	})
	if n == 0 {
		r.Note("%s: MarshalJSON does not pass o.Content to an Encode call", rule)
	}
}

// ---- J9 / Y7: the encoders' kind switches name every kind -----------------------------

// ruleKindSwitch: fnName compares the node's Kind with every constant of type
// Kind declared in the package (scalar, sequence, mapping, alias). A kind that
// falls into the default arm is encoded as nothing / null.
func ruleKindSwitch(c *Ctx, rule, fnName string) {
	r := c.R
	fn := c.libFunc(fnName)
	if fn == nil {
		r.Fatal("anchor missing: %s", fnName)
		return
	}
	// the Kind constants of the package
	kinds := map[int64]string{}
	for _, name := range c.P.lib().Types.Scope().Names() {
		k, ok := c.P.lib().Types.Scope().Lookup(name).(*types.Const)
		if !ok || namedTypeName(k.Type()) != "Kind" {
			continue
		}
		if v, exact := constant.Int64Val(k.Val()); exact {
			kinds[v] = name
		}
	}
	if len(kinds) < 4 {
		r.Fatal("anchor moved: fewer than 4 constants of type Kind in the package (%d)", len(kinds))
		return
	}
	compared := map[int64]bool{}
	eachInstr(fn, func(ins ssa.Instruction) {
		bo, ok := ins.(*ssa.BinOp)
		if !ok || (bo.Op != token.EQL && bo.Op != token.NEQ) {
			return
		}
		for _, pr := range [][2]ssa.Value{{bo.X, bo.Y}, {bo.Y, bo.X}} {
			u, ok := pr[0].(*ssa.UnOp)
			if !ok {
				continue
			}
			fa, ok := u.X.(*ssa.FieldAddr)
			if !ok || fieldName(fa) != "Kind" || fa.X != ssa.Value(fn.Params[0]) {
				continue
			}
			if k, ok := constInt64(pr[1]); ok {
				compared[k] = true
			}
		}
	})
	var vals []int64
	for v := range kinds {
		vals = append(vals, v)
	}
	sort.Slice(vals, func(i, j int) bool { return vals[i] < vals[j] })
	for _, v := range vals {
		key := fmt.Sprintf("%s/handles(%s)", fnName, kinds[v])
		if compared[v] {
			r.Discharge(rule, key, c.P.pos(fn.Pos()), "the receiver's Kind is compared with "+kinds[v])
		} else {
			r.Finding(rule, key, c.P.pos(fn.Pos()), fmt.Sprintf("%s has no arm for %s: a node of that kind falls into the default arm and is encoded as null / an empty node", fnName, kinds[v]))
		}
	}
}

// ---- J10 (C06): integers never take the float route -----------------------------------

// ruleJ10: in GetValueRep, the code reached for a node whose tag is !!int does
// not call strconv.ParseFloat: an integer that does not fit 64 bits must be an
// error, not the nearest float64.
func ruleJ10(c *Ctx, rule string) {
	r := c.R
	r.Rule(rule, "an integer scalar is never converted through float64 on its way to JSON", 1)
	fn := c.libFunc("CandidateNode.GetValueRep")
	if fn == nil {
		r.Fatal("anchor missing: (*CandidateNode).GetValueRep")
		return
	}
	var region *ssa.BasicBlock
	for _, b := range fn.Blocks {
		ifi, ok := b.Instrs[len(b.Instrs)-1].(*ssa.If)
		if !ok {
			continue
		}
		bo, ok := ifi.Cond.(*ssa.BinOp)
		if !ok || bo.Op != token.EQL {
			continue
		}
		for _, v := range []ssa.Value{bo.X, bo.Y} {
			if k, ok := v.(*ssa.Const); ok && k.Value != nil && k.Value.Kind() == constant.String && constant.StringVal(k.Value) == "!!int" {
				region = b.Succs[0]
			}
		}
	}
	key := "GetValueRep/!!int"
	if region == nil {
		r.Undecided(rule, key, c.P.pos(fn.Pos()), "GetValueRep has no `== \"!!int\"` test: shape not recognised")
		return
	}
	bad := ""
	for _, b := range fn.Blocks {
		if !region.Dominates(b) {
			continue
		}
		for _, ins := range b.Instrs {
			if call, ok := ins.(*ssa.Call); ok && calleeName(&call.Call) == "strconv.ParseFloat" {
				bad = c.P.pos(call.Pos())
			}
		}
	}
	if bad == "" {
		r.Discharge(rule, key, c.P.pos(region.Instrs[0].Pos()), "the !!int arm parses integers only; out-of-range is an error")
	} else {
		r.Finding(rule, key, bad, "the !!int arm falls back to strconv.ParseFloat: an integer beyond 64 bits is emitted as the nearest float64 (12345678901234567890 becomes 12345678901234567000) instead of an error")
	}
}

// ---- K5 (C16/C03/C04/C07): string keys are not parsed as numbers -----------------------

// ruleK5: in getParsedKey the integer parse of the key text is reached only
// when the key is not tagged !!str: a quoted "010" must stay the string "010"
// in a path, or delete / merge look the entry up under 10.
func ruleK5(c *Ctx, rule string) {
	r := c.R
	fn := c.libFunc("CandidateNode.getParsedKey")
	if fn == nil {
		r.Fatal("anchor missing: (*CandidateNode).getParsedKey")
		return
	}
	key := "getParsedKey/string-keys-stay-strings"
	n := 0
	bad := ""
	eachInstr(fn, func(ins ssa.Instruction) {
		call, ok := ins.(*ssa.Call)
		if !ok || call.Call.StaticCallee() == nil {
			return
		}
		switch call.Call.StaticCallee().Name() {
		case "parseInt", "parseInt64":
		default:
			if calleeName(&call.Call) != "strconv.Atoi" && calleeName(&call.Call) != "strconv.ParseInt" && calleeName(&call.Call) != "strconv.ParseFloat" {
				return
			}
		}
		n++
		guarded := false
		dominatingConds(call.Block(), func(cond ssa.Value, taken bool, at *ssa.BasicBlock) {
			bo, ok := cond.(*ssa.BinOp)
			if !ok || (bo.Op != token.EQL && bo.Op != token.NEQ) {
				return
			}
			isStr := func(v ssa.Value) bool {
				k, ok := v.(*ssa.Const)
				return ok && k.Value != nil && k.Value.Kind() == constant.String && constant.StringVal(k.Value) == "!!str"
			}
			isTag := func(v ssa.Value) bool {
				u, ok := v.(*ssa.UnOp)
				if !ok {
					return false
				}
				fa, ok := u.X.(*ssa.FieldAddr)
				return ok && fieldName(fa) == "Tag"
			}
			if (isStr(bo.X) && isTag(bo.Y)) || (isStr(bo.Y) && isTag(bo.X)) {
				if (bo.Op == token.EQL && !taken) || (bo.Op == token.NEQ && taken) {
					guarded = true
				}
			}
		})
		if !guarded {
			bad = c.P.pos(call.Pos())
		}
	})
	switch {
	case n == 0:
		r.Undecided(rule, key, c.P.pos(fn.Pos()), "getParsedKey parses no number: shape not recognised")
	case bad == "":
		r.Discharge(rule, key, c.P.pos(fn.Pos()), "the number parse is reached only for keys not tagged !!str")
	default:
		r.Finding(rule, key, bad, "the key text is parsed as a number although the key may be tagged !!str: a quoted \"010\" or \"0x1F\" becomes 10 / 31 in the path, and delete, merge and path(...) then address the entry \"10\" / \"31\" instead")
	}
}

// ---- O8 (C15): instants are compared with Equal, not == --------------------------------

// ruleO8: no `==` / `!=` between two time.Time values: the struct comparison
// also compares the location pointer and the monotonic reading, so two
// spellings of the same instant are unequal and `<=` / `>=` lose reflexivity.
func ruleO8(c *Ctx, rule string) {
	r := c.R
	r.Rule(rule, "time.Time values are never compared with == / !=", 1)
	n := 0
	for _, fn := range c.moduleFuncs() {
		eachInstr(fn, func(ins ssa.Instruction) {
			bo, ok := ins.(*ssa.BinOp)
			if !ok || (bo.Op != token.EQL && bo.Op != token.NEQ) {
				return
			}
			if types.TypeString(bo.X.Type(), nil) != "time.Time" {
				return
			}
			n++
			r.Finding(rule, funcKey(fn)+"/time==", c.P.pos(bo.Pos()), "two time.Time values are compared with "+bo.Op.String()+": the same instant written in two zones (or with a non-whole-hour offset) compares unequal, so `x <= x` can be false")
		})
	}
	if n == 0 {
		r.Discharge(rule, "module/no-time-equality", "-", "no == / != on time.Time in the module (Equal / Before / After are used)")
	}
}

// ---- U8 (C02/C07): assignment changes the value, not where the node is -----------------

// ruleU8: UpdateFrom / UpdateAttributesFrom (and the helpers they hand both
// nodes to) store only value and presentation attributes of the target. The
// fields that say where the node is or what precedes its document — Parent,
// Key, IsMapKey, document, filename, fileIndex, LeadingContent,
// EvaluateTogether, Line, Column — are never written by an assignment.
func ruleU8(c *Ctx, rule string) {
	r := c.R
	forbidden := map[string]string{
		"Parent": "position", "Key": "position", "IsMapKey": "position",
		"document": "provenance", "filename": "provenance", "fileIndex": "provenance",
		"LeadingContent": "document header", "EvaluateTogether": "evaluation mode",
	}
	for _, name := range []string{"CandidateNode.UpdateFrom", "CandidateNode.UpdateAttributesFrom"} {
		root := c.libFunc(name)
		if root == nil {
			r.Fatal("anchor missing: %s", name)
			continue
		}
		type target struct {
			fn *ssa.Function
			n  *ssa.Parameter
		}
		targets := []target{{root, root.Params[0]}}
		eachInstr(root, func(ins ssa.Instruction) {
			call, ok := ins.(*ssa.Call)
			if !ok {
				return
			}
			h := call.Call.StaticCallee()
			if h == nil || h.Blocks == nil || h == root || !strings.HasPrefix(funcKey(h), "yqlib.") {
				return
			}
			switch h.Name() {
			case "AddChildren", "AddChild", "AddKeyValueChild", "SetParent", "UpdateAttributesFrom", "UpdateFrom":
				return // the positioning primitives: they position CHILDREN, judged by K1/K2
			}
			for i, a := range call.Call.Args {
				if a == ssa.Value(root.Params[0]) && i < len(h.Params) {
					targets = append(targets, target{h, h.Params[i]})
				}
			}
		})
		bad := ""
		for _, t := range targets {
			eachInstr(t.fn, func(ins ssa.Instruction) {
				st, ok := ins.(*ssa.Store)
				if !ok {
					return
				}
				fa, ok := st.Addr.(*ssa.FieldAddr)
				if !ok || fa.X != ssa.Value(t.n) {
					return
				}
				if what, isBad := forbidden[fieldName(fa)]; isBad {
					bad = fmt.Sprintf("%s (%s) at %s", fieldName(fa), what, c.P.pos(st.Pos()))
				}
			})
		}
		key := strings.TrimPrefix(name, "CandidateNode.") + "/value-attributes-only"
		if bad == "" {
			r.Discharge(rule, key, c.P.pos(root.Pos()), "no store to a position / provenance / header field of the target")
		} else {
			r.Finding(rule, key, c.P.pos(root.Pos()), "the assignment primitive stores into the target's "+bad+": an update then moves the node, re-labels where it came from or replaces the header of its document, none of which it was asked to change")
		}
	}
}
