package main

import (
	"fmt"
	"go/token"
	"go/types"
	"sort"
	"strings"

	"golang.org/x/tools/go/ssa"
)

// Rule K1w — what may become a node's whole child list.
//
// `x.Content = s` replaces all children of x at once. The elements of s must
// already be x's children (a subset or permutation, as delete and sort_keys
// do) or s must be empty / freshly made for element-wise filling; children
// appended in place are the business of AddChild / AddKeyValueChild, which
// position them. A slice of another node's children, or of copies that still
// carry their old Parent and Key, gives x children whose `parent`, `key` and
// `path` name some other place — and delete, which trusts those, then removes
// the wrong element.

type elemSrc struct {
	kind string    // "child-of" | "copy" | "fresh" | "param" | "unknown"
	of   ssa.Value // for child-of: the node
	pos  token.Pos
	desc string
}

func isNodePtrSlice(t types.Type) bool { return isNodeSlice(t) }

// contentOwner: v is (a load of) y.Content or a local alias of it; returns y.
func contentOwner(v ssa.Value, d int) ssa.Value {
	if d > 4 {
		return nil
	}
	switch x := v.(type) {
	case *ssa.UnOp:
		if x.Op == token.MUL {
			if y := contentAddrBase(x.X); y != nil {
				return y
			}
		}
	case *ssa.Slice:
		return contentOwner(x.X, d+1)
	case *ssa.Phi:
		var owner ssa.Value
		for _, e := range x.Edges {
			o := contentOwner(e, d+1)
			if o == nil || (owner != nil && o != owner) {
				return nil
			}
			owner = o
		}
		return owner
	}
	return nil
}

// elementSources: where the elements of slice value v come from.
func elementSources(fn *ssa.Function, v ssa.Value, args map[*ssa.Parameter]ssa.Value, d int, seen map[ssa.Value]bool) []elemSrc {
	if d > 6 || seen[v] {
		return nil
	}
	seen[v] = true
	if o := contentOwner(v, 0); o != nil {
		if p, ok := o.(*ssa.Parameter); ok && args[p] != nil {
			o = args[p]
		}
		return []elemSrc{{kind: "child-of", of: o, pos: v.Pos(), desc: "children of " + exprOfValue(o)}}
	}
	var out []elemSrc
	one := func(e ssa.Value) {
		out = append(out, elementSource(fn, e, args, d+1, seen)...)
	}
	switch x := v.(type) {
	case *ssa.Const:
		return nil // nil slice
	case *ssa.MakeSlice:
		// element stores s[i] = e
		if x.Referrers() != nil {
			for _, r := range *x.Referrers() {
				if ia, ok := r.(*ssa.IndexAddr); ok && ia.Referrers() != nil {
					for _, r2 := range *ia.Referrers() {
						if st, ok := r2.(*ssa.Store); ok && st.Addr == ia {
							one(st.Val)
						}
					}
				}
			}
		}
		return out
	case *ssa.Call:
		if b, ok := x.Call.Value.(*ssa.Builtin); ok && b.Name() == "append" {
			out = append(out, elementSources(fn, x.Call.Args[0], args, d+1, seen)...)
			if len(x.Call.Args) > 1 {
				// variadic part: a slice literal (Slice of Alloc array) or another slice
				out = append(out, variadicSources(fn, x.Call.Args[1], args, d+1, seen)...)
			}
			return out
		}
		if callee := x.Call.StaticCallee(); callee != nil && callee.Blocks != nil && d < 3 {
			amap := map[*ssa.Parameter]ssa.Value{}
			for i, p := range callee.Params {
				if i < len(x.Call.Args) {
					a := x.Call.Args[i]
					if pp, ok := a.(*ssa.Parameter); ok && args[pp] != nil {
						a = args[pp]
					}
					amap[p] = a
				}
			}
			for _, b := range callee.Blocks {
				if ret, ok := b.Instrs[len(b.Instrs)-1].(*ssa.Return); ok && len(ret.Results) > 0 {
					out = append(out, elementSources(callee, ret.Results[0], amap, d+1, map[ssa.Value]bool{})...)
				}
			}
			return out
		}
	case *ssa.Phi:
		for _, e := range x.Edges {
			out = append(out, elementSources(fn, e, args, d+1, seen)...)
		}
		return out
	case *ssa.UnOp:
		// load of a local slice variable
		if al, ok := x.X.(*ssa.Alloc); ok && x.Op == token.MUL && al.Referrers() != nil {
			for _, r := range *al.Referrers() {
				if st, ok := r.(*ssa.Store); ok && st.Addr == al {
					out = append(out, elementSources(fn, st.Val, args, d+1, seen)...)
				}
			}
			return out
		}
	case *ssa.Slice:
		return elementSources(fn, x.X, args, d+1, seen)
	case *ssa.Alloc:
		// backing array of a constant-size make() or a slice literal: element stores
		if x.Referrers() != nil {
			for _, r := range *x.Referrers() {
				if ia, ok := r.(*ssa.IndexAddr); ok && ia.Referrers() != nil {
					for _, r2 := range *ia.Referrers() {
						if st, ok := r2.(*ssa.Store); ok && st.Addr == ia {
							one(st.Val)
						}
					}
				}
			}
		}
		return out
	case *ssa.Parameter:
		if a := args[x]; a != nil {
			return elementSources(fn, a, nil, d+1, seen)
		}
		return []elemSrc{{kind: "param", pos: x.Pos(), desc: "slice parameter " + x.Name()}}
	}
	return []elemSrc{{kind: "unknown", pos: v.Pos(), desc: exprOfValue(v)}}
}

func variadicSources(fn *ssa.Function, v ssa.Value, args map[*ssa.Parameter]ssa.Value, d int, seen map[ssa.Value]bool) []elemSrc {
	if sl, ok := v.(*ssa.Slice); ok {
		if al, ok := sl.X.(*ssa.Alloc); ok && al.Referrers() != nil {
			var out []elemSrc
			for _, r := range *al.Referrers() {
				if ia, ok := r.(*ssa.IndexAddr); ok && ia.Referrers() != nil {
					for _, r2 := range *ia.Referrers() {
						if st, ok := r2.(*ssa.Store); ok && st.Addr == ia {
							out = append(out, elementSource(fn, st.Val, args, d+1, seen)...)
						}
					}
				}
			}
			return out
		}
	}
	return elementSources(fn, v, args, d, seen)
}

// elementSource: where one node value comes from.
func elementSource(fn *ssa.Function, e ssa.Value, args map[*ssa.Parameter]ssa.Value, d int, seen map[ssa.Value]bool) []elemSrc {
	if d > 8 {
		return []elemSrc{{kind: "unknown", pos: e.Pos(), desc: exprOfValue(e)}}
	}
	// a node that was explicitly placed under the owner (`v.Parent = owner` before the list store)
	if owner, ok := k1wPositioned[e]; ok {
		return []elemSrc{{kind: "child-of", of: owner, pos: e.Pos(), desc: "a node whose Parent was set to " + exprOfValue(owner)}}
	}
	switch x := e.(type) {
	case *ssa.UnOp:
		if ia, ok := x.X.(*ssa.IndexAddr); ok && x.Op == token.MUL {
			if o := contentOwner(ia.X, 0); o != nil {
				if p, ok := o.(*ssa.Parameter); ok && args[p] != nil {
					o = args[p]
				}
				return []elemSrc{{kind: "child-of", of: o, pos: x.Pos(), desc: "a child of " + exprOfValue(o)}}
			}
			// element of some other slice: its elements' sources
			return elementSources(fn, ia.X, args, d+1, seen)
		}
		if al, ok := x.X.(*ssa.Alloc); ok && x.Op == token.MUL && al.Referrers() != nil {
			var out []elemSrc
			for _, r := range *al.Referrers() {
				if st, ok := r.(*ssa.Store); ok && st.Addr == al {
					out = append(out, elementSource(fn, st.Val, args, d+1, seen)...)
				}
			}
			return out
		}
	case *ssa.Lookup:
		// m[k]: values put into the map
		var out []elemSrc
		if x.X.Referrers() != nil {
			for _, r := range *x.X.Referrers() {
				if mu, ok := r.(*ssa.MapUpdate); ok && mu.Map == x.X {
					out = append(out, elementSource(fn, mu.Value, args, d+1, seen)...)
				}
			}
		}
		if len(out) > 0 {
			return out
		}
	case *ssa.Extract:
		if lk, ok := x.Tuple.(*ssa.Lookup); ok {
			return elementSource(fn, lk, args, d+1, seen)
		}
		if _, ok := x.Tuple.(*ssa.Next); ok {
			return []elemSrc{{kind: "unknown", pos: x.Pos(), desc: "range element"}}
		}
	case *ssa.Phi:
		var out []elemSrc
		for _, ed := range x.Edges {
			if seen[ed] {
				continue
			}
			out = append(out, elementSource(fn, ed, args, d+1, seen)...)
		}
		return out
	case *ssa.Call:
		name := ""
		if c := x.Call.StaticCallee(); c != nil {
			name = c.Name()
		}
		switch name {
		case "Copy", "CopyWithoutContent", "doCopy":
			return []elemSrc{{kind: "copy", pos: x.Pos(), desc: "a " + name + "() of another node (keeps that node's Parent and Key)"}}
		}
		return []elemSrc{{kind: "fresh", pos: x.Pos(), desc: "result of " + name + "()"}}
	case *ssa.Alloc:
		return []elemSrc{{kind: "fresh", pos: x.Pos(), desc: "new node"}}
	}
	return []elemSrc{{kind: "unknown", pos: e.Pos(), desc: exprOfValue(e)}}
}

// k1wPositioned: while one list store is judged, the values that were given Parent = owner before it.
var k1wPositioned map[ssa.Value]ssa.Value

// k1wAccepted: whole-list stores whose elements are positioned by other means.
var k1wAccepted = map[string]string{
	"yqlib.CandidateNode.AddChild/n.Content=":         "the one primitive that appends a child: it has just copied it, set its Parent and given it a key (K1)",
	"yqlib.CandidateNode.AddKeyValueChild/n.Content=": "the map primitive: key and value copies were re-parented and re-keyed on the lines above (K2)",
	"yqlib.CandidateNode.UnmarshalJSON/o.Content=":    "children decoded for this node: each is created with Parent = o and its key by the lines above",
}

func ruleK1w(c *Ctx, rule string, min int) {
	r := c.R
	r.Rule(rule, "a node's whole child list is replaced only by its own children, an empty list, or through the positioning (copying) primitives", min)
	for _, fn := range c.moduleFuncs() {
		seenKey := map[string]int{}
		eachInstr(fn, func(ins ssa.Instruction) {
			st, ok := ins.(*ssa.Store)
			if !ok {
				return
			}
			x := contentAddrBase(st.Addr)
			if x == nil {
				return
			}
			if _, isLit := x.(*ssa.Alloc); isLit {
				// a node being built by a composite literal: it is positioned as a whole
				// when it is added to its container (AddChild / AddKeyValueChild deep-copy)
				return
			}
			key := fmt.Sprintf("%s/%s.Content=", funcKey(fn), exprOfValue(x))
			seenKey[key]++
			if seenKey[key] > 1 {
				key = fmt.Sprintf("%s#%d", key, seenKey[key])
			}
			pos := c.P.pos(st.Pos())
			// values given `v.Parent = x` on the way to this store are x's children by construction
			k1wPositioned = map[ssa.Value]ssa.Value{}
			eachInstr(fn, func(i2 ssa.Instruction) {
				ps, ok := i2.(*ssa.Store)
				if !ok {
					return
				}
				fa, ok := ps.Addr.(*ssa.FieldAddr)
				if !ok || fieldName(fa) != "Parent" || !isNodePtr(fa.X.Type()) {
					return
				}
				if ps.Val != x && !sameLenBase(ps.Val, x) {
					return
				}
				if ps.Block() == st.Block() && instrIndex(ps) < instrIndex(st) || ps.Block() != st.Block() && ps.Block().Dominates(st.Block()) {
					k1wPositioned[fa.X] = x
				}
			})
			srcs := elementSources(fn, st.Val, nil, 0, map[ssa.Value]bool{})
			k1wPositioned = nil
			var bad []string
			for _, s := range srcs {
				switch s.kind {
				case "child-of":
					if s.of == x || sameLenBase(s.of, x) {
						continue
					}
					bad = append(bad, s.desc)
				default:
					bad = append(bad, s.desc)
				}
			}
			if len(bad) == 0 {
				what := "an empty / freshly made list"
				if len(srcs) > 0 {
					what = "a subset or permutation of the node's own children"
				}
				r.Discharge(rule, key, pos, what)
				return
			}
			if why, ok := k1wAccepted[key]; ok {
				r.Discharge(rule, key, pos, "accepted: "+why)
				return
			}
			sort.Strings(bad)
			r.Finding(rule, key, pos, fmt.Sprintf("the new child list of %s holds %s: those nodes keep the Parent and position key they had elsewhere, so `parent`, `key`, `path` of the new children name another place and a later delete by position removes the wrong element", exprOfValue(x), strings.Join(uniq(bad), "; ")))
		})
	}
}
