package main

import (
	"go/ast"
	"go/constant"
	"go/token"
	"go/types"
	"sync"

	"golang.org/x/tools/go/ssa"
	"golang.org/x/tools/go/ssa/ssautil"
)

// Variable-index sites: s[i], s[i:j] where i is neither a constant nor len-k.
// A site is proven when a lower bound 0 <= i and an upper bound i(+off) < len(s)
// follow from: dominating comparisons (incl. != together with a weaker bound,
// equal-length tests and len(s) >= X tests), the loop shape of i (range loops,
// counters, count-downs from len-1), the make() that produced s, what every
// caller passes for a parameter, or the contract of a key-finder callee. Sites
// that rest on "children of a mapping come in key/value pairs" are marked Pair.

// ---- bounds from dominating comparisons -------------------------------------------------

type boundCtx struct {
	blk  *ssa.BasicBlock
	fn   *ssa.Function
	base ssa.Value
}

// isLenLB: v is known to be <= len(base) here: it is len(base); it was the
// length base was made with; a dominating test says len(base) == v or
// len(base) >= v.
func (bc *boundCtx) isLenLB(v ssa.Value) bool {
	if lenValueOf(v, bc.base) {
		return true
	}
	if lens := madeWithLen(bc.fn, bc.base); len(lens) > 0 {
		all := true
		for _, L := range lens {
			if !sameLength(v, L) {
				all = false
			}
		}
		if all {
			return true
		}
	}
	if tabledSameLen(bc.fn, bc.base, v) {
		return true
	}
	if leBoundDepth == 0 {
		if leBound(blockConds(bc.blk), v, func(w ssa.Value) bool { return lenValueOf(w, bc.base) }, 0) {
			return true
		}
	}
	ok := false
	dominatingConds(bc.blk, func(cond ssa.Value, taken bool, at *ssa.BasicBlock) {
		b, isB := cond.(*ssa.BinOp)
		if !isB {
			return
		}
		op := b.Op
		if !taken {
			op = negateCmp(op)
		}
		x, y := b.X, b.Y
		// normalise so that x is len(base)
		if !lenValueOf(x, bc.base) {
			if !lenValueOf(y, bc.base) {
				return
			}
			x, y = y, x
			op = flipCmp(op)
		}
		_ = x
		switch op {
		case token.EQL, token.GEQ: // len == y, len >= y
			if sameLength(y, v) {
				ok = true
			}
		}
	})
	return ok
}

func negateCmp(op token.Token) token.Token {
	switch op {
	case token.LSS:
		return token.GEQ
	case token.LEQ:
		return token.GTR
	case token.GTR:
		return token.LEQ
	case token.GEQ:
		return token.LSS
	case token.EQL:
		return token.NEQ
	case token.NEQ:
		return token.EQL
	}
	return token.ILLEGAL
}

// upperBounded: idx+off < len(base) (or <= len for slice bounds) holds at blk.
func upperBounded(blk *ssa.BasicBlock, base ssa.Value, idx ssa.Value, off int64, allowEq bool) bool {
	bc := &boundCtx{blk: blk, fn: blk.Parent(), base: base}
	return bc.upper(idx, off, allowEq, true)
}

func (bc *boundCtx) upper(idx ssa.Value, off int64, allowEq bool, useNeq bool) bool {
	need := off
	if allowEq {
		need = off - 1
	}
	// count-down loops: idx = phi(len-1, idx-1)
	if phi, ok := idx.(*ssa.Phi); ok && need <= 0 {
		down := len(phi.Edges) > 0
		for _, e := range phi.Edges {
			b, o := idxPlus(e)
			switch {
			case b == ssa.Value(phi) && o <= 0:
			case bc.isLenLB(b) && o <= -1:
			default:
				down = false
			}
		}
		if down {
			return true
		}
	}
	ok := false
	if useNeq && bc.paramsInRange(idx, need) {
		return true
	}
	dominatingConds(bc.blk, func(cond ssa.Value, taken bool, at *ssa.BasicBlock) {
		b, isB := cond.(*ssa.BinOp)
		if !isB {
			return
		}
		op := b.Op
		if !taken {
			op = negateCmp(op)
		}
		// normalise to  L < R  or  L <= R
		var l, r ssa.Value
		strict := false
		switch op {
		case token.LSS:
			l, r, strict = b.X, b.Y, true
		case token.LEQ:
			l, r = b.X, b.Y
		case token.GTR:
			l, r, strict = b.Y, b.X, true
		case token.GEQ:
			l, r = b.Y, b.X
		case token.NEQ:
			if !useNeq {
				return
			}
			// idx+lo != len+ro, together with idx+lo <= len+ro from elsewhere, is idx+lo < len+ro
			for _, pair := range [][2]ssa.Value{{b.X, b.Y}, {b.Y, b.X}} {
				li, lo := idxPlus(pair[0])
				ri, ro := idxPlus(pair[1])
				if li == idx && lenValueOf(ri, bc.base) && bc.weakUpper(idx, lo-ro-1) {
					l, r, strict = pair[0], pair[1], true
				}
			}
			if l == nil {
				return
			}
		default:
			return
		}
		li, lo := idxPlus(l)
		ri, ro := idxPlus(r)
		if li != idx || !bc.isLenLB(ri) {
			return
		}
		// li + lo  <(=)  len + ro   =>  li + off < len  iff  off <= lo - ro - (strict?0:1)
		slack := lo - ro
		if !strict {
			slack--
		}
		if need <= slack {
			ok = true
		}
	})
	return ok
}

// weakUpper: idx+off < len(base) is known without using a != condition: from
// other comparisons, or because idx and base are parameters and every caller
// passes an index that is in range of the slice it passes.
func (bc *boundCtx) weakUpper(idx ssa.Value, off int64) bool {
	if bc.upper(idx, off, false, false) {
		return true
	}
	return bc.paramsInRange(idx, off)
}

// paramsInRange: idx and base are parameters and every caller passes an index
// with idx+off < len of the slice it passes (off <= 0).
func (bc *boundCtx) paramsInRange(idx ssa.Value, off int64) bool {
	p, ok1 := idx.(*ssa.Parameter)
	q, ok2 := bc.base.(*ssa.Parameter)
	if ok1 && ok2 && off <= 0 {
		return callersEstablish(bc.fn, func(call *ssa.CallCommon, at *ssa.BasicBlock) bool {
			ai, ab := argOf(call, bc.fn, p), argOf(call, bc.fn, q)
			if ai == nil || ab == nil {
				return false
			}
			i, o := idxPlus(ai)
			return upperBounded(at, ab, i, o, false)
		})
	}
	return false
}

// ---- what callers guarantee -------------------------------------------------------------

var (
	callIndexMu   sync.Mutex
	callIndexProg *ssa.Program
	callIndex     map[*ssa.Function][]ssa.CallInstruction
	usedAsValue   map[*ssa.Function]bool
)

func buildCallIndex(prog *ssa.Program) {
	callIndex = map[*ssa.Function][]ssa.CallInstruction{}
	usedAsValue = map[*ssa.Function]bool{}
	for fn := range ssautil.AllFunctions(prog) {
		for _, b := range fn.Blocks {
			for _, ins := range b.Instrs {
				var calleeVal ssa.Value
				if ci, ok := ins.(ssa.CallInstruction); ok {
					cc := ci.Common()
					if !cc.IsInvoke() {
						calleeVal = cc.Value
						if f := cc.StaticCallee(); f != nil {
							if f.Origin() != nil {
								f = f.Origin()
							}
							callIndex[f] = append(callIndex[f], ci)
						}
					}
				}
				for _, op := range ins.Operands(nil) {
					if op == nil || *op == nil {
						continue
					}
					if f, ok := (*op).(*ssa.Function); ok && (*op) != calleeVal {
						usedAsValue[f] = true
					}
					if mc, ok := (*op).(*ssa.MakeClosure); ok && (*op) != calleeVal {
						if f, ok := mc.Fn.(*ssa.Function); ok {
							usedAsValue[f] = true
						}
					}
				}
			}
		}
	}
}

// callersEstablish: fn is only ever called directly and check holds at every call.
func callersEstablish(fn *ssa.Function, check func(call *ssa.CallCommon, at *ssa.BasicBlock) bool) bool {
	callIndexMu.Lock()
	if callIndexProg != fn.Prog {
		buildCallIndex(fn.Prog)
		callIndexProg = fn.Prog
	}
	callIndexMu.Unlock()
	if fn.Parent() != nil || usedAsValue[fn] {
		return false
	}
	if fn.Object() != nil && fn.Object().Exported() && fn.Signature.Recv() == nil {
		// exported entry points can be called from outside the module
		if _, isLib := fn.Object().(*types.Func); isLib && fn.Pkg != nil && fn.Pkg.Pkg.Name() != "main" && token.IsExported(fn.Name()) {
			return false
		}
	}
	calls := callIndex[fn]
	if len(calls) == 0 {
		return false
	}
	for _, ci := range calls {
		if !check(ci.Common(), ci.Block()) {
			return false
		}
	}
	return true
}

func argOf(call *ssa.CallCommon, fn *ssa.Function, p *ssa.Parameter) ssa.Value {
	for i, q := range fn.Params {
		if q == p && i < len(call.Args) {
			return call.Args[i]
		}
	}
	return nil
}

type condIter func(f func(cond ssa.Value, taken bool, at *ssa.BasicBlock))

func blockConds(blk *ssa.BasicBlock) condIter {
	return func(f func(cond ssa.Value, taken bool, at *ssa.BasicBlock)) { dominatingConds(blk, f) }
}

// edgeConds: what holds when control goes from pred to succ: everything that
// dominates pred, plus pred's own branch condition.
func edgeConds(pred, succ *ssa.BasicBlock) condIter {
	return func(f func(cond ssa.Value, taken bool, at *ssa.BasicBlock)) {
		dominatingConds(pred, f)
		if ifi, ok := pred.Instrs[len(pred.Instrs)-1].(*ssa.If); ok && len(pred.Succs) == 2 && pred.Succs[0] != pred.Succs[1] {
			f(ifi.Cond, pred.Succs[0] == succ, pred)
		}
	}
}

// lowerOK: 0 <= v: by construction, by a dominating test, or — for a parameter — at every call.
func lowerOK(blk *ssa.BasicBlock, v ssa.Value) bool { return lowerOKIt(blockConds(blk), v) }

func lowerOKIt(it condIter, v ssa.Value) bool {
	if nonNegative(v, 0, map[ssa.Value]bool{}) {
		return true
	}
	i, off := idxPlus(v)
	if off >= 0 && paramNonNegative(i) {
		return true
	}
	if lb, ok := guardLowerBoundIt(it, i); ok && lb+off >= 0 {
		return true
	}
	if lb, ok := guardLowerBoundIt(it, v); ok && lb >= 0 {
		return true
	}
	if off >= 0 && resultNonNegative(i) {
		return true
	}
	// phi whose entries are all non-negative or parameters that are
	if phi, ok := i.(*ssa.Phi); ok && off >= 0 {
		if lowerDepth >= 4 {
			return false
		}
		lowerDepth++
		defer func() { lowerDepth-- }()
		for k, e := range phi.Edges {
			b, o := idxPlus(e)
			if b == ssa.Value(phi) && o >= 0 {
				continue
			}
			if o >= 0 && (nonNegative(b, 0, map[ssa.Value]bool{}) || paramNonNegative(b)) {
				continue
			}
			// the value as it is on this edge: the predecessor's tests count
			if lowerOKIt(edgeConds(phi.Block().Preds[k], phi.Block()), e) {
				continue
			}
			return false
		}
		return true
	}
	return false
}

var lowerDepth int

// resultNonNegative: v is max(…, c>=0), or the result of a module function
// every return of which is non-negative where it is returned (its own guards count).
func resultNonNegative(v ssa.Value) bool {
	if resultDepth >= 3 {
		return false
	}
	resultDepth++
	defer func() { resultDepth-- }()
	idx := 0
	if ex, ok := v.(*ssa.Extract); ok {
		v, idx = ex.Tuple, ex.Index
	}
	call, ok := v.(*ssa.Call)
	if !ok {
		return false
	}
	if b, isB := call.Call.Value.(*ssa.Builtin); isB {
		switch b.Name() {
		case "max":
			for _, a := range call.Call.Args {
				if lowerOK(call.Block(), a) {
					return true
				}
			}
		case "min":
			for _, a := range call.Call.Args {
				if !lowerOK(call.Block(), a) {
					return false
				}
			}
			return len(call.Call.Args) > 0
		}
		return false
	}
	callee := call.Call.StaticCallee()
	if callee == nil || callee.Blocks == nil {
		return false
	}
	n := 0
	for _, b := range callee.Blocks {
		ret, isRet := b.Instrs[len(b.Instrs)-1].(*ssa.Return)
		if !isRet || idx >= len(ret.Results) {
			continue
		}
		n++
		if !lowerOK(b, ret.Results[idx]) {
			return false
		}
	}
	return n > 0
}

var resultDepth int

// guardLowerBound: the largest k with a dominating test giving v >= k.
func guardLowerBoundIt(it condIter, v ssa.Value) (int64, bool) {
	have := false
	var best int64
	it(func(cond ssa.Value, taken bool, at *ssa.BasicBlock) {
		bo, isB := cond.(*ssa.BinOp)
		if !isB || !(bo.X == v || sameArith(bo.X, v, 0)) {
			return
		}
		k, isK := constInt64(bo.Y)
		if !isK {
			return
		}
		op := bo.Op
		if !taken {
			op = negateCmp(op)
		}
		var lb int64
		switch op {
		case token.GTR:
			lb = k + 1
		case token.GEQ:
			lb = k
		default:
			return
		}
		if !have || lb > best {
			have, best = true, lb
		}
	})
	return best, have
}

func paramNonNegative(v ssa.Value) bool {
	p, ok := v.(*ssa.Parameter)
	if !ok {
		return false
	}
	fn := p.Parent()
	if paramDepth >= 3 {
		return false
	}
	paramDepth++
	defer func() { paramDepth-- }()
	return callersEstablish(fn, func(call *ssa.CallCommon, at *ssa.BasicBlock) bool {
		a := argOf(call, fn, p)
		return a != nil && lowerOK(at, a)
	})
}

var paramDepth int

// ---- key finders ------------------------------------------------------------------------

// keyFinder: fn returns -1 or a position i of fn's node parameter's Content
// with i = phi(0, i+step) and i < len(param.Content) at the return.
func keyFinder(fn *ssa.Function) (param int, step int64, ok bool) {
	if fn == nil || fn.Blocks == nil || fn.Signature.Results().Len() != 1 {
		return 0, 0, false
	}
	param, step = -1, 0
	for _, b := range fn.Blocks {
		ret, isRet := b.Instrs[len(b.Instrs)-1].(*ssa.Return)
		if !isRet {
			continue
		}
		v := ret.Results[0]
		if k, isK := constInt64(v); isK {
			if k != -1 {
				return 0, 0, false
			}
			continue
		}
		phi, isPhi := v.(*ssa.Phi)
		if !isPhi {
			return 0, 0, false
		}
		var st int64
		for _, e := range phi.Edges {
			if k, isK := constInt64(e); isK && k == 0 {
				continue
			}
			if bb, o := idxPlus(e); bb == ssa.Value(phi) && (o == 1 || o == 2) {
				st = o
				continue
			}
			return 0, 0, false
		}
		if st == 0 {
			return 0, 0, false
		}
		// which parameter's Content bounds it at this return?
		found := -1
		for pi, p := range fn.Params {
			if !isNodePtr(p.Type()) {
				continue
			}
			hit := false
			dominatingConds(b, func(cond ssa.Value, taken bool, at *ssa.BasicBlock) {
				bo, isB := cond.(*ssa.BinOp)
				if !isB || !taken || bo.Op != token.LSS || bo.X != ssa.Value(phi) {
					return
				}
				if x, isLen := lenOf(bo.Y); isLen {
					if u, isU := x.(*ssa.UnOp); isU && contentAddrBase(u.X) == ssa.Value(p) {
						hit = true
					}
				}
			})
			if hit {
				found = pi
			}
		}
		if found < 0 || (param >= 0 && param != found) || (step != 0 && step != st) {
			return 0, 0, false
		}
		param, step = found, st
	}
	return param, step, param >= 0
}

// finderResultInRange: idx(+off) indexes x.Content where idx = F(..x..) for a
// key finder F and idx was tested non-negative.
func finderResultInRange(blk *ssa.BasicBlock, base ssa.Value, idx ssa.Value, off int64) (proven bool, pair bool) {
	call, ok := idx.(*ssa.Call)
	if !ok {
		return false, false
	}
	callee := call.Call.StaticCallee()
	pi, step, ok := keyFinder(callee)
	if !ok || pi >= len(call.Call.Args) {
		return false, false
	}
	u, isU := base.(*ssa.UnOp)
	if !isU || contentAddrBase(u.X) != call.Call.Args[pi] {
		return false, false
	}
	if !nonNegativeGuard(blk, idx) && !notMinusOneGuard(blk, idx) {
		return false, false
	}
	switch {
	case off == 0:
		return true, false
	case off == 1 && step == 2:
		return true, true
	}
	return false, false
}

// notMinusOneGuard: `v != -1` holds (or `v == -1` does not).
func notMinusOneGuard(blk *ssa.BasicBlock, v ssa.Value) bool {
	ok := false
	dominatingConds(blk, func(cond ssa.Value, taken bool, at *ssa.BasicBlock) {
		if bo, isB := cond.(*ssa.BinOp); isB && bo.X == v {
			if k, isK := constInt64(bo.Y); isK && k == -1 {
				if (bo.Op == token.NEQ && taken) || (bo.Op == token.EQL && !taken) {
					ok = true
				}
			}
		}
	})
	return ok
}

// ---- the census -------------------------------------------------------------------------

func varIndexSites(fn *ssa.Function) []*varIndexSite {
	var out []*varIndexSite
	add := func(ins ssa.Instruction, base, idx ssa.Value, isSlice bool) {
		if idx == nil {
			return
		}
		if _, ok := constInt64(idx); ok {
			return
		}
		if x, _, ok := lenMinus(idx); ok && sameLenBase(x, base) {
			return
		}
		i, off := idxPlus(idx)
		s := &varIndexSite{Instr: ins, Base: base, Index: idx, Pos: ins.Pos(), Slice: isSlice}
		out = append(out, s)
		blk := ins.Block()
		lowOK := lowerOK(blk, idx)
		if ok, pair := finderResultInRange(blk, base, i, off); ok {
			s.Proven, s.Pair = true, pair
			s.Why = "position returned by a key finder over this node's children, tested not to be -1"
			return
		}
		up := upperBounded(blk, base, i, off, isSlice)
		if !up && lowOK && off == 1 && !isSlice && isNodeSlice(base.Type()) && stepsByTwoFromEven(i) &&
			upperBounded(blk, base, i, 0, false) {
			s.Proven, s.Pair = true, true
			s.Why = "key/value pair idiom: i runs over even positions below len and the slice holds key/value pairs"
			return
		}
		if !up && !isSlice && halfLemma(blk, base, idx) {
			up = true
		}
		s.LowOK, s.UpOK = lowOK, up
		switch {
		case up && lowOK:
			s.Proven, s.Why = true, "0 <= index and a dominating comparison bounds it by len"
		case up:
			s.Why = "upper bound established, sign of the index not"
		case lowOK:
			s.Why = "index is non-negative, no dominating comparison with len"
		default:
			s.Why = "no bound established"
		}
	}
	for _, b := range fn.Blocks {
		for _, ins := range b.Instrs {
			switch x := ins.(type) {
			case *ssa.IndexAddr:
				if _, isArr := derefType(x.X.Type()).Underlying().(*types.Array); isArr {
					continue
				}
				add(x, x.X, x.Index, false)
			case *ssa.Index:
				if _, isArr := x.X.Type().Underlying().(*types.Array); isArr {
					continue
				}
				add(x, x.X, x.Index, false)
			case *ssa.Lookup:
				if _, isMap := x.X.Type().Underlying().(*types.Map); !isMap {
					add(x, x.X, x.Index, false)
				}
			case *ssa.Slice:
				if _, isArr := derefType(x.X.Type()).Underlying().(*types.Array); isArr {
					continue
				}
				add(x, x.X, x.Low, true)
				add(x, x.X, x.High, true)
			}
		}
	}
	return out
}

// ---- stable keys: the source text of the index expression --------------------------------

var (
	idxTextFor *Prog
	idxText    map[token.Pos][2]string
)

// indexExprText: source text of the operand and of the index (or bounds) of the
// index / slice expression whose `[` is at pos.
func indexExprText(c *Ctx, pos token.Pos) (string, string, bool) {
	if idxTextFor != c.P {
		idxTextFor = c.P
		idxText = map[token.Pos][2]string{}
		for _, pk := range c.P.modulePackages() {
			for _, f := range pk.Syntax {
				ast.Inspect(f, func(n ast.Node) bool {
					switch x := n.(type) {
					case *ast.IndexExpr:
						idxText[x.Lbrack] = [2]string{types.ExprString(x.X), types.ExprString(x.Index)}
					case *ast.SliceExpr:
						lo, hi := "", ""
						if x.Low != nil {
							lo = types.ExprString(x.Low)
						}
						if x.High != nil {
							hi = types.ExprString(x.High)
						}
						idxText[x.Lbrack] = [2]string{types.ExprString(x.X), lo + ":" + hi}
					}
					return true
				})
			}
		}
	}
	t, ok := idxText[pos]
	return t[0], t[1], ok
}

// callersGiveLen: base is a parameter of fn (string or slice) and every caller
// passes a value whose length is known to be at least need at the call: a
// constant string, a value bounded by dominating tests there, or the caller's
// own parameter for which the same holds one level up (depth <= 3).
func callersGiveLen(fn *ssa.Function, base ssa.Value, need int64, depth int) bool {
	p, ok := base.(*ssa.Parameter)
	if !ok || depth > 3 || p.Parent() != fn {
		return false
	}
	return callersEstablish(fn, func(call *ssa.CallCommon, at *ssa.BasicBlock) bool {
		a := argOf(call, fn, p)
		if a == nil {
			return false
		}
		if k, isK := a.(*ssa.Const); isK && k.Value != nil && k.Value.Kind() == constant.String {
			return int64(len(constant.StringVal(k.Value))) >= need
		}
		facts := domFacts(at, a)
		if facts&lenLT(need) == 0 {
			return true
		}
		if q, isP := a.(*ssa.Parameter); isP {
			return callersGiveLen(q.Parent(), q, need, depth+1)
		}
		return false
	})
}

// leBound: v <= B is known, where isBound recognises B (len of the indexed
// slice in the caller; a parameter standing for it inside a helper): v is B;
// B plus something not positive; B minus something not negative; min(…, B, …);
// a value tested `<= B` on the way; a phi all of whose incoming values are so
// on their edges; the result of a module helper all of whose returns are so
// relative to the parameter the caller passes B for.
var leBoundDepth int

func leBound(it condIter, v ssa.Value, isBound func(ssa.Value) bool, d int) bool {
	if d > 6 {
		return false
	}
	leBoundDepth++
	defer func() { leBoundDepth-- }()
	if isBound(v) {
		return true
	}
	// a dominating / edge test: v <= B, v < B, !(v > B), !(v >= B+…)
	tested := false
	it(func(cond ssa.Value, taken bool, at *ssa.BasicBlock) {
		bo, ok := cond.(*ssa.BinOp)
		if !ok {
			return
		}
		op := bo.Op
		if !taken {
			op = negateCmp(op)
		}
		switch {
		case bo.X == v && isBound(bo.Y) && (op == token.LEQ || op == token.LSS):
			tested = true
		case bo.Y == v && isBound(bo.X) && (op == token.GEQ || op == token.GTR):
			tested = true
		}
	})
	if tested {
		return true
	}
	notPositive := func(y ssa.Value) bool {
		if k, ok := constInt64(y); ok {
			return k <= 0
		}
		neg := false
		it(func(cond ssa.Value, taken bool, at *ssa.BasicBlock) {
			bo, ok := cond.(*ssa.BinOp)
			if !ok || bo.X != y {
				return
			}
			k, isK := constInt64(bo.Y)
			if !isK {
				return
			}
			op := bo.Op
			if !taken {
				op = negateCmp(op)
			}
			if (op == token.LSS && k <= 1) || (op == token.LEQ && k <= 0) {
				neg = true
			}
		})
		return neg
	}
	switch x := v.(type) {
	case *ssa.BinOp:
		switch x.Op {
		case token.ADD:
			return (isBound(x.X) && notPositive(x.Y)) || (isBound(x.Y) && notPositive(x.X))
		case token.SUB:
			return leBound(it, x.X, isBound, d+1) && lowerOKIt(it, x.Y)
		}
	case *ssa.Phi:
		for k, e := range x.Edges {
			if !leBound(edgeConds(x.Block().Preds[k], x.Block()), e, isBound, d+1) {
				return false
			}
		}
		return len(x.Edges) > 0
	case *ssa.Extract:
		if call, ok := x.Tuple.(*ssa.Call); ok {
			return calleeResultLE(call, x.Index, isBound, d)
		}
	case *ssa.Call:
		if b, ok := x.Call.Value.(*ssa.Builtin); ok {
			if b.Name() == "min" {
				for _, a := range x.Call.Args {
					if leBound(it, a, isBound, d+1) {
						return true
					}
				}
			}
			return false
		}
		return calleeResultLE(x, 0, isBound, d)
	}
	return false
}

func calleeResultLE(call *ssa.Call, idx int, isBound func(ssa.Value) bool, d int) bool {
	callee := call.Call.StaticCallee()
	if callee == nil || callee.Blocks == nil || d > 3 {
		return false
	}
	inner := func(w ssa.Value) bool {
		p, ok := w.(*ssa.Parameter)
		if !ok {
			return false
		}
		a := argOf(&call.Call, callee, p)
		return a != nil && isBound(a)
	}
	n := 0
	for _, b := range callee.Blocks {
		ret, ok := b.Instrs[len(b.Instrs)-1].(*ssa.Return)
		if !ok || idx >= len(ret.Results) {
			continue
		}
		if isErrorExit(ret) {
			continue
		}
		n++
		if !leBound(blockConds(b), ret.Results[idx], inner, d+1) {
			return false
		}
	}
	return n > 0
}

// ---- tabled equal-length relations between parameters ----------------------------------

// c11SameLenParams: functions two of whose slice parameters always have the
// same length, by an invariant established outside the module. Keyed by
// function; the relation is symmetric, so swapping the two parameters is harmless.
type sameLenRel struct {
	a, b int // indices into fn.Params (the receiver is 0)
	why  string
}

var c11SameLenParams = map[string]sameLenRel{
	"yqlib.csvObjectDecoder.createObject": {1, 2, "CSVRECT: encoding/csv rejects records whose field count differs from the first record (FieldsPerRecord is left 0, checked by P4c), and the header row is the first record"},
}

// tabledSameLen: v is len(p) for a parameter p of fn that the table relates to base.
func tabledSameLen(fn *ssa.Function, base ssa.Value, v ssa.Value) bool {
	rel, ok := c11SameLenParams[funcKey(fn)]
	if !ok || rel.a >= len(fn.Params) || rel.b >= len(fn.Params) {
		return false
	}
	pa, pb := ssa.Value(fn.Params[rel.a]), ssa.Value(fn.Params[rel.b])
	x, isLen := lenOf(v)
	if !isLen {
		return false
	}
	return (sameLenBase(base, pa) && sameLenBase(x, pb)) || (sameLenBase(base, pb) && sameLenBase(x, pa))
}

// sameArith: two SSA values that are the same arithmetic expression over the same
// operands (go/ssa computes `length + start` anew for every mention).
func sameArith(a, b ssa.Value, d int) bool {
	if a == b {
		return true
	}
	if d > 2 {
		return false
	}
	x, ok1 := a.(*ssa.BinOp)
	y, ok2 := b.(*ssa.BinOp)
	if !ok1 || !ok2 || x.Op != y.Op {
		return false
	}
	switch x.Op {
	case token.ADD, token.SUB, token.MUL:
	default:
		return false
	}
	if sameArith(x.X, y.X, d+1) && sameArith(x.Y, y.Y, d+1) {
		return true
	}
	if x.Op != token.SUB && sameArith(x.X, y.Y, d+1) && sameArith(x.Y, y.X, d+1) {
		return true
	}
	return false
}

// halfLemma: base was made with L slots, the index is 2*i or 2*i+1, and i is
// bounded by the length of a slice made with L/2 slots: 2*i+1 <= 2*(L/2 - 1) + 1 < L.
func halfLemma(blk *ssa.BasicBlock, base ssa.Value, idx ssa.Value) bool {
	fn := blk.Parent()
	baseLens := madeWithLen(fn, base)
	if len(baseLens) == 0 {
		return false
	}
	// idx = i*2 (+ 0|1), in either operand order
	var twice ssa.Value
	switch x := idx.(type) {
	case *ssa.BinOp:
		switch x.Op {
		case token.MUL:
			twice = x
		case token.ADD:
			if k, ok := constInt64(x.Y); ok && (k == 0 || k == 1) {
				twice = x.X
			} else if k, ok := constInt64(x.X); ok && (k == 0 || k == 1) {
				twice = x.Y
			}
		}
	}
	mul, ok := twice.(*ssa.BinOp)
	if !ok || mul.Op != token.MUL {
		return false
	}
	var i ssa.Value
	if k, ok := constInt64(mul.Y); ok && k == 2 {
		i = mul.X
	} else if k, ok := constInt64(mul.X); ok && k == 2 {
		i = mul.Y
	}
	if i == nil {
		return false
	}
	// a slice K made with L/2 slots such that i < len(K) here
	found := false
	eachInstr(fn, func(ins ssa.Instruction) {
		mk, ok := ins.(*ssa.MakeSlice)
		if !ok || found {
			return
		}
		q, ok := mk.Len.(*ssa.BinOp)
		if !ok || q.Op != token.QUO {
			return
		}
		if k, ok := constInt64(q.Y); !ok || k != 2 {
			return
		}
		for _, L := range baseLens {
			if !(sameLength(q.X, L) || sameArith(q.X, L, 0)) {
				return
			}
		}
		// K itself, or the local it is stored in
		cands := []ssa.Value{mk}
		if mk.Referrers() != nil {
			for _, ref := range *mk.Referrers() {
				if st, ok := ref.(*ssa.Store); ok && st.Val == ssa.Value(mk) {
					if st.Addr.Referrers() != nil {
						for _, r2 := range *st.Addr.Referrers() {
							if u, ok := r2.(*ssa.UnOp); ok && u.Op == token.MUL {
								cands = append(cands, u)
							}
						}
					}
				}
			}
		}
		ii, ioff := idxPlus(i)
		for _, k := range cands {
			if upperBounded(blk, k, i, 0, false) || upperBounded(blk, k, ii, ioff, false) {
				found = true
			}
		}
	})
	return found
}
