package main

import (
	"fmt"
	"go/ast"
	"go/constant"
	"go/token"
	"go/types"
	"sort"
	"strings"

	"golang.org/x/tools/go/packages"
	"golang.org/x/tools/go/ssa"
)

// ---------------------------------------------------------------------------
// L0 tables: values the source declares as data.
// ---------------------------------------------------------------------------

// OpType is one `var xOpType = &operationType{...}` record.
type OpType struct {
	Var        *types.Var
	VarName    string
	Type       string
	NumArgs    int64
	Precedence int64
	Handler    *types.Func
	Check      bool
	Pos        token.Pos
}

type OpTable struct {
	ByVar map[*types.Var]*OpType
	List  []*OpType
}

func constInt(info *types.Info, e ast.Expr) (int64, bool) {
	tv, ok := info.Types[e]
	if !ok || tv.Value == nil {
		return 0, false
	}
	v, ok := constant.Int64Val(constant.ToInt(tv.Value))
	return v, ok
}

func constString(info *types.Info, e ast.Expr) (string, bool) {
	tv, ok := info.Types[e]
	if !ok || tv.Value == nil || tv.Value.Kind() != constant.String {
		return "", false
	}
	return constant.StringVal(tv.Value), true
}

func constBool(info *types.Info, e ast.Expr) (bool, bool) {
	tv, ok := info.Types[e]
	if !ok || tv.Value == nil || tv.Value.Kind() != constant.Bool {
		return false, false
	}
	return constant.BoolVal(tv.Value), true
}

func namedTypeName(t types.Type) string {
	for {
		switch tt := t.(type) {
		case *types.Pointer:
			t = tt.Elem()
			continue
		case *types.Named:
			return tt.Obj().Name()
		case *types.Alias:
			t = types.Unalias(tt)
			continue
		}
		return ""
	}
}

// isNamed reports whether t (possibly through pointers) is the named type pkgPath.name.
func isNamed(t types.Type, pkgPath, name string) bool {
	for {
		switch tt := t.(type) {
		case *types.Pointer:
			t = tt.Elem()
			continue
		case *types.Alias:
			t = types.Unalias(tt)
			continue
		case *types.Named:
			return tt.Obj().Name() == name && tt.Obj().Pkg() != nil && tt.Obj().Pkg().Path() == pkgPath
		}
		return false
	}
}

// extractOpTable reads every package-level `&operationType{...}` literal.
func extractOpTable(p *Prog) (*OpTable, error) {
	pk := p.lib()
	tbl := &OpTable{ByVar: map[*types.Var]*OpType{}}
	info := pk.TypesInfo
	for _, f := range pk.Syntax {
		for _, d := range f.Decls {
			gd, ok := d.(*ast.GenDecl)
			if !ok || gd.Tok != token.VAR {
				continue
			}
			for _, s := range gd.Specs {
				vs := s.(*ast.ValueSpec)
				for i, name := range vs.Names {
					if i >= len(vs.Values) {
						continue
					}
					ue, ok := vs.Values[i].(*ast.UnaryExpr)
					if !ok || ue.Op != token.AND {
						continue
					}
					cl, ok := ue.X.(*ast.CompositeLit)
					if !ok || namedTypeName(info.TypeOf(cl)) != "operationType" {
						continue
					}
					v, _ := info.Defs[name].(*types.Var)
					ot := &OpType{Var: v, VarName: name.Name, Pos: name.Pos()}
					for _, el := range cl.Elts {
						kv, ok := el.(*ast.KeyValueExpr)
						if !ok {
							return nil, fmt.Errorf("%s: positional operationType literal not supported", p.pos(el.Pos()))
						}
						key := kv.Key.(*ast.Ident).Name
						switch key {
						case "Type":
							ot.Type, _ = constString(info, kv.Value)
						case "NumArgs":
							n, ok := constInt(info, kv.Value)
							if !ok {
								return nil, fmt.Errorf("%s: NumArgs of %s is not a constant", p.pos(kv.Pos()), name.Name)
							}
							ot.NumArgs = n
						case "Precedence":
							n, ok := constInt(info, kv.Value)
							if !ok {
								return nil, fmt.Errorf("%s: Precedence of %s is not a constant", p.pos(kv.Pos()), name.Name)
							}
							ot.Precedence = n
						case "CheckForPostTraverse":
							b, ok := constBool(info, kv.Value)
							if !ok {
								return nil, fmt.Errorf("%s: CheckForPostTraverse of %s is not a constant", p.pos(kv.Pos()), name.Name)
							}
							ot.Check = b
						case "Handler":
							if id, ok := kv.Value.(*ast.Ident); ok {
								ot.Handler, _ = info.Uses[id].(*types.Func)
							}
							if ot.Handler == nil {
								return nil, fmt.Errorf("%s: Handler of %s is not a named function", p.pos(kv.Pos()), name.Name)
							}
						}
					}
					tbl.ByVar[v] = ot
					tbl.List = append(tbl.List, ot)
				}
			}
		}
	}
	sort.Slice(tbl.List, func(i, j int) bool { return tbl.List[i].VarName < tbl.List[j].VarName })
	return tbl, nil
}

func (t *OpTable) byName(n string) *OpType {
	for _, o := range t.List {
		if o.VarName == n {
			return o
		}
	}
	return nil
}

func (t *OpTable) byType(ty string) *OpType {
	for _, o := range t.List {
		if o.Type == ty {
			return o
		}
	}
	return nil
}

// ---------------------------------------------------------------------------
// Abstract values for evaluating the rule-table factories.
// ---------------------------------------------------------------------------

type absVal struct {
	kind    string // global | nil | const | closure | opaque | new
	global  *types.Var
	cval    constant.Value
	lit     *ast.FuncLit
	env     map[*types.Var]*absVal
	typ     types.Type // static type of an opaque expression
	callee  *types.Func
	args    []*absVal // for kind=="new": constructor args
	expr    ast.Expr
	declPkg *packages.Package
}

func (a *absVal) String() string {
	if a == nil {
		return "<none>"
	}
	switch a.kind {
	case "global":
		return a.global.Name()
	case "nil":
		return "nil"
	case "const":
		return a.cval.String()
	case "closure":
		return "closure"
	case "new":
		return a.callee.Name() + "(...)"
	}
	if a.typ != nil {
		return "opaque:" + a.typ.String()
	}
	return "opaque"
}

type absEval struct {
	p     *Prog
	pk    *packages.Package
	depth int
}

// eval evaluates an expression to an abstract value in env.
func (ev *absEval) eval(e ast.Expr, env map[*types.Var]*absVal) *absVal {
	info := ev.pk.TypesInfo
	e = ast.Unparen(e)
	if tv, ok := info.Types[e]; ok && tv.Value != nil {
		return &absVal{kind: "const", cval: tv.Value, typ: tv.Type}
	}
	switch x := e.(type) {
	case *ast.Ident:
		obj := info.Uses[x]
		if obj == nil {
			obj = info.Defs[x]
		}
		switch o := obj.(type) {
		case *types.Nil:
			return &absVal{kind: "nil"}
		case *types.Var:
			if v, ok := env[o]; ok {
				return v
			}
			if o.Parent() == o.Pkg().Scope() {
				return &absVal{kind: "global", global: o, typ: o.Type()}
			}
			return &absVal{kind: "opaque", typ: o.Type(), expr: e}
		}
	case *ast.FuncLit:
		return &absVal{kind: "closure", lit: x, env: env, declPkg: ev.pk}
	case *ast.CallExpr:
		fn := calleeFunc(info, x)
		if fn != nil && fn.Pkg() != nil && fn.Pkg().Path() == ev.pk.PkgPath {
			var args []*absVal
			for _, a := range x.Args {
				args = append(args, ev.eval(a, env))
			}
			sig := fn.Type().(*types.Signature)
			// functions returning a func value or a rule pointer are inlined
			if sig.Results().Len() == 1 && ev.depth < 6 {
				rt := sig.Results().At(0).Type()
				_, isFunc := rt.Underlying().(*types.Signature)
				if isFunc || namedTypeName(rt) == "participleYqRule" {
					fd := funcDecl(ev.pk, fn)
					if fd != nil && fd.Body != nil {
						ev.depth++
						r := ev.evalBody(fd, sig, args)
						ev.depth--
						if r != nil {
							return r
						}
					}
				}
			}
			return &absVal{kind: "new", callee: fn, args: args, typ: info.TypeOf(e), expr: e}
		}
		if fn != nil {
			var args []*absVal
			for _, a := range x.Args {
				args = append(args, ev.eval(a, env))
			}
			return &absVal{kind: "new", callee: fn, args: args, typ: info.TypeOf(e), expr: e}
		}
	case *ast.UnaryExpr:
		if x.Op == token.AND {
			if cl, ok := x.X.(*ast.CompositeLit); ok && namedTypeName(info.TypeOf(cl)) == "participleYqRule" {
				return ev.evalRuleLit(cl, env)
			}
		}
	case *ast.CompositeLit:
		if namedTypeName(info.TypeOf(x)) == "participleYqRule" {
			return ev.evalRuleLit(x, env)
		}
	}
	return &absVal{kind: "opaque", typ: info.TypeOf(e), expr: e}
}

// evalRuleLit evaluates a participleYqRule literal to a pseudo value holding
// pattern and action as args[0], args[1].
func (ev *absEval) evalRuleLit(cl *ast.CompositeLit, env map[*types.Var]*absVal) *absVal {
	st, _ := ev.pk.TypesInfo.TypeOf(cl).Underlying().(*types.Struct)
	if st == nil {
		if pt, ok := ev.pk.TypesInfo.TypeOf(cl).(*types.Pointer); ok {
			st, _ = pt.Elem().Underlying().(*types.Struct)
		}
	}
	var pat, act *absVal
	for i, el := range cl.Elts {
		name := ""
		val := el
		if kv, ok := el.(*ast.KeyValueExpr); ok {
			name = kv.Key.(*ast.Ident).Name
			val = kv.Value
		} else if st != nil && i < st.NumFields() {
			name = st.Field(i).Name()
		}
		switch name {
		case "Pattern":
			pat = ev.eval(val, env)
		case "CreateYqToken":
			act = ev.eval(val, env)
		}
	}
	return &absVal{kind: "rule", args: []*absVal{pat, act}, expr: cl}
}

// evalBody binds params and evaluates the (single) returned expression of a
// factory, after recording simple `x := expr` definitions.
func (ev *absEval) evalBody(fd *ast.FuncDecl, sig *types.Signature, args []*absVal) *absVal {
	info := ev.pk.TypesInfo
	env := map[*types.Var]*absVal{}
	i := 0
	for _, f := range fd.Type.Params.List {
		for _, n := range f.Names {
			if v, ok := info.Defs[n].(*types.Var); ok && i < len(args) {
				env[v] = args[i]
			}
			i++
		}
	}
	var result *absVal
	for _, st := range fd.Body.List {
		switch s := st.(type) {
		case *ast.AssignStmt:
			if s.Tok == token.DEFINE && len(s.Lhs) == 1 && len(s.Rhs) == 1 {
				if id, ok := s.Lhs[0].(*ast.Ident); ok {
					if v, ok := info.Defs[id].(*types.Var); ok {
						val := ev.eval(s.Rhs[0], env)
						if val.kind == "opaque" {
							val = &absVal{kind: "opaque", typ: v.Type(), expr: s.Rhs[0], env: env}
						}
						env[v] = val
					}
				}
			}
		case *ast.ReturnStmt:
			if len(s.Results) == 1 {
				result = ev.eval(s.Results[0], env)
			}
		}
	}
	return result
}

func calleeFunc(info *types.Info, call *ast.CallExpr) *types.Func {
	var id *ast.Ident
	switch f := ast.Unparen(call.Fun).(type) {
	case *ast.Ident:
		id = f
	case *ast.SelectorExpr:
		id = f.Sel
	case *ast.IndexExpr:
		if i, ok := f.X.(*ast.Ident); ok {
			id = i
		} else if s, ok := f.X.(*ast.SelectorExpr); ok {
			id = s.Sel
		}
	}
	if id == nil {
		return nil
	}
	fn, _ := info.Uses[id].(*types.Func)
	return fn
}

// ---------------------------------------------------------------------------
// Lexer rules
// ---------------------------------------------------------------------------

type TokenShape struct {
	Kind      string // name of the tokenType constant, "" if unknown
	Ops       []*OpType
	AssignOps []*OpType
	Flag      string // "true" | "false" | "bytype"
	FlagOps   []*OpType
	PrefTypes []string // dynamic types stored in Operation.Preferences ("nil" included)
	PrefArgs  []*absVal
	Fn        string
	// Shared: Operation objects this token carries that were NOT allocated by the
	// action for this token (captured from the factory, a global, …): every token
	// the rule ever emits then points at the same mutable Operation.
	Shared []string
}

// state of the closure analysis in progress (set by analyseTokenClosure)
var (
	curFactoryEnv map[*types.Var]*absVal
	curShared     *[]string
)

type LexRule struct {
	Index   int
	Pattern string
	Pos     token.Pos
	NoToken bool // nil action: the lexeme is dropped (whitespace, comment)
	Action  *absVal
	Tokens  []TokenShape
	Problem string
}

type LexTable struct {
	Rules   []*LexRule
	VarPos  token.Pos
	litFunc map[*ast.FuncLit]*ssa.Function
}

func extractLexTable(p *Prog, ops *OpTable) (*LexTable, error) {
	pk := p.lib()
	info := pk.TypesInfo
	var list *ast.CompositeLit
	var varPos token.Pos
	for _, f := range pk.Syntax {
		for _, d := range f.Decls {
			gd, ok := d.(*ast.GenDecl)
			if !ok || gd.Tok != token.VAR {
				continue
			}
			for _, s := range gd.Specs {
				vs := s.(*ast.ValueSpec)
				for i, n := range vs.Names {
					if n.Name == "participleYqRules" && i < len(vs.Values) {
						list, _ = vs.Values[i].(*ast.CompositeLit)
						varPos = n.Pos()
					}
				}
			}
		}
	}
	if list == nil {
		return nil, fmt.Errorf("anchor missing: package-level composite literal participleYqRules")
	}
	p.buildSSA()
	lt := &LexTable{VarPos: varPos, litFunc: map[*ast.FuncLit]*ssa.Function{}}
	curLitFunc = lt.litFunc
	sp := p.SSAPkg[pk.PkgPath]
	var addAnon func(fn *ssa.Function)
	addAnon = func(fn *ssa.Function) {
		for _, a := range fn.AnonFuncs {
			if l, ok := a.Syntax().(*ast.FuncLit); ok {
				lt.litFunc[l] = a
			}
			addAnon(a)
		}
	}
	for _, m := range sp.Members {
		if fn, ok := m.(*ssa.Function); ok {
			addAnon(fn)
		}
	}
	// methods
	for _, fd := range allFuncDecls(pk) {
		if fd.Recv != nil {
			if obj, ok := info.Defs[fd.Name].(*types.Func); ok {
				if fn := p.SSA.FuncValue(obj); fn != nil {
					addAnon(fn)
				}
			}
		}
	}
	ev := &absEval{p: p, pk: pk}
	for i, el := range list.Elts {
		r := &LexRule{Index: i, Pos: el.Pos()}
		v := ev.eval(el, map[*types.Var]*absVal{})
		if v == nil || v.kind != "rule" || v.args[0] == nil {
			r.Problem = "rule element could not be evaluated to a (pattern, action) pair"
			lt.Rules = append(lt.Rules, r)
			continue
		}
		if v.args[0].kind == "const" && v.args[0].cval.Kind() == constant.String {
			r.Pattern = constant.StringVal(v.args[0].cval)
		} else {
			r.Problem = "pattern is not a constant string"
		}
		act := v.args[1]
		r.Action = act
		switch {
		case act == nil || act.kind == "nil":
			r.NoToken = true
		case act.kind == "closure":
			fn := lt.litFunc[act.lit]
			if fn == nil {
				r.Problem = "no SSA function for action closure"
			} else {
				toks, prob := analyseTokenClosure(p, ops, fn, act.env)
				r.Tokens = toks
				if prob != "" {
					r.Problem = prob
				}
			}
		default:
			r.Problem = "action is neither nil nor a resolvable closure: " + act.String()
		}
		lt.Rules = append(lt.Rules, r)
	}
	return lt, nil
}

// analyseTokenClosure finds every `token` object built by a yqAction closure
// and what can be stored in its Operation / AssignOperation /
// CheckForPostTraverse / TokenType fields.
func analyseTokenClosure(p *Prog, ops *OpTable, fn *ssa.Function, env map[*types.Var]*absVal) ([]TokenShape, string) {
	curFactoryEnv = env
	defer func() { curFactoryEnv, curShared = nil, nil }()
	fvEnv := map[*ssa.FreeVar]*absVal{}
	for _, fv := range fn.FreeVars {
		for v, a := range env {
			if v.Pos() == fv.Pos() && v.Name() == fv.Name() {
				fvEnv[fv] = a
			}
		}
	}
	var shapes []TokenShape
	problem := ""
	for _, b := range fn.Blocks {
		for _, ins := range b.Instrs {
			al, ok := ins.(*ssa.Alloc)
			if !ok || namedTypeName(al.Type()) != "token" {
				continue
			}
			if _, isPtr := al.Type().(*types.Pointer); !isPtr {
				continue
			}
			sh := TokenShape{Flag: "false", Fn: ssaFuncName(fn)}
			curShared = &sh.Shared
			for _, ref := range *al.Referrers() {
				fa, ok := ref.(*ssa.FieldAddr)
				if !ok {
					continue
				}
				fname := fieldName(fa)
				for _, r2 := range *fa.Referrers() {
					st, ok := r2.(*ssa.Store)
					if !ok || st.Addr != fa {
						continue
					}
					switch fname {
					case "TokenType":
						sh.Kind = tokenKindName(p, st.Val, fvEnv)
					case "Operation":
						o, pr, prob := opTypesOfOperation(p, ops, fn, st.Val, fvEnv, 0)
						sh.Ops = appendOps(sh.Ops, o)
						sh.PrefTypes = append(sh.PrefTypes, pr...)
						if prob != "" {
							problem = prob
						}
					case "AssignOperation":
						o, _, prob := opTypesOfOperation(p, ops, fn, st.Val, fvEnv, 0)
						sh.AssignOps = appendOps(sh.AssignOps, o)
						if prob != "" {
							problem = prob
						}
					case "CheckForPostTraverse":
						flag, fops, prob := flagOfValue(p, ops, fn, st.Val, fvEnv)
						sh.Flag, sh.FlagOps = flag, fops
						if prob != "" {
							problem = prob
						}
					}
				}
			}
			shapes = append(shapes, sh)
		}
	}
	// tokens built by a module helper the action returns the result of (`return valueToken(…), nil`)
	if tokenHelperDepth < 3 {
		for _, b := range fn.Blocks {
			ret, ok := b.Instrs[len(b.Instrs)-1].(*ssa.Return)
			if !ok || len(ret.Results) == 0 {
				continue
			}
			var call *ssa.Call
			switch rv := ret.Results[0].(type) {
			case *ssa.Call:
				call = rv
			case *ssa.Extract:
				// return factory(args)(rawToken): (token, error) of a dynamic call
				if cc, ok := rv.Tuple.(*ssa.Call); ok {
					call = cc
				}
			}
			if call == nil {
				continue
			}
			// the result of calling the action that a factory of the package returns:
			// `return opTokenWithPrefs(op, nil, prefs)(rawToken)`
			if inner, isCall := call.Call.Value.(*ssa.Call); isCall && call.Call.StaticCallee() == nil {
				f := inner.Call.StaticCallee()
				if f != nil && f.Blocks != nil && f.Pkg != nil && f.Pkg.Pkg.Path() == p.LibPath {
					var closure *ssa.Function
					for _, fb := range f.Blocks {
						if fr, ok := fb.Instrs[len(fb.Instrs)-1].(*ssa.Return); ok && len(fr.Results) == 1 {
							rv0 := fr.Results[0]
							if ct, ok := rv0.(*ssa.ChangeType); ok {
								rv0 = ct.X
							}
							if mc, ok := rv0.(*ssa.MakeClosure); ok {
								closure, _ = mc.Fn.(*ssa.Function)
							}
						}
					}
					if closure != nil {
						env := map[*types.Var]*absVal{}
						for i, fp := range f.Params {
							v, ok := fp.Object().(*types.Var)
							if !ok || i >= len(inner.Call.Args) {
								continue
							}
							a := inner.Call.Args[i]
							if mi, isMI := a.(*ssa.MakeInterface); isMI {
								a = mi.X
							}
							switch x := a.(type) {
							case *ssa.Global:
								if gv, ok := x.Object().(*types.Var); ok {
									env[v] = &absVal{kind: "global", global: gv}
								}
							case *ssa.UnOp:
								if g, ok := x.X.(*ssa.Global); ok {
									if gv, ok := g.Object().(*types.Var); ok {
										env[v] = &absVal{kind: "global", global: gv}
									}
								}
							case *ssa.Const:
								if x.IsNil() {
									env[v] = &absVal{kind: "nil"}
								} else {
									env[v] = &absVal{kind: "const", cval: x.Value}
								}
							}
							if env[v] == nil {
								env[v] = &absVal{kind: "opaque", typ: a.Type()}
							}
						}
						tokenHelperDepth++
						saved := curFactoryEnv
						hs, prob := analyseTokenClosure(p, ops, closure, env)
						curFactoryEnv = saved
						tokenHelperDepth--
						for i := range hs {
							hs[i].Fn = ssaFuncName(fn) + "->" + hs[i].Fn
						}
						shapes = append(shapes, hs...)
						if prob != "" && problem == "" {
							problem = prob
						}
					}
				}
				continue
			}
			h := call.Call.StaticCallee()
			if h == nil || h.Blocks == nil || h.Pkg == nil || h.Pkg.Pkg.Path() != p.LibPath {
				continue
			}
			if namedTypeName(h.Signature.Results().At(0).Type()) != "token" {
				continue
			}
			tokenHelperDepth++
			saved := curFactoryEnv
			hs, prob := analyseTokenClosure(p, ops, h, nil)
			curFactoryEnv = saved
			tokenHelperDepth--
			for i := range hs {
				hs[i].Fn = ssaFuncName(fn) + "->" + hs[i].Fn
			}
			shapes = append(shapes, hs...)
			if prob != "" && problem == "" {
				problem = prob
			}
		}
	}
	if len(shapes) == 0 {
		problem = "action closure builds no token"
	}
	return shapes, problem
}

var tokenHelperDepth int

func appendOps(dst []*OpType, src []*OpType) []*OpType {
	for _, s := range src {
		dup := false
		for _, d := range dst {
			if d == s {
				dup = true
			}
		}
		if !dup {
			dst = append(dst, s)
		}
	}
	return dst
}

func fieldName(fa *ssa.FieldAddr) string {
	t := fa.X.Type()
	if pt, ok := t.Underlying().(*types.Pointer); ok {
		t = pt.Elem()
	}
	st, ok := t.Underlying().(*types.Struct)
	if !ok || fa.Field >= st.NumFields() {
		return ""
	}
	return st.Field(fa.Field).Name()
}

func fieldNameOfField(f *ssa.Field) string {
	st, ok := f.X.Type().Underlying().(*types.Struct)
	if !ok || f.Field >= st.NumFields() {
		return ""
	}
	return st.Field(f.Field).Name()
}

func tokenKindName(p *Prog, v ssa.Value, fvEnv map[*ssa.FreeVar]*absVal) string {
	var cv constant.Value
	switch x := v.(type) {
	case *ssa.Const:
		cv = x.Value
	case *ssa.FreeVar:
		if a := fvEnv[x]; a != nil && a.kind == "const" {
			cv = a.cval
		}
	case *ssa.UnOp:
		if fv, ok := x.X.(*ssa.FreeVar); ok && x.Op == token.MUL {
			if a := fvEnv[fv]; a != nil && a.kind == "const" {
				cv = a.cval
			}
		}
	case *ssa.ChangeType:
		return tokenKindName(p, x.X, fvEnv)
	case *ssa.Convert:
		return tokenKindName(p, x.X, fvEnv)
	}
	if cv == nil {
		return ""
	}
	// find the constant of type tokenType (or untyped) with that value
	sc := p.lib().Types.Scope()
	for _, n := range sc.Names() {
		if c, ok := sc.Lookup(n).(*types.Const); ok && strings.HasSuffix(n, "oken") || ok && (strings.HasPrefix(n, "open") || strings.HasPrefix(n, "close") || n == "traverseArrayCollect") {
			if constant.Compare(constant.ToInt(c.Val()), token.EQL, constant.ToInt(cv)) {
				return n
			}
		}
	}
	return cv.String()
}

// resolveOpTypeValue maps an SSA value of type *operationType to table rows.
func resolveOpTypeValue(p *Prog, ops *OpTable, v ssa.Value, fvEnv map[*ssa.FreeVar]*absVal, params map[*ssa.Parameter][]*OpType, seen map[ssa.Value]bool) ([]*OpType, string) {
	if seen[v] {
		return nil, ""
	}
	seen[v] = true
	switch x := v.(type) {
	case *ssa.UnOp:
		if x.Op == token.MUL {
			if g, ok := x.X.(*ssa.Global); ok {
				if gv, ok := g.Object().(*types.Var); ok {
					if ot := ops.ByVar[gv]; ot != nil {
						return []*OpType{ot}, ""
					}
				}
				return nil, "global " + g.Name() + " is not an operationType record"
			}
			if fv, ok := x.X.(*ssa.FreeVar); ok {
				return absToOps(ops, fvEnv[fv])
			}
			// load of a local cell: union of the stored values
			if al, ok := x.X.(*ssa.Alloc); ok {
				var out []*OpType
				for _, r := range *al.Referrers() {
					if st, ok := r.(*ssa.Store); ok && st.Addr == al {
						o, prob := resolveOpTypeValue(p, ops, st.Val, fvEnv, params, seen)
						if prob != "" {
							return nil, prob
						}
						out = appendOps(out, o)
					}
				}
				return out, ""
			}
			// load of x.OperationType of a local Operation: stores to it
			if fa, ok := x.X.(*ssa.FieldAddr); ok && fieldName(fa) == "OperationType" {
				var out []*OpType
				for _, r := range *fa.X.Referrers() {
					if fa2, ok := r.(*ssa.FieldAddr); ok && fieldName(fa2) == "OperationType" {
						for _, r2 := range *fa2.Referrers() {
							if st, ok := r2.(*ssa.Store); ok && st.Addr == fa2 {
								o, prob := resolveOpTypeValue(p, ops, st.Val, fvEnv, params, seen)
								if prob != "" {
									return nil, prob
								}
								out = appendOps(out, o)
							}
						}
					}
				}
				if len(out) > 0 {
					return out, ""
				}
			}
		}
	case *ssa.FreeVar:
		return absToOps(ops, fvEnv[x])
	case *ssa.Parameter:
		if o, ok := params[x]; ok {
			return o, ""
		}
		if b, ok := curCallBind[x]; ok {
			return resolveOpTypeValue(p, ops, b.val, b.fvEnv, params, seen)
		}
		if v, ok := x.Object().(*types.Var); ok && curFactoryEnv != nil {
			if a := curFactoryEnv[v]; a != nil {
				return absToOps(ops, a)
			}
		}
	case *ssa.Phi:
		var out []*OpType
		for _, e := range x.Edges {
			o, prob := resolveOpTypeValue(p, ops, e, fvEnv, params, seen)
			if prob != "" {
				return nil, prob
			}
			out = appendOps(out, o)
		}
		return out, ""
	case *ssa.Const:
		if x.IsNil() {
			return nil, ""
		}
	}
	return nil, fmt.Sprintf("cannot resolve operationType value %s (%T)", v.Name(), v)
}

func absToOps(ops *OpTable, a *absVal) ([]*OpType, string) {
	if a == nil {
		return nil, "unbound free variable"
	}
	switch a.kind {
	case "global":
		if ot := ops.ByVar[a.global]; ot != nil {
			return []*OpType{ot}, ""
		}
		return nil, "global " + a.global.Name() + " is not an operationType record"
	case "nil":
		return nil, ""
	}
	return nil, "free variable bound to " + a.String()
}

// opTypesOfOperation resolves the *Operation value stored in a token field to
// the operation types it can carry, and the dynamic types of its Preferences.
func opTypesOfOperation(p *Prog, ops *OpTable, fn *ssa.Function, v ssa.Value, fvEnv map[*ssa.FreeVar]*absVal, depth int) ([]*OpType, []string, string) {
	switch x := v.(type) {
	case *ssa.Const:
		if x.IsNil() {
			return nil, nil, ""
		}
	case *ssa.Phi:
		var out []*OpType
		var prefs []string
		for _, e := range x.Edges {
			o, pr, prob := opTypesOfOperation(p, ops, fn, e, fvEnv, depth)
			if prob != "" {
				return nil, nil, prob
			}
			out = appendOps(out, o)
			prefs = append(prefs, pr...)
		}
		return out, prefs, ""
	case *ssa.UnOp:
		// load of a cell captured from the factory: the Operation was built once,
		// outside the action; resolve what the factory stores into the cell
		if fv, ok := x.X.(*ssa.FreeVar); ok && x.Op == token.MUL && fn.Parent() != nil {
			if cell := boundValue(fn, fv); cell != nil {
				if al, ok := cell.(*ssa.Alloc); ok && al.Referrers() != nil {
					var out []*OpType
					var prefs []string
					for _, r := range *al.Referrers() {
						if st, ok := r.(*ssa.Store); ok && st.Addr == al {
							o, pr, prob := opTypesOfOperation(p, ops, fn.Parent(), st.Val, nil, depth+1)
							if prob != "" {
								return nil, nil, prob
							}
							out = appendOps(out, o)
							prefs = append(prefs, pr...)
							if c, isC := st.Val.(*ssa.Const); !(isC && c.IsNil()) && curShared != nil {
								*curShared = append(*curShared, fmt.Sprintf("%s (built in %s)", fv.Name(), ssaFuncName(fn.Parent())))
							}
						}
					}
					return out, prefs, ""
				}
			}
		}
		// load of a local cell holding the *Operation (var assign *Operation)
		if al, ok := x.X.(*ssa.Alloc); ok && x.Op == token.MUL {
			var out []*OpType
			var prefs []string
			for _, r := range *al.Referrers() {
				if st, ok := r.(*ssa.Store); ok && st.Addr == al {
					o, pr, prob := opTypesOfOperation(p, ops, fn, st.Val, fvEnv, depth)
					if prob != "" {
						return nil, nil, prob
					}
					out = appendOps(out, o)
					prefs = append(prefs, pr...)
				}
			}
			return out, prefs, ""
		}
	case *ssa.Alloc, *ssa.Call:
		// stores to .OperationType / .Preferences of this object in fn
		var out []*OpType
		var prefs []string
		stored := false
		for _, r := range *x.Referrers() {
			fa, ok := r.(*ssa.FieldAddr)
			if !ok || fa.X != x {
				continue
			}
			name := fieldName(fa)
			for _, r2 := range *fa.Referrers() {
				st, ok := r2.(*ssa.Store)
				if !ok || st.Addr != fa {
					continue
				}
				switch name {
				case "OperationType":
					o, prob := resolveOpTypeValue(p, ops, st.Val, fvEnv, nil, map[ssa.Value]bool{})
					if prob != "" {
						return nil, nil, prob
					}
					out = appendOps(out, o)
					stored = true
				case "Preferences":
					prefs = append(prefs, prefTypeOfValue(st.Val, fvEnv))
				}
			}
		}
		if call, ok := x.(*ssa.Call); ok {
			callee := call.Call.StaticCallee()
			if callee == nil || callee.Pkg == nil || callee.Pkg.Pkg.Path() != p.LibPath || depth > 3 {
				return nil, nil, "Operation comes from an unresolvable call " + call.String()
			}
			if !stored {
				// the callee's own allocation decides; its parameters stand for the arguments of this call
				saved := curCallBind
				curCallBind = map[*ssa.Parameter]callBinding{}
				for k, b := range saved {
					curCallBind[k] = b
				}
				for i, q := range callee.Params {
					if i < len(call.Call.Args) {
						curCallBind[q] = callBinding{call.Call.Args[i], fvEnv}
					}
				}
				defer func() { curCallBind = saved }()
				var o2 []*OpType
				for _, b := range callee.Blocks {
					for _, ins := range b.Instrs {
						if ret, ok := ins.(*ssa.Return); ok && len(ret.Results) > 0 {
							o, pr, prob := opTypesOfOperation(p, ops, callee, ret.Results[0], nil, depth+1)
							if prob != "" {
								return nil, nil, prob
							}
							o2 = appendOps(o2, o)
							if len(prefs) == 0 {
								prefs = append(prefs, pr...)
							}
						}
					}
				}
				out = o2
			}
			if len(prefs) == 0 {
				prefs = append(prefs, "nil")
			}
			return out, prefs, ""
		}
		if len(prefs) == 0 {
			prefs = append(prefs, "nil")
		}
		return out, prefs, ""
	}
	return nil, nil, fmt.Sprintf("cannot resolve Operation value %s (%T) in %s", v.Name(), v, ssaFuncName(fn))
}

// boundValue: what the enclosing function binds to free variable fv of closure fn.
func boundValue(fn *ssa.Function, fv *ssa.FreeVar) ssa.Value {
	idx := -1
	for i, f := range fn.FreeVars {
		if f == fv {
			idx = i
		}
	}
	if idx < 0 || fn.Parent() == nil {
		return nil
	}
	for _, b := range fn.Parent().Blocks {
		for _, ins := range b.Instrs {
			if mc, ok := ins.(*ssa.MakeClosure); ok && mc.Fn == ssa.Value(fn) && idx < len(mc.Bindings) {
				return mc.Bindings[idx]
			}
		}
	}
	return nil
}

// callBinding: while the body of a helper that builds an Operation is examined,
// what the call under examination passes for each of its parameters.
type callBinding struct {
	val   ssa.Value
	fvEnv map[*ssa.FreeVar]*absVal
}

var curCallBind map[*ssa.Parameter]callBinding

// curLitFunc: the SSA function of each function literal of the lexer file (set while the table is built).
var curLitFunc map[*ast.FuncLit]*ssa.Function

func prefTypeOfValue(v ssa.Value, fvEnv map[*ssa.FreeVar]*absVal) string {
	switch x := v.(type) {
	case *ssa.Parameter:
		if b, ok := curCallBind[x]; ok {
			return prefTypeOfValue(b.val, b.fvEnv)
		}
		if vv, ok := x.Object().(*types.Var); ok && curFactoryEnv != nil {
			if a := curFactoryEnv[vv]; a != nil {
				switch a.kind {
				case "nil":
					return "nil"
				}
				if a.typ != nil {
					return types.TypeString(a.typ, func(*types.Package) string { return "" })
				}
			}
		}
	case *ssa.MakeInterface:
		return types.TypeString(x.X.Type(), func(*types.Package) string { return "" })
	case *ssa.Const:
		if x.IsNil() {
			return "nil"
		}
	case *ssa.FreeVar:
		if a := fvEnv[x]; a != nil {
			if a.kind == "nil" {
				return "nil"
			}
			if a.typ != nil {
				return types.TypeString(a.typ, func(*types.Package) string { return "" })
			}
		}
	case *ssa.UnOp:
		if fv, ok := x.X.(*ssa.FreeVar); ok {
			return prefTypeOfValue(fv, fvEnv)
		}
	case *ssa.Call:
		// `toPrefs(number)`: the preferences are built by a function value the factory was given
		var lit *ast.FuncLit
		switch cv := x.Call.Value.(type) {
		case *ssa.FreeVar:
			if a := fvEnv[cv]; a != nil && a.kind == "closure" {
				lit = a.lit
			}
		case *ssa.UnOp:
			if fv, ok := cv.X.(*ssa.FreeVar); ok {
				if a := fvEnv[fv]; a != nil && a.kind == "closure" {
					lit = a.lit
				}
			}
		case *ssa.Parameter:
			if vv, ok := cv.Object().(*types.Var); ok && curFactoryEnv != nil {
				if a := curFactoryEnv[vv]; a != nil && a.kind == "closure" {
					lit = a.lit
				}
			}
		}
		if lit != nil && curLitFunc != nil {
			if f := curLitFunc[lit]; f != nil {
				out := ""
				for _, b := range f.Blocks {
					if ret, ok := b.Instrs[len(b.Instrs)-1].(*ssa.Return); ok && len(ret.Results) == 1 {
						t := prefTypeOfValue(ret.Results[0], nil)
						if out != "" && out != t {
							return "?"
						}
						out = t
					}
				}
				if out != "" {
					return out
				}
			}
		}
	}
	return "?"
}

func flagOfValue(p *Prog, ops *OpTable, fn *ssa.Function, v ssa.Value, fvEnv map[*ssa.FreeVar]*absVal) (string, []*OpType, string) {
	switch x := v.(type) {
	case *ssa.Const:
		if x.Value != nil && x.Value.Kind() == constant.Bool {
			if constant.BoolVal(x.Value) {
				return "true", nil, ""
			}
			return "false", nil, ""
		}
	case *ssa.FreeVar:
		if a := fvEnv[x]; a != nil && a.kind == "const" && a.cval.Kind() == constant.Bool {
			if constant.BoolVal(a.cval) {
				return "true", nil, ""
			}
			return "false", nil, ""
		}
		// the factory was handed `someOpType.CheckForPostTraverse`
		if a := fvEnv[x]; a != nil && a.kind == "opaque" && a.expr != nil {
			if sel, ok := a.expr.(*ast.SelectorExpr); ok && sel.Sel.Name == "CheckForPostTraverse" {
				if id, ok := sel.X.(*ast.Ident); ok {
					for gv, ot := range ops.ByVar {
						if gv.Name() == id.Name {
							return "bytype", []*OpType{ot}, ""
						}
					}
				}
			}
		}
	case *ssa.UnOp:
		if x.Op == token.MUL {
			if fv, ok := x.X.(*ssa.FreeVar); ok {
				return flagOfValue(p, ops, fn, fv, fvEnv)
			}
			if fa, ok := x.X.(*ssa.FieldAddr); ok && fieldName(fa) == "CheckForPostTraverse" {
				o, prob := resolveOpTypeValue(p, ops, fa.X, fvEnv, nil, map[ssa.Value]bool{})
				if prob != "" {
					return "", nil, prob
				}
				return "bytype", o, ""
			}
		}
	}
	return "", nil, fmt.Sprintf("cannot resolve CheckForPostTraverse value %s in %s", v.Name(), ssaFuncName(fn))
}
