package main

import (
	"fmt"
	"go/token"
	"strings"

	"golang.org/x/tools/go/ssa"
)

// C10 — per-document processing.

func init() {
	register("C10", "Decides structural necessary conditions of 'documents are processed one by one, in order, independently, with true provenance': (S1) in streamEvaluator.Evaluate and readDocuments every path from a successful Decode to the use of the node passes the three provenance stores (document, filename, fileIndex) with the right sources, the document counter is a loop-carried value incremented exactly once per iteration after the document was consumed, the file counter once per file; (S2) the Context given to GetMatchingNodes in the per-document loop is built from a list created inside the iteration, and PrintResults is called once per iteration on that evaluation's result; (S3, engine E1) the shared expression tree carries nothing from one evaluation to the next: handlers store into objects reached from their expressionNode parameter only document-independent values that are written before they are read, and no handler returns a node of the expression tree itself (literals are copied on use); (S4) every decoder field written by Decode is reset by Init. (S7) printedMatches is never read to decide what is printed; handed-over encoder fields are stored on every path. Does NOT decide separator placement nor eval/eval-all agreement.", runC10)
}

func runC10(c *Ctx) {
	r := c.R
	r.Rule("S1", "provenance stamped on every decoded document; counters advance once", 9)
	r.Rule("S2", "fresh context per document; one print per evaluation", 3)
	r.Rule("S3", "the shared expression tree carries no state between evaluations", 100)
	r.Rule("S4", "decoder state written by Decode is reset by Init", 8)
	c.P.buildSSA()

	ev := c.libFunc("streamEvaluator.Evaluate")
	rd := c.libFunc("readDocuments")
	if ev == nil || rd == nil {
		r.Fatal("anchor missing: (*streamEvaluator).Evaluate / readDocuments")
		return
	}
	for _, fn := range []*ssa.Function{ev, rd} {
		checkProvenance(c, fn)
	}
	checkFileCounter(c, ev)
	checkDocTotal(c)
	checkAllAtOnceFileCounter(c)
	checkProvenanceReads(c)
	checkS2(c, ev)
	ruleS3(c, "S3")
	ruleS4(c, "S4")
	ruleG9(c, "S5")
	ruleG10(c, "S6")
	ruleG11(c, "S7")
}

// checkProvenance: Decode -> (document, filename, fileIndex stores) -> use.
func checkProvenance(c *Ctx, fn *ssa.Function) {
	r := c.R
	var decode *ssa.Call
	eachInstr(fn, func(ins ssa.Instruction) {
		if call, ok := ins.(*ssa.Call); ok && call.Call.IsInvoke() && call.Call.Method.Name() == "Decode" {
			decode = call
		}
	})
	if decode == nil {
		r.Fatal("anchor moved: no Decode call in %s", funcKey(fn))
		return
	}
	var node ssa.Value
	for _, ref := range *decode.Referrers() {
		if ex, ok := ref.(*ssa.Extract); ok && ex.Index == 0 {
			node = ex
		}
	}
	if node == nil {
		r.Fatal("anchor moved: decoded node unused in %s", funcKey(fn))
		return
	}
	// consumer: PushBack(node) onto a list (the evaluation input / the document list)
	var consumers []ssa.Instruction
	for _, ref := range *node.Referrers() {
		if mi, ok := ref.(*ssa.MakeInterface); ok {
			for _, r2 := range *mi.Referrers() {
				if call, ok := r2.(*ssa.Call); ok && call.Call.StaticCallee() != nil && call.Call.StaticCallee().Name() == "PushBack" {
					consumers = append(consumers, call)
				}
			}
		}
	}
	// … or hands it to a module function that evaluates / collects it
	for _, ref := range *node.Referrers() {
		if call, ok := ref.(*ssa.Call); ok && call.Call.StaticCallee() != nil && call.Call.StaticCallee().Blocks != nil {
			if strings.HasPrefix(funcKey(call.Call.StaticCallee()), "yqlib.") && !strings.HasPrefix(call.Call.StaticCallee().Name(), "Set") {
				for _, a := range call.Call.Args {
					if a == node {
						consumers = append(consumers, call)
					}
				}
			}
		}
	}
	if len(consumers) == 0 {
		r.Fatal("anchor moved: decoded node is neither pushed onto a list nor handed to an evaluation helper in %s", funcKey(fn))
		return
	}
	fields := map[string]func(v ssa.Value) (bool, string){
		"document": func(v ssa.Value) (bool, string) {
			// loop-carried counter: phi(0, phi+1)
			phi, ok := v.(*ssa.Phi)
			if !ok {
				return false, "document is not set from the loop-carried document counter"
			}
			zero, inc := 0, 0
			for _, e := range phi.Edges {
				if isZeroConst(e) {
					zero++
				} else if bo, ok := e.(*ssa.BinOp); ok && bo.Op == token.ADD && bo.X == ssa.Value(phi) {
					if k, ok := constInt64(bo.Y); ok && k == 1 {
						inc++
					}
				}
			}
			if zero == 1 && inc == 1 && len(phi.Edges) == 2 {
				return true, "document := counter; counter is phi(0, counter+1): starts at 0 per file and advances exactly once per iteration"
			}
			return false, fmt.Sprintf("document counter is not phi(0, counter+1) (edges: %d zero, %d increment of %d)", zero, inc, len(phi.Edges))
		},
		"filename": func(v ssa.Value) (bool, string) {
			if p, ok := v.(*ssa.Parameter); ok {
				return true, "filename := parameter " + p.Name()
			}
			return false, "filename is not the function's filename parameter"
		},
		"fileIndex": func(v ssa.Value) (bool, string) {
			if p, ok := v.(*ssa.Parameter); ok {
				return true, "fileIndex := parameter " + p.Name()
			}
			if u, ok := v.(*ssa.UnOp); ok && u.Op == token.MUL {
				if fa, ok := u.X.(*ssa.FieldAddr); ok && fieldName(fa) == "fileIndex" {
					return true, "fileIndex := receiver's file counter"
				}
			}
			return false, "fileIndex is neither the parameter nor the evaluator's file counter"
		},
	}
	for _, fname := range []string{"document", "filename", "fileIndex"} {
		isStore := func(ins ssa.Instruction) bool {
			st, ok := ins.(*ssa.Store)
			if !ok {
				return false
			}
			fa, ok := st.Addr.(*ssa.FieldAddr)
			return ok && fa.X == node && fieldName(fa) == fname
		}
		key := fmt.Sprintf("%s/stamp %s", funcKey(fn), fname)
		bad := false
		for _, cons := range consumers {
			if pathAvoiding(fn, decode.Block(), instrIndex(decode)+1, cons.Block(), instrIndex(cons), isStore) {
				r.Finding("S1", key, c.P.pos(cons.Pos()), "a decoded document can be used without "+fname+" having been stamped: document_index/file_index/filename report a wrong origin")
				bad = true
			}
		}
		if bad {
			continue
		}
		// the stored value
		var okv bool
		var why string
		eachInstr(fn, func(ins ssa.Instruction) {
			if isStore(ins) {
				okv, why = fields[fname](ins.(*ssa.Store).Val)
			}
		})
		if okv {
			r.Discharge("S1", key, c.P.pos(decode.Pos()), "stamped on every path before use; "+why)
		} else {
			r.Finding("S1", key, c.P.pos(decode.Pos()), why)
		}
	}
	// the increment happens after the document has been consumed (print / push)
	eachInstr(fn, func(ins ssa.Instruction) {
		bo, ok := ins.(*ssa.BinOp)
		if !ok || bo.Op != token.ADD {
			return
		}
		phi, ok := bo.X.(*ssa.Phi)
		if !ok {
			return
		}
		if k, ok := constInt64(bo.Y); !ok || k != 1 {
			return
		}
		feeds := false
		for _, e := range phi.Edges {
			if e == ssa.Value(bo) {
				feeds = true
			}
		}
		if !feeds {
			return
		}
		key := fmt.Sprintf("%s/counter-increment-after-use", funcKey(fn))
		after := false
		for _, cons := range consumers {
			if cons.Block().Dominates(bo.Block()) {
				after = true
			}
		}
		if after {
			r.Discharge("S1", key, c.P.pos(bo.Pos()), "counter advances after the document was handed on")
		} else {
			r.Finding("S1", key, c.P.pos(bo.Pos()), "document counter advances on a path that did not consume a document")
		}
	})
}

// checkFileCounter: s.fileIndex is incremented exactly at the EOF return.
func checkFileCounter(c *Ctx, fn *ssa.Function) {
	r := c.R
	n := 0
	eachInstr(fn, func(ins ssa.Instruction) {
		st, ok := ins.(*ssa.Store)
		if !ok {
			return
		}
		fa, ok := st.Addr.(*ssa.FieldAddr)
		if !ok || fieldName(fa) != "fileIndex" {
			return
		}
		if _, isParam := fa.X.(*ssa.Parameter); !isParam {
			return
		}
		n++
		key := funcKey(fn) + "/file-counter"
		bo, ok := st.Val.(*ssa.BinOp)
		inc := ok && bo.Op == token.ADD
		if inc {
			k, ok := constInt64(bo.Y)
			inc = ok && k == 1
		}
		// in a block that returns (end of file), guarded by errors.Is(err, io.EOF)
		_, returns := st.Block().Instrs[len(st.Block().Instrs)-1].(*ssa.Return)
		eof := false
		dominatingConds(st.Block(), func(cond ssa.Value, taken bool, at *ssa.BasicBlock) {
			if call, ok := cond.(*ssa.Call); ok && taken && calleeName(&call.Call) == "errors.Is" {
				eof = true
			}
		})
		if inc && returns && eof {
			r.Discharge("S1", key, c.P.pos(st.Pos()), "file counter += 1 exactly once, at end of file")
		} else {
			r.Finding("S1", key, c.P.pos(st.Pos()), "file counter is not incremented exactly once at end of file")
		}
	})
	if n == 0 {
		r.Finding("S1", funcKey(fn)+"/file-counter", c.P.pos(fn.Pos()), "file counter is never advanced: every file reports file_index 0")
	}
}

// checkS2: context built inside the iteration; one PrintResults per evaluation.
func checkS2(c *Ctx, fn *ssa.Function) {
	r := c.R
	// the evaluation may sit in the loop itself or in a helper the loop hands the decoded node to
	hasEval := func(f *ssa.Function) bool {
		found := false
		eachInstr(f, func(ins ssa.Instruction) {
			if call, ok := ins.(*ssa.Call); ok && call.Call.IsInvoke() && call.Call.Method.Name() == "GetMatchingNodes" {
				found = true
			}
		})
		return found
	}
	if hasEval(fn) {
		checkS2In(c, funcKey(fn), fn, true)
		return
	}
	var helperCall *ssa.Call
	eachInstr(fn, func(ins ssa.Instruction) {
		if call, ok := ins.(*ssa.Call); ok && call.Call.StaticCallee() != nil && call.Call.StaticCallee().Blocks != nil && hasEval(call.Call.StaticCallee()) {
			helperCall = call
		}
	})
	if helperCall == nil {
		r.Fatal("anchor moved: no evaluation (GetMatchingNodes) in %s or in a helper it calls", funcKey(fn))
		return
	}
	helper := helperCall.Call.StaticCallee()
	if passesEvaluationThrough(helper) {
		// the helper only evaluates (builds the per-document context and returns the
		// evaluator's result and error unchanged); printing stays in the loop
		checkS2Parts(c, funcKey(fn), helper, false, nil, true)
		checkS2Parts(c, funcKey(fn), fn, true, helperCall, false)
		return
	}
	checkS2In(c, funcKey(fn), helper, false)
	key := funcKey(fn) + "/error-stops " + helperCall.Call.StaticCallee().Name()
	if errorReachesReturn(helperCall, 0) {
		r.Discharge("S2", key, c.P.pos(helperCall.Pos()), "the helper's error is returned")
	} else {
		r.Finding("S2", key, c.P.pos(helperCall.Pos()), "the error of the per-document evaluation does not reach a return: processing continues after a failed document")
	}
}

// checkS2In analyses the function that holds the evaluation of one document.
// needDecode: the function is the loop itself (the fresh list must be created after Decode);
// otherwise it is a helper called once per document (everything it creates is per document).
func checkS2In(c *Ctx, keyFn string, fn *ssa.Function, needDecode bool) {
	checkS2Parts(c, keyFn, fn, needDecode, nil, false)
}

// passesEvaluationThrough: every return of f hands back, unchanged, the two
// results of a GetMatchingNodes call made in f.
func passesEvaluationThrough(f *ssa.Function) bool {
	if f.Signature.Results().Len() != 2 {
		return false
	}
	n := 0
	for _, b := range f.Blocks {
		ret, ok := b.Instrs[len(b.Instrs)-1].(*ssa.Return)
		if !ok {
			continue
		}
		n++
		if len(ret.Results) != 2 {
			return false
		}
		for i, rv := range ret.Results {
			ex, ok := rv.(*ssa.Extract)
			if !ok || ex.Index != i {
				return false
			}
			call, ok := ex.Tuple.(*ssa.Call)
			if !ok || !call.Call.IsInvoke() || call.Call.Method.Name() != "GetMatchingNodes" {
				return false
			}
		}
	}
	return n > 0
}

// checkS2Parts: evalCall, when given, is the call in fn that stands for the
// evaluation (a helper that passes the evaluator's results through); onlyFresh
// restricts the check to the construction of the context.
func checkS2Parts(c *Ctx, keyFn string, fn *ssa.Function, needDecode bool, evalCall *ssa.Call, onlyFresh bool) {
	r := c.R
	var decode, gm *ssa.Call
	var prints []*ssa.Call
	gm = evalCall
	eachInstr(fn, func(ins ssa.Instruction) {
		call, ok := ins.(*ssa.Call)
		if !ok || !call.Call.IsInvoke() {
			return
		}
		if call.Call.Method.Name() == "GetMatchingNodes" && evalCall != nil {
			return
		}
		switch call.Call.Method.Name() {
		case "Decode":
			decode = call
		case "GetMatchingNodes":
			gm = call
		case "PrintResults":
			prints = append(prints, call)
		}
	})
	if gm == nil || (needDecode && decode == nil) {
		r.Fatal("anchor moved: Decode/GetMatchingNodes not found in %s", funcKey(fn))
		return
	}
	// the Context argument: a struct whose MatchingNodes is a list.New() created after Decode
	ctxArg := gm.Call.Args[0]
	fresh := false
	var walk func(v ssa.Value, d int)
	walk = func(v ssa.Value, d int) {
		if d > 6 {
			return
		}
		switch x := v.(type) {
		case *ssa.UnOp:
			walk(x.X, d+1)
		case *ssa.Alloc:
			for _, ref := range *x.Referrers() {
				if fa, ok := ref.(*ssa.FieldAddr); ok && fieldName(fa) == "MatchingNodes" {
					for _, r2 := range *fa.Referrers() {
						if st, ok := r2.(*ssa.Store); ok {
							walk(st.Val, d+1)
						}
					}
				}
			}
		case *ssa.Call:
			if calleeName(&x.Call) == "container/list.New" && (decode == nil || decode.Block().Dominates(x.Block())) {
				fresh = true
			}
		}
	}
	walk(ctxArg, 0)
	if evalCall != nil {
		// the context is built inside the helper and judged there
	} else if fresh {
		r.Discharge("S2", keyFn+"/fresh-context", c.P.pos(gm.Pos()), "evaluation context is a literal over a list created inside the iteration (after Decode)")
	} else {
		r.Finding("S2", keyFn+"/fresh-context", c.P.pos(gm.Pos()), "evaluation context is not built from a list created in this iteration: results of document k can depend on earlier documents")
	}
	if onlyFresh {
		return
	}
	// variables map etc. must not be carried: no other field of the context literal is set from a loop phi
	if len(prints) == 1 && gm.Block().Dominates(prints[0].Block()) {
		// printed value derives from this evaluation's result
		from := false
		var w2 func(v ssa.Value, d int)
		w2 = func(v ssa.Value, d int) {
			if d > 6 {
				return
			}
			switch x := v.(type) {
			case *ssa.Extract:
				if x.Tuple == ssa.Value(gm) {
					from = true
				}
			case *ssa.UnOp:
				w2(x.X, d+1)
			case *ssa.Field:
				w2(x.X, d+1)
			case *ssa.FieldAddr:
				w2(x.X, d+1)
			case *ssa.Alloc:
				for _, ref := range *x.Referrers() {
					if st, ok := ref.(*ssa.Store); ok && st.Addr == ssa.Value(x) {
						w2(st.Val, d+1)
					}
				}
			}
		}
		w2(prints[0].Call.Args[0], 0)
		if from {
			r.Discharge("S2", keyFn+"/print-once", c.P.pos(prints[0].Pos()), "exactly one PrintResults per iteration, on the result of this iteration's evaluation")
		} else {
			r.Finding("S2", keyFn+"/print-once", c.P.pos(prints[0].Pos()), "PrintResults does not print this iteration's evaluation result")
		}
	} else {
		r.Finding("S2", keyFn+"/print-once", c.P.pos(gm.Pos()), fmt.Sprintf("expected exactly one PrintResults call after the evaluation, found %d", len(prints)))
	}
	// a failed print / evaluation ends the run (no `continue` past an error)
	for _, call := range append([]*ssa.Call{gm}, prints...) {
		name := "GetMatchingNodes" // a pass-through helper stands for the evaluation
		if call.Call.IsInvoke() {
			name = call.Call.Method.Name()
		}
		key := keyFn + "/error-stops " + name
		if errorReachesReturn(call, 0) {
			r.Discharge("S2", key, c.P.pos(call.Pos()), "its error is returned")
		} else {
			r.Finding("S2", key, c.P.pos(call.Pos()), "its error does not reach a return: processing continues after a failed document")
		}
	}
}

// checkDocTotal: the "no document at all" fallback of EvaluateFiles tests a
// total accumulated over every file: phi(0, total + processed).
func checkDocTotal(c *Ctx) {
	r := c.R
	fn := c.libFunc("streamEvaluator.EvaluateFiles")
	if fn == nil {
		r.Fatal("anchor missing: (*streamEvaluator).EvaluateFiles")
		return
	}
	var evalCall *ssa.Call
	eachInstr(fn, func(ins ssa.Instruction) {
		if call, ok := ins.(*ssa.Call); ok && call.Call.StaticCallee() != nil && call.Call.StaticCallee().Name() == "Evaluate" {
			evalCall = call
		}
	})
	n := 0
	eachInstr(fn, func(ins ssa.Instruction) {
		ifi, ok := ins.(*ssa.If)
		if !ok {
			return
		}
		bo, ok := ifi.Cond.(*ssa.BinOp)
		if !ok || bo.Op != token.EQL || !isZeroConst(bo.Y) {
			return
		}
		phi, ok := bo.X.(*ssa.Phi)
		if !ok {
			return
		}
		n++
		key := "EvaluateFiles/total-documents"
		acc := false
		for _, e := range phi.Edges {
			if add, ok := e.(*ssa.BinOp); ok && add.Op == token.ADD && (add.X == ssa.Value(phi) || add.Y == ssa.Value(phi)) {
				other := add.Y
				if add.Y == ssa.Value(phi) {
					other = add.X
				}
				if ex, ok := other.(*ssa.Extract); ok && evalCall != nil && ex.Tuple == ssa.Value(evalCall) {
					acc = true
				}
			}
		}
		if acc {
			r.Discharge("S1", key, c.P.pos(bo.Pos()), "the fallback to a null document tests the sum of the documents of all files")
		} else {
			r.Finding("S1", key, c.P.pos(bo.Pos()), "the `no documents` fallback does not test a total accumulated over all files: an empty last file appends a spurious null document (N inputs give N+1 outputs)")
		}
	})
	if n == 0 {
		r.Note("S1: EvaluateFiles has no zero-documents fallback test any more")
	}
}

// checkAllAtOnceFileCounter: in allAtOnceEvaluator.EvaluateFiles the file
// index handed to readDocuments is the loop-carried counter phi(0, counter+1):
// every way round the loop over the file names adds exactly one.
func checkAllAtOnceFileCounter(c *Ctx) {
	r := c.R
	fn := c.libFunc("allAtOnceEvaluator.EvaluateFiles")
	if fn == nil {
		r.Fatal("anchor missing: (*allAtOnceEvaluator).EvaluateFiles")
		return
	}
	var rd *ssa.Call
	eachInstr(fn, func(ins ssa.Instruction) {
		if call, ok := ins.(*ssa.Call); ok && call.Call.StaticCallee() != nil && call.Call.StaticCallee().Name() == "readDocuments" {
			rd = call
		}
	})
	key := "allAtOnceEvaluator.EvaluateFiles/file-counter"
	if rd == nil || len(rd.Call.Args) < 3 {
		r.Fatal("anchor moved: no readDocuments(reader, filename, fileIndex, decoder) call in EvaluateFiles")
		return
	}
	idx := rd.Call.Args[2]
	phi, ok := idx.(*ssa.Phi)
	if !ok {
		r.Finding("S1", key, c.P.pos(rd.Pos()), fmt.Sprintf("the file index passed to readDocuments (%s) is not a loop-carried counter", exprOfValue(idx)))
		return
	}
	for _, e := range phi.Edges {
		if k, isK := constInt64(e); isK && k == 0 {
			continue
		}
		if b, off := idxPlus(e); b == ssa.Value(phi) && off == 1 {
			continue
		}
		r.Finding("S1", key, c.P.pos(rd.Pos()), fmt.Sprintf("the file index is not phi(0, index+1): one way round the loop over the file names carries %s, so some file is numbered like its predecessor (file_index and eval/eval-all agreement break after an empty file)", exprOfValue(e)))
		return
	}
	r.Discharge("S1", key, c.P.pos(rd.Pos()), "file index = phi(0, index+1): every file, empty or not, takes one number")
}

// checkProvenanceReads: only document roots carry document / filename /
// fileIndex; the accessors walk up to the root. Reading the field of an
// arbitrary node directly yields the zero value below the root.
func checkProvenanceReads(c *Ctx) {
	r := c.R
	allowed := map[string]bool{
		"yqlib.CandidateNode.GetDocument": true, "yqlib.CandidateNode.GetFilename": true, "yqlib.CandidateNode.GetFileIndex": true,
		"yqlib.CandidateNode.doCopy": true,
	}
	n := 0
	for _, fn := range c.moduleFuncs() {
		seen := map[string]int{}
		eachInstr(fn, func(ins ssa.Instruction) {
			u, ok := ins.(*ssa.UnOp)
			if !ok || u.Op != token.MUL {
				return
			}
			fa, ok := u.X.(*ssa.FieldAddr)
			if !ok || structNameOfPtr(fa.X.Type()) != "CandidateNode" {
				return
			}
			f := fieldName(fa)
			if f != "document" && f != "filename" && f != "fileIndex" {
				return
			}
			n++
			key := fmt.Sprintf("%s/read(%s)", funcKey(fn), f)
			seen[key]++
			if seen[key] > 1 {
				key = fmt.Sprintf("%s#%d", key, seen[key])
			}
			if allowed[funcKey(fn)] {
				r.Discharge("S1", key, c.P.pos(u.Pos()), "accessor / copy")
			} else {
				r.Finding("S1", key, c.P.pos(u.Pos()), fmt.Sprintf("reads the node's own %s field; only document roots carry it (the accessor walks up to the root), so below the root this is the zero value: a result built here is stamped as document/file 0", f))
			}
		})
	}
	if n < 6 {
		r.Fatal("anchor moved: fewer than 6 reads of the provenance fields found (%d)", n)
	}
}
