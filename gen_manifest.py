#!/usr/bin/env python3
# Regenerates MANIFEST.json from the table below (kept here so the manifest stays consistent).
import json
GO = "GOFLAGS=-mod=mod GOPROXY=off GOSUMDB=off GOTOOLCHAIN=local"
claimed = {}
def claim(pid, text, note, technique, ref):
    claimed[pid] = dict(text=text, note=note, technique=technique, ref=ref)

TB = "Trusted: go/packages+go/types loading of /repo with default build tags (+verif), go/ssa construction (x/tools v0.29.0), and the rule implementations in /verif/checker. Decides only the structural clauses named; the value-level statement of the property is not decided."

claim("C09",
 "Static table/guard analysis: decides, over every operator the lexer can emit (resolved from the rule table and its factory closures through SSA), the precedence relations that are necessary for 'expression == its parenthesised form' (atoms and prefix functions outrank infix and implicit post-traverse operators; infix order equals the reference precedence order; shunting-yard pops on strictly greater), layout facts computed on the rule regexes (whitespace class, comment rule, non-nullable rules, layout/delimiter characters end a bare path token), and the rejection guards of ConvertToPostfix/createExpressionTree by interval reasoning over len(stack); implicit operators inserted by token post-processing outrank every written infix operator; a constant rewrite of an expression read from a file keeps its line feeds; no operator rule ends in an optional class of letters that begin other tokens (four known findings on the pinned tree: the flag suffixes of `=`, `|=`, `*`, `*=` swallow the first letter of a following keyword); the implied slice start is supplied only after `.[`; a token whose lexeme ends with `)` is flagged CheckForPostTraverse like the `)` token (four known findings: to_yaml(N), to_xml(N), to_json(N), envsubst(..) reject a `.k`/`[k]` that their parenthesised form accepts). A necessary-condition check: breaking any obligation changes a parse for some expression.",
 TB + " T4's reference order is the documented precedence table kept as a relation.",
 "static analysis: operator/lexer table extraction (AST+SSA abstract evaluation of rule factories), regex language tests, dominator-based interval reasoning over len()",
 "DESIGN.md §3 C09")

claim("C15",
 "Static comparator discipline: over every function reachable (call graph) from a sort.Interface Less method or the COMPARE/MIN/MAX handlers, and over the whole module, no ordering decision is taken from the sign of an integer difference (overflow => not antisymmetric); no explicit panic is reachable from a comparator; node arrays are sorted only with stable sort entry points; the sorted result is rebuilt from every element; both comparators parse numbers with the same functions; Less compares no node text itself; the Context returned by one evaluation is never the context of another (75 sites, 2 tabled), so settings made inside one expression cannot change how a sibling orders values; time.Time values are never compared with ==. Necessary conditions of antisymmetry, totality (no crash) and stability/permutation.",
 TB + " Call graph: CHA (quick), VTA (thorough).",
 "static analysis: SSA value-flow pattern (difference -> sign test, across calls), call-graph reachability of panic, who-may-call on sort entry points, control-dependence of the rebuild loop",
 "DESIGN.md §3 C15")

claim("C17",
 "Static character-class and taint analysis: the set of runes @sh leaves unquoted is computed from the unsafeChars regex constant and from the shape of shouldQuote (every returned value is `true` or the regex verdict) and must be a subset of the POSIX-inert set; the -o=shell name mapper and value-bypass predicates are evaluated exactly by a rune-set algebra over their syntax (comparisons of the rune or of a term built by narrowing conversions / bit operations / arithmetic with constants, whose preimage over the finite rune domain is computed exactly; &&, ||, !, if-return, switch, single definitions) and must stay within [A-Za-z0-9_]; the quoted form of quoteValue must be '..' with a valid quote idiom; scalar text reaches a writer only through the sanitisers (value-flow over SSA); the format operand of every Printf-family call is constant (data is never a format string); no string byte is written as a rune; every name component of -o=shell passes through appendPath. Necessary conditions: one unsafe rune in a safe class is an injection for the string consisting of it.",
 TB + " POSIX shell quoting rules (inert set, the two quote idioms) are the reference.",
 "static analysis: regex class computed from the source constant, exact rune-set abstract interpretation of predicate syntax, SSA return-leaf and taint-flow rules",
 "DESIGN.md §3 C17")

claim("C19",
 "Static error-discipline and exit-path analysis over the whole module: every call with an error result is an obligation (dropped / swallowed `if err != nil { return nil }`, also through `break` or a jump to a bare `return nil` / a result nil-tested before its error is looked at / recovered-and-lost are findings); every locally created buffering writer must be flushed, with the error observed, on every non-error exit that follows a write (path search on the SSA CFG); in both RunE siblings the evaluation error must reach the returned value, completedSuccessfully must be `err == nil` of it, deferred steps may set the command error only when it is nil, main must exit non-zero under Execute() != nil; the -e test must guard the success exit, the printedMatches flag must be monotone and is read only by its accessor and its own update; the siblings must call the same set-up functions; the -n route must not reach readStream/os.Stdin; decoder state written by Decode must be reset by Init; nothing silences or redirects cobra's error echo; the TOML decoder consults its parser's accumulated error before every success return. Necessary conditions: each obligation, when broken, yields exit 0 (or a wrong -e status) for some failing run.",
 TB + " Accepted ignored-error sites are an explicit one-line-reason table in rules_c19.go.",
 "static analysis: SSA error-result use analysis, dominator-guard recognition, CFG must-pass-through (flush pairing), sibling call-set comparison, static call-graph reachability",
 "DESIGN.md §3 C19")

claim("C12",
 "Static protocol analysis of the in-place write path: a census of every file-system-mutating call in the module against a closed role table (an unlisted function/callee pair is a violation); who-may-call and dominance rules — the target-writing steps are reachable only through FinishWriteInPlace on its evaluatedSuccessfully branch, which is invoked only from the deferred closures of the two RunE functions, under cmdError == nil, with completedSuccessfully = (evaluation error == nil); no truncating open of the target (one known finding: the cross-device fallback); must-pass-through of Chmod(temp, os.Stat(target).Mode()) (not Lstat) before every success return of CreateTempFile, and every Chmod in the module sets a FileInfo's Mode() unmodified (no masked or computed mode); the printer's flush error is returned; the handler's target path is its constructor argument, unchanged. Necessary conditions only: crash points and injected faults are not explored (that needs a different technique).",
 TB + " The role table in rules_c12.go is the reference for what each FS call is for.",
 "static analysis: call census against a role table, who-may-call over static callers, dominator-guard recognition, CFG must-pass-through",
 "DESIGN.md §3 C12")

claim("C08",
 "Inter-procedural mutation-footprint analysis (engine E1): for each of the ~92 non-update operator handlers discovered from the operationType table, context-sensitive summaries (parameter/free-variable/global roots, fresh objects with separate container / Content / Key / back-edge contents, callbacks, interface dispatch over module implementations, locally built dynamic evaluations) show that no store reaches a node of the handler's context unless dominated by a !DontAutoCreate test; Context-deriving methods keep the read-only flag, WritableClone is the single escalation point and a writable context never meets a user sub-expression; the 42 operand evaluations that are read-only on the pinned tree (incl. the `as` binder and `select`) must stay read-only; no node takes another node's children as they are (a scratch copy sharing children with the document is the document under a second name); `|` returns its own context around the right side's results (no writable context escapes); every Context a deriving method can return had the read-only flag stored on every path; a Context literal inside a handler copies the flag. `as $v` binds a Copy() of every matched node — no test on the node itself stands before the copy. Necessary conditions: an unguarded store into an input node is visible in `(E) as $x | .`.",
 TB + " E1 is flow-insensitive per function and collapses objects per allocation site; foreign functions are assumed not to write CandidateNode fields. The read-only reference table (ref_readonly.go) is the set of sites confirmed on the pinned tree.",
 "static analysis: summary-based provenance/mutation-footprint analysis over go/ssa with dominator guards; evaluation-site census against a confirmed reference",
 "DESIGN.md §2.2, §3 C08")

claim("C10",
 "Static loop-shape and state analysis of the per-document pipeline: in streamEvaluator.Evaluate and readDocuments every path from Decode to the use of the node passes the three provenance stores with the right sources (CFG must-pass-through), the document counter is the loop-carried phi(0, counter+1) advanced after the document was consumed, the file counter advances once at EOF; the evaluation context is built from a list created inside the iteration and exactly one PrintResults prints this iteration's result; (engine E1) no handler stores document-dependent or late values into objects of the shared parsed expression tree and no handler except REF returns a node of that tree (literals are copied on use); every decoder field written by Decode is reset by Init; the zero-documents fallback tests a total accumulated over all files; the all-at-once file index is phi(0, index+1); provenance fields are read only through their accessors; encoders keep no state between results (3 tabled fields); the printer hands the leading content of every result to the encoder unconditionally. The exit-status flag printedMatches is read only by its accessor and its own update (never to decide separators), and a field an encoder receives anew for every result (xml leading content) is stored on every path of the receiving method. Necessary conditions of document independence and true provenance.",
 TB,
 "static analysis: CFG must-pass-through, SSA phi-shape recognition, summary-based mutation-footprint analysis (E1) rooted at the expression-node parameter, sibling field-write comparison (Init vs Decode)",
 "DESIGN.md §3 C10")

claim("C18",
 "Static shared-state analysis: (engine E1 with global roots) from every evaluation entry point — expression parsing, all operator handlers, codec / printer / evaluator methods and constructors — no store to a package-level variable or through one (field stores, container updates, and — for methods of the process-wide singletons built under sync.Once — writes through the receiver) is reachable, except initialisation under sync.Once; dynamic calls through the lexer's rule table are resolved with the VTA call graph. No Decoder/Encoder instance is created in a package-level initialiser or captured by a lexer rule; the parsed expression tree carries no state between evaluations (C10-S3); clock / random / environment are read only by the excluded operators and cmd start-up; no map iteration feeds an ordered container or writer; decoder state is reset by Init; every lexer action allocates its token's Operation objects itself (no Operation shared between parses); encoder level counters are balanced per document; no encoder method stores into a field of its receiver outside three tabled ones; the printer resets encoder-held leading content for every result. With no goroutines and no other sync primitive in the module, 'no evaluation-time write to shared module memory' is also sufficient for race freedom on module memory. A field an encoder receives anew for every result (xml leading content) is stored on every path of the receiving method.",
 TB + " Third-party packages are assumed goroutine-safe as documented.",
 "static analysis: summary-based mutation-footprint analysis with global roots (E1), VTA call graph for table-driven dispatch, initialiser census, who-may-call for nondeterminism sources",
 "DESIGN.md §3 C18")

claim("C02",
 "Static analysis of the assignment primitives with engine E1 summaries: UpdateFrom / UpdateAttributesFrom store nothing of the assigned value into the target but scalars, fresh deep copies and the Alias pointer, replace Kind/Content/Value on every path (CFG must-pass-through), and write only fields of the receiver; everything the ASSIGN handlers write goes through them on a match or is guarded auto-creation; compound assignment applies its operator to a Copy() of the match; `|=` hands UpdateFrom the first result of the right-hand side (not a loop variable over all results); a length snapshot of a node's Content is never used after a possible resize of that Content without being re-taken (resize summaries computed to a fixed point); a kind change resets the children before the new kind is stored (must-pass-through); the assignment primitives write value and presentation attributes only, never position, provenance or the document header; and the 42 operand evaluations that are read-only on the pinned tree (RHS of `=`, index expressions, operator operands) stay read-only. Whether traverseMap creates a missing entry does not depend on the text of the key. Necessary conditions of put-get / put-put / frame: aliasing RHS nodes, a store outside the receiver, or a writable operand evaluation each break a law for some input.",
 TB + " Read-only reference table: ref_readonly.go.",
 "static analysis: summary-based mutation-footprint / provenance analysis (E1), CFG must-pass-through, SSA pattern for the copy in compound assignment, CFG reachability of stale length snapshots with inter-procedural resize summaries, evaluation-site census",
 "DESIGN.md §3 C02")
claim("C03",
 "Static analysis of delete: the E1 footprints of deleteFromMap / deleteFromArray are exactly {parent.Content, index keys of surviving children} and everything deleteChildOperator writes goes through them; the selection is evaluated read-only; the victim is located by equality (no glob/pattern matcher reachable, no string==interface{} comparison); a node's whole child list is replaced only by its own children, an empty list or through the positioning primitives (element provenance over SSA; found and fixed: array subtraction kept stale position keys); string-tagged keys are never parsed as numbers on their way into a path; deleteFromArray selects its victim by loop position; AddChild's key discipline (one known finding: a child that already has a key keeps its old index, which makes delete on re-ordered containers remove the wrong element). Necessary conditions only.",
 TB,
 "static analysis: E1 footprint comparison against the expected set, static reachability (who-may-call the glob matcher), SSA comparison-shape rule",
 "DESIGN.md §3 C03")
claim("C04",
 "Static analysis of deep merge: E1 shows that from the MULTIPLY handler through the crossFunction callback, mergeObjects and applyAssignment (locally built ASSIGN / ASSIGN_ATTRIBUTES / ADD_ASSIGN expressions evaluated on a fresh copy of the left operand) no store reaches a node of the operands or the context; the writable context created for the merge never meets a user sub-expression; UpdateFrom deep-copies (result shares no node with the right operand); a reaching-definitions check shows the merge preferences always carry DontFollowAlias; the merge callback returns only objects allocated during the call; a function that receives a preferences struct hands its callees that struct (or a copy with overrides), never a fresh literal (23 sites incl. the recursive builder of the deep-merge assignments); the attribute update is not confined to !OnlyWriteNull; a kind change resets the children; mergeObjects skips an element of the right operand only for the !!merge tag; string-tagged keys are never parsed as numbers. A function calling itself never overrides a field of the preferences it received. Necessary conditions of operand immutability.",
 TB,
 "static analysis: summary-based mutation-footprint analysis (E1) incl. locally built dynamic evaluations, writable-context taint, CFG reaching-definitions on a preference field, SSA argument-provenance rule for preference forwarding",
 "DESIGN.md §3 C04")
claim("C07",
 "Static analysis of what an update may touch: footprints of the assignment primitives and of delete confined to the addressed node / the parent's child list (E1); every comment / style / anchor / tag store in UpdateAttributesFrom is control-dependent on the new value bringing that attribute (dominator guards); Copy() carries every CandidateNode field and shares nothing but Parent/Alias; AddChild/AddKeyValueChild add full Copy()s of their arguments; the assignment primitives never write position, provenance or the document header; string-tagged keys stay strings in paths; operands evaluated read-only on the pinned tree stay read-only (an index expression may not auto-create keys outside the target). `as $v` binds a Copy() of every matched node, whatever the node is. Necessary conditions: an unconditional attribute store or a store outside the target is exactly 'presentation changed without being asked'.",
 TB,
 "static analysis: E1 footprints, dominator-guard recognition per attribute store, struct-literal field coverage, evaluation-site census",
 "DESIGN.md §3 C07")
claim("C16",
 "Static analysis of the position attributes: AddChild / AddKeyValueChild / CopyAsReplacement establish Parent and Key (one known finding: AddChild keeps a stale index key); whole child-list stores hold only the node's own children / an empty list / go through the positioning primitives, which add full copies; every direct store into a Content slot stores a positioned node (CopyAsReplacement / CreateReplacement result, permutation of existing children, created as child of the container, or re-keyed in place); Copy shares nothing but Parent/Alias with the original (E1 result summary), so renumbering one never rewrites the other; key/path/parent read only the recorded attributes. Necessary conditions of path(n) naming where n is.",
 TB,
 "static analysis: E1 result/sharing summaries, SSA store-provenance rule for Content slots, branch-shape rule in AddChild, static-reach field-read census",
 "DESIGN.md §3 C16")

claim("C05",
 "Deliberately narrow static check of the YAML round trip: the yaml.Node attribute set read while decoding equals the set written while encoding (and likewise for CandidateNode attributes), computed from field accesses in the four conversion functions; the two style maps are mutually inverse on the named styles with numerically equal constants and an identity fall-through; Copy() carries every CandidateNode field; the document-separator marker is one literal; decoder and encoder recognise a leading comment line with the same pattern; every yaml.Node returned by MarshalYAML passed through copyToYamlNode on every path; MarshalYAML has an arm for every node kind. copyToYamlNode writes each attribute on every path whatever the node kind; printedMatches is never read to decide what is printed. Necessary conditions: an attribute dropped in either direction is lost for every document carrying it. Everything that depends on yaml.v3's emitter and on leading-content pre-processing is NOT decided.",
 TB,
 "static analysis: field read/write set comparison over SSA, constant-table bijection check on the AST, struct-literal coverage, literal agreement",
 "DESIGN.md §3 C05")
claim("C06",
 "Static check of the YAML<->JSON conversion paths: every json encoder reaches Encode only after SetEscapeHTML(false) (CFG must-pass-through); JSON scalars are decoded with UseNumber and no unsigned->signed conversion is applied to parsed integers; only the printer invokes Encoder.Encode, after testing CanHandleAliases and exploding on the negative branch; no Go map is a decode target or ranged over; MarshalJSON returns the scalar conversion error; the latest anchor definition wins and merged values are exploded on every path; MarshalJSON encodes o.Content only where it is known non-empty (a nil slice prints as null) and has an arm for every node kind; the !!int arm of GetValueRep never goes through ParseFloat; the JSON encoder never uses Go's quoting functions. A command-line setting (package-level flag variable) is not rewritten in a function after a decision was taken from it there. Necessary conditions of value-exactness; string escaping and float formatting are delegated to goccy/go-json and not decided.",
 TB,
 "static analysis: CFG must-pass-through, decode-target type census, who-may-call, dominator-guard recognition",
 "DESIGN.md §3 C06")
claim("C13",
 "Narrow static check over the three read routes (traverse, explode, JSON encode): every site that classifies a map entry as a merge key uses the same predicate (tag !!merge); non-alias-capable encoders get exploded input; an anchor definition unconditionally replaces the previous one of that name; overrideEntry explodes the value on every successful path; explodeNode's recursion into children is not conditional on the child; a merged mapping is read through doTraverseMap (nested merge keys followed); the JSON route has an arm for alias nodes. Preferences and the per-document anchor table are handed on as received (a function calling itself never changes a preference for the recursion; the anchor table parameter is passed, never a fresh map). Necessary conditions of route agreement; which source wins (explicit vs merged, list order) is a value-level fact and NOT decided.",
 TB,
 "static analysis: sibling-predicate agreement over SSA comparisons, control-dependence of a map update, CFG must-pass-through",
 "DESIGN.md §3 C13")
claim("C14",
 "Narrow static check of the other codecs: the Lua escape table (constants of the strings.NewReplacer call) maps every control byte, DEL, quotes and backslash to its decimal or named escape; for each Format record the encoder and decoder factories read the same Configured*Preferences; every codec operator the lexer can emit names a Format whose needed factory is non-nil; codec functions drop no error and flush their writers; a reused decoder is reset by Init; the XML encoder's key classifier consults every reserved-name preference the XML decoder builds keys with; Lua keys are written bare only when they are ASCII identifiers and not reserved words (exact rune-set evaluation of needsQuoting, unicode tables included); csv/tsv readers keep encoding/csv's defaults apart from the separator. Value fidelity of the codecs is delegated to third-party libraries and NOT decided.",
 TB,
 "static analysis: constant-table verification, registry/lexer-table cross-check (AST abstract evaluation), SSA error-discipline and flush pairing, field read-set agreement between sibling codec halves",
 "DESIGN.md §3 C14")

claim("C11",
 "Static census of panic-capable constructs over the whole module, each an obligation decided on every run: explicit panic statements and panicking third-party APIs (only in a reasoned table / with constant arguments); unchecked Preferences type assertions checked against every construction site of the operation type (lexer rule table resolved through its factory closures + Operation literals in code); list-element typing; handler operand dereferences vs NumArgs; Front()/Back()/Alias dereferences under a nil or length test; constant and len-k index/slice bounds proved by dominator-based interval reasoning over len() or covered by a residual table that names the invariant; all 222 variable index/slice bounds proved (loop shapes, dominating and edge tests, make lengths, equal-length tests, caller guarantees, key-finder contracts, the key/value pair idiom) or tabled per bound (31) — this found and fixed three crashes; csv readers keep rectangular records; a pointer result is dereferenced only where its error is known nil; upper bounds also through min(), tested values on phi edges and helper results; level counters are balanced on every non-error exit; calculations registered with calcWhenEmpty use their operands only where a path-sensitive nil analysis knows them non-nil; guarded division / Repeat / make; length snapshots of a node's Content are not used after a possible resize; the lexeme-slicing helpers are verified against the regex of every lexer rule that calls them. The 'never hangs' half of the property, general nil dereferences, third-party parser panics and stack exhaustion are NOT decided. A recursion that descends into children re-enters itself along an alias edge only behind an ancestor test (two stack overflows found and fixed).",
 TB + " The residual tables in rules_c11.go (41 constant-index sites, 31 variable-index sites, 2 list-end sites, 4 arithmetic sites, 1 accepted panic) were triaged by reading each site; every row carries its invariant.",
 "static analysis: panic-site census with dominator-based interval reasoning over len(), type-assertion / construction-site agreement from the extracted operator and lexer tables, nil-guard recognition",
 "DESIGN.md §3 C11")

claim("C01",
 "Deliberately narrow: decides only the plumbing clauses that the statement names, from the shape of the code — `|` composes (pipeOperator runs the right side on the left side's results in a context derived from its own and returns the right side's results); `,` concatenates (both sides evaluated in the operator's context, left results appended front to back before right results); binary operators pair left-major (doCrossFunc's outer loop walks the left results, resultsForRHS's inner loop the right results, both front to back, the calculation is called with (left, right), results appended at the back); every operation type the lexer can emit or token post-processing inserts has a handler in the operator table; no result list is built or walked back to front outside the two update operators that do so deliberately; the Context returned by one evaluation is never the context of another (scoping); an operator appends to / removes from only node lists it created or was handed as an out-parameter, never the list inside the context it was given or inside an evaluation result (`.` and `$x` hand back the caller's own list); only path traversal and string `==` call the glob key matcher; neither copy loop of `,` skips an element because of what it is; variables are bound on a derived context, never on the one received or returned by an evaluation (found and fixed: reduce overwrote an outer variable). What any operator COMPUTES and WHEN an error is due quantify over runtime values and are NOT decided.",
 TB + " The two reverse-walking update operators and the two context-threading operators (reduce, delpaths) are explicit one-line-reason tables.",
 "static analysis: SSA shape rules on the three plumbing functions (argument provenance, loop/phi recognition over container/list, dominance order of the appends), operator-table / lexer-table cross-check, module-wide call census on list direction, list-ownership provenance rule for every list-mutating call, who-may-call table for the glob matcher, evaluation-site census",
 "DESIGN.md §3 C01")

na = {
}
props = [json.loads(l)["id"] for l in open("/verif/properties.jsonl")]
for p in props:
    if p not in claimed and p not in na:
        na[p] = "check not built yet in this round (planned, see DESIGN.md §3); not claimed until its rules run clean"

m = {
 "version": 1,
 "setup_cmd": f"cd /verif/checker && {GO} go build -o /verif/bin/yqcheck .",
 "hooks": {
   "guard": "verif",
   "enable": "none needed: static analysis reads the source; the loader passes -tags verif, which selects no file today",
   "baseline_off_cmd": f"cd /repo && {GO} go build ./... && {GO} go test -vet=off -count=1 ./...",
   "source_commits": [],
   "add_only": True
 },
 "engines": [
   {"name": "yqcheck", "path": "/verif/checker", "serves_properties": sorted(claimed), "kind_free_text": "purpose-built static analyser (go/packages + go/types + go/ssa + call graph): table extraction, dominator/interval reasoning, provenance/mutation-footprint analysis, error-discipline and panic-site rules"}
 ],
 "checks": [],
 "notes": "All checks are static: they load /repo's current source on every run and never execute yq. exit 0 = every obligation discharged or listed in known_findings.json (printed as KNOWN-FINDING); exit 1 = VIOLATION line per unlisted finding; exit 2 = no verdict (load/type error, undecided obligation, missing anchor, rule instance count below the hand-confirmed minimum).",
 "not_applicable": [{"property_id": p, "reason": na[p]} for p in sorted(na)]
}
for p in sorted(claimed):
    c = claimed[p]
    m["checks"].append({
      "property_id": p,
      "quick_cmd": f"./check.sh {p} quick",
      "thorough_cmd": f"./check.sh {p} thorough",
      "evidence_file": f"/verif/evidence/{p}.json",
      "replay_cmd_template": "cat {path}",
      "engine": "yqcheck",
      "level_claimed": {"category": "other", "text": c["text"], "design_ref": c["ref"]},
      "level_note": c["note"],
      "technique": c["technique"]
    })
json.dump(m, open("/verif/MANIFEST.json", "w"), indent=1)
print("claimed", sorted(claimed), "n/a", sorted(na))
